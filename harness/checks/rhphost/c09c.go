package rhphost

import (
	"fmt"
	"slices"
	"strings"

	proto4 "go.sia.tech/core/rhp/v4"
	"go.sia.tech/core/types"
	rhp "go.sia.tech/coreutils/rhp/v4"

	"verif/harness/lab/rhplab"
	"verif/harness/mon"
)

// chainStep lets the chain confirm (or un-confirm) a revision of the contract
// that may be OLDER than the host's latest committed one. What the chain does
// must never roll the host's contract back: revision and roots stay what the
// last doubly signed RPC left, and the next RPC succeeds.
func (c *c09) chainStep(cs c09Case) error {
	if c.broken {
		return nil
	}
	if err := c.quiesce(); err != nil {
		return err
	}
	pre, err := c.snapshot()
	if err != nil {
		return inconclusive("pre-snapshot: %v", err)
	}
	c.history = append(c.history, cs)
	id := c.contract.ID
	what := cs.Kind
	switch cs.Kind {
	case "publish":
		onchain, err := c.lab.OnChainRevisionNumber(id)
		if err != nil {
			return inconclusive("on-chain element: %v", err)
		}
		var cands []types.V2FileContract
		for _, rv := range c.revs {
			if rv.RevisionNumber > onchain {
				cands = append(cands, rv)
			}
		}
		if len(cands) == 0 {
			c.r.Count("publish_nothing_newer_than_chain", 1)
			return nil
		}
		rv := cands[max(0, len(cands)-1-cs.Back)]
		pooled := false
		_, err = c.lab.BroadcastRevision(id, rv)
		if err != nil && strings.Contains(err.Error(), "not enough funds") {
			// everything the renter owns is tied up in pooled transactions: confirm them first
			if merr := c.lab.Mine(types.VoidAddress, 1); merr != nil {
				return inconclusive("mine: %v", merr)
			}
			if onchain, _ = c.lab.OnChainRevisionNumber(id); rv.RevisionNumber <= onchain {
				c.r.Count("publish_nothing_newer_than_chain", 1)
				return nil
			}
			_, err = c.lab.BroadcastRevision(id, rv)
		}
		if err != nil {
			// a revision un-confirmed by an earlier reorg is back in the pool and
			// wins: mining confirms that one instead
			if !strings.Contains(err.Error(), "conflicts with pool") {
				return inconclusive("broadcast revision %d: %v", rv.RevisionNumber, err)
			}
			pooled = true
			c.r.Count("publications_superseded_by_pooled_revision", 1)
		}
		if err := c.lab.Mine(types.VoidAddress, max(1, cs.Depth)); err != nil {
			return inconclusive("mine: %v", err)
		}
		got, _ := c.lab.OnChainRevisionNumber(id)
		if !pooled && got != rv.RevisionNumber {
			return inconclusive("published revision %d did not confirm (chain has %d)", rv.RevisionNumber, got)
		}
		rv.RevisionNumber = got
		c.r.Count("revisions_confirmed_on_chain", 1)
		if rv.RevisionNumber < pre.State.Revision.RevisionNumber {
			what = "publish-older"
			c.r.Count("older_revisions_confirmed_on_chain", 1)
			c.r.Distinct(fmt.Sprintf("publish-older:%d-behind:%droots", pre.State.Revision.RevisionNumber-rv.RevisionNumber, len(pre.State.Roots)))
		}
	case "reorg":
		tip := c.lab.CM.Tip().Height
		depth := min(cs.Depth, int(tip-c.formedAt))
		if cs.Back == 1 {
			depth = int(tip-c.formedAt) + 1 // also the block that confirmed the contract's creation
		}
		if depth <= 0 {
			return nil
		}
		before, _ := c.lab.OnChainRevisionNumber(id)
		if err := c.lab.Reorg(depth); err != nil {
			return inconclusive("reorg: %v", err)
		}
		c.r.Count("reorgs", 1)
		if _, _, ok := c.lab.Element(id); !ok {
			what = "reorg-unconfirming-creation"
			c.r.Count("reorgs_unconfirming_a_creation", 1)
			c.r.Distinct(fmt.Sprintf("reorg-unconfirms-creation:%d-renewals", c.renewals))
		} else if after, _ := c.lab.OnChainRevisionNumber(id); after != before {
			c.r.Count("reorgs_reverting_a_confirmed_revision", 1)
			c.r.Distinct(fmt.Sprintf("reorg-reverts:%d->%d", before, after))
			what = "reorg-reverting-revision"
		}
	}
	c.cs = c.lab.CM.TipState()
	if _, _, onChain := c.lab.Element(id); !onChain {
		// creation un-confirmed: no element to compare
	} else if err := c.lab.ContractorElementValid(id); err != nil {
		// outside this property (the element is the Contractor's chain bookkeeping): observed, not judged
		c.r.Count("contractor_element_invalid_after_"+what, 1)
	}
	post, err := c.snapshot()
	if err != nil {
		// readable before the chain event, and no RPC ran in between
		c.r.Eval()
		c.broken = true
		c.violation("contract-lost-by-chain-event:"+what, "after a chain event the host no longer holds a contract it signed (revision and roots gone): "+err.Error(), cs, nil)
		return nil
	}
	c.r.Eval()
	detail := map[string]any{"event": what, "host_revision_before": pre.State.Revision.RevisionNumber, "host_revision_after": post.State.Revision.RevisionNumber,
		"roots_before": len(pre.State.Roots), "roots_after": len(post.State.Roots)}
	if post.State.Revision != pre.State.Revision || !slices.Equal(post.State.Roots, pre.State.Roots) || post.State.Renewed != pre.State.Renewed {
		c.broken = true
		c.violation("chain-event-changed-contract:"+what, "a block confirming or reverting a revision changed the host's latest revision or its roots", cs, detail)
	} else if !slices.Equal(post.Acc, pre.Acc) || !slices.Equal(post.Pool, pre.Pool) {
		c.violation("chain-event-changed-balances:"+what, "a chain event changed account or pool balances", cs, detail)
	} else {
		c.r.Count("chain_events_changed_nothing", 1)
	}
	c.auditAll(cs)
	if err := post.State.CheckRoots(); err != nil {
		c.broken = true
		c.violation("roots-vs-revision:chain:"+what, "after a chain event the host roots no longer match its revision: "+err.Error(), cs, detail)
	}
	c.afterChain = what
	return nil
}

// auditAll checks, for every contract the host holds for this worker other
// than the current one (i.e. the renewed-away ones), that its stored roots
// still hash to the merkle root of ITS latest revision and that their count
// matches its filesize. It returns how many it audited.
func (c *c09) auditAll(cs c09Case) (n int) {
	for _, id := range c.allIDs {
		if id == c.contract.ID {
			continue
		}
		hs, err := c.lab.State(id)
		if err != nil {
			c.violation("renewed-away-contract-lost", "the host no longer holds a contract it signed: "+err.Error(), cs, map[string]any{"contract": id})
			continue
		}
		n++
		if err := hs.CheckRoots(); err != nil {
			c.broken = true
			c.violation("roots-vs-revision:renewed-away:"+cs.Kind, "after a "+cs.Kind+" on the renewal, the renewed-away contract's stored roots no longer match its own latest revision: "+err.Error(), cs,
				map[string]any{"contract": id, "roots": shortRoots(hs.Roots), "revision_number": hs.Revision.RevisionNumber})
		}
		if !hs.Renewed {
			c.violation("renewed-away-contract-changed", "a renewed-away contract is no longer marked renewed", cs, map[string]any{"contract": id})
		}
	}
	return
}

// renewal renews or refreshes the contract through the honest client. The
// successor must hold exactly the predecessor's roots, and be the contract
// core builds for the request.
func (c *c09) renewal(cs c09Case) error {
	if c.broken {
		return nil
	}
	if err := c.quiesce(); err != nil {
		return err
	}
	pre, err := c.snapshot()
	if err != nil {
		return inconclusive("pre-snapshot: %v", err)
	}
	c.history = append(c.history, cs)
	c.contract.Revision = pre.State.Revision
	hostAddr := c.lab.Settings.RHP4Settings().WalletAddress
	allowance, collateral := types.Siacoins(200), types.Siacoins(100)
	var newID types.FileContractID
	var got types.V2FileContract
	var want types.V2FileContractRenewal
	switch cs.Kind {
	case "renew":
		p := proto4.RPCRenewContractParams{ContractID: c.contract.ID, Allowance: allowance, Collateral: collateral, ProofHeight: pre.State.Revision.ProofHeight + 150}
		want, _ = proto4.RenewContract(pre.State.Revision, c.prices, hostAddr, p)
		res, rerr := rhp.RPCRenewContract(ctxBG(), c.cl, c.lab.CM, c.lab.Signer(), c.cs, c.prices, hostAddr, pre.State.Revision, p)
		err, newID, got = rerr, res.Contract.ID, res.Contract.Revision
	default:
		p := proto4.RPCRefreshContractParams{ContractID: c.contract.ID, Allowance: allowance, Collateral: collateral}
		var res rhp.RPCRefreshContractResult
		if cs.Kind == "refresh-partial" {
			want, _ = proto4.RefreshContractPartialRollover(pre.State.Revision, c.prices, hostAddr, p)
			res, err = rhp.RPCRefreshContractPartialRollover(ctxBG(), c.cl, c.lab.CM, c.lab.Signer(), c.cs, c.prices, hostAddr, pre.State.Revision, p)
		} else {
			want, _ = proto4.RefreshContractFullRollover(pre.State.Revision, c.prices, hostAddr, p)
			res, err = rhp.RPCRefreshContractFullRollover(ctxBG(), c.cl, c.lab.CM, c.lab.Signer(), c.cs, c.prices, hostAddr, pre.State.Revision, p)
		}
		newID, got = res.Contract.ID, res.Contract.Revision
	}
	if qerr := c.quiesce(); qerr != nil {
		return qerr
	}
	c.r.Eval()
	c.r.Count("attempts_"+cs.Kind, 1)
	if err != nil {
		if c.afterChain != "" {
			c.broken = true
			c.violation("rpc-failed-after-chain-event:"+c.afterChain, "after a chain event an honest "+cs.Kind+" fails: "+err.Error(), cs, nil)
			return nil
		}
		c.r.Count("unexpected_failures", 1)
		c.r.Inconclusive(fmt.Sprintf("honest %s failed: %v", cs.Kind, err))
		c.broken = true
		return nil
	}
	old, err := c.snapshot()
	if err != nil {
		return inconclusive("post-snapshot: %v", err)
	}
	succ, err := c.lab.State(newID)
	if err != nil {
		c.broken = true
		c.violation("successor-missing:"+cs.Kind, "the renewed contract is not stored by the host: "+err.Error(), cs, nil)
		return nil
	}
	detail := map[string]any{"predecessor_roots": shortRoots(pre.State.Roots), "successor_roots": shortRoots(succ.Roots),
		"predecessor": map[string]uint64{"filesize": pre.State.Revision.Filesize, "capacity": pre.State.Revision.Capacity},
		"successor":   map[string]uint64{"filesize": succ.Revision.Filesize, "capacity": succ.Revision.Capacity}}
	if old.State.Revision != pre.State.Revision || !slices.Equal(old.State.Roots, pre.State.Roots) || !old.State.Renewed {
		c.violation("predecessor-changed-by-renewal:"+cs.Kind, "the renewed-away contract is not left at its last revision, marked renewed", cs, detail)
	}
	if !slices.Equal(succ.Roots, c.model) {
		c.broken = true
		c.violation("successor-roots-differ:"+cs.Kind, fmt.Sprintf("the successor holds %d roots, the predecessor (and the list model) %d: a renewal must carry over exactly the contract's roots", len(succ.Roots), len(c.model)), cs, detail)
	}
	if err := succ.CheckRoots(); err != nil {
		c.broken = true
		c.violation("roots-vs-revision:"+cs.Kind+":success", "the successor's roots do not match its revision: "+err.Error(), cs, detail)
	}
	if stripSigs(succ.Revision) != want.NewContract {
		c.violation("successor-differs-from-core:"+cs.Kind, "the stored successor differs from the contract core builds for this renewal (filesize, capacity, payouts ...)", cs, map[string]any{"want": want.NewContract, "got": succ.Revision})
	}
	if succ.Revision != got {
		c.violation("renter-revision-mismatch:"+cs.Kind, "the successor the renter holds is not the one the host stored", cs, nil)
	}
	c.r.Count("success_"+cs.Kind, 1)
	if pre.State.Revision.Capacity > pre.State.Revision.Filesize {
		c.r.Count("renewals_with_capacity_above_filesize", 1)
		c.r.Distinct(fmt.Sprintf("%s:%d-of-%d-sectors", cs.Kind, pre.State.Revision.Filesize/proto4.SectorSize, pre.State.Revision.Capacity/proto4.SectorSize))
	}
	if err := c.lab.Mine(types.VoidAddress, 1); err != nil {
		return inconclusive("mine renewal: %v", err)
	}
	c.contract = rhp.ContractRevision{ID: newID, Revision: succ.Revision}
	c.allIDs = append(c.allIDs, newID)
	c.cs = c.lab.CM.TipState()
	c.revs, c.formedAt = nil, c.lab.CM.Tip().Height
	c.renewals++
	c.readOK = map[types.Hash256]bool{}
	c.afterChain = ""
	c.lab.Mux.Forget(c.lab.Mux.Streams())
	c.lab.Log.Trim(c.lab.Log.Seq())
	return nil
}

// c09ChainJobs: PRNG sequences mixing appends / frees / funds with the chain
// confirming earlier revisions, reorgs reverting them, and renewals.
func c09ChainJobs(r *mon.Run) []c09Job {
	var jobs []c09Job
	njobs := r.Pick(6, 24)
	for j := 0; j < njobs; j++ {
		rng := r.RNG(0x09C500 + uint64(j))
		var seqs [][]c09Case
		for s := 0; s < 3; s++ {
			var seq []c09Case
			size := 0
			rpc := func() c09Case {
				switch v := rng.IntN(10); {
				case size == 0 || (size < 6 && v < 5):
					k := 1 + rng.IntN(2)
					size += k
					return c09Case{Kind: "append", Via: "honest", N: -1, Batch: slices.Repeat([]string{"new"}, k)}
				case v < 8:
					k := 1 + rng.IntN(min(size, 2))
					size -= k
					return c09Case{Kind: "free", Via: "honest", N: -1, Indices: u64s(rng.Perm(size + k)[:k]...), List: "full"}
				default:
					return c09Case{Kind: "fund", Via: "honest", N: -1}
				}
			}
			// start publicly: the first publication needs a revision newer than the formation
			seq = append(seq, rpc(), rpc())
			for step := 0; step < 14; step++ {
				switch v := rng.IntN(10); {
				case v < 4:
					// publish an earlier revision, keep revising, never wait for it
					seq = append(seq, c09Case{Kind: "publish", N: -1, Back: 1 + rng.IntN(3), Depth: 1 + rng.IntN(2)}, rpc())
				case v < 5:
					seq = append(seq, c09Case{Kind: "publish", N: -1, Back: 0, Depth: 1}, rpc())
				case v < 7:
					seq = append(seq, c09Case{Kind: "reorg", N: -1, Depth: 1 + rng.IntN(3)}, rpc())
				default:
					seq = append(seq, rpc(), rpc())
				}
			}
			seqs = append(seqs, seq)
		}
		jobs = append(jobs, c09Job{name: fmt.Sprintf("H-chain-%d", j), seqs: seqs})
	}
	// renewals after frees: capacity above filesize, roots carried over exactly
	kinds := []string{"refresh-partial", "refresh-full", "renew"}
	for j := 0; j < r.Pick(6, 18); j++ {
		rng := r.RNG(0x09D500 + uint64(j))
		var seqs [][]c09Case
		for s := 0; s < 2; s++ {
			k := 3 + rng.IntN(4)
			f := 1 + rng.IntN(k-1)
			seq := []c09Case{
				{Kind: "append", Via: "honest", N: -1, Batch: slices.Repeat([]string{"new"}, k)},
				{Kind: "free", Via: []string{"raw", "honest"}[rng.IntN(2)], N: -1, Indices: u64s(rng.Perm(k)[:f]...)},
				{Kind: kinds[(j+s)%3], N: -1},
				{Kind: "roots", Via: "honest", N: -1, Offset: 0, Length: uint64(k - f)},
				{Kind: "append", Via: "honest", N: -1, Batch: []string{"new", "dup"}, List: "all"},
				{Kind: "free", Via: "honest", N: -1, Indices: []uint64{0}, List: "all"},
				{Kind: kinds[(j+s+1)%3], N: -1},
				{Kind: "append", Via: "raw", N: -1, Batch: []string{"new"}, List: "full"},
				{Kind: "publish", N: -1, Back: 1, Depth: 1},
				{Kind: "free", Via: "raw", N: -1, Indices: []uint64{1, 0}, List: "full"},
				{Kind: kinds[(j+s+2)%3], N: -1},
				{Kind: "free", Via: "honest", N: -1, Indices: []uint64{0}, List: "all"},
				// a longer fork reverts the block that confirmed the renewal: the host keeps
				// both contracts as they are and goes on serving the renewal
				{Kind: "reorg", N: -1, Back: 1},
				{Kind: "append", Via: "honest", N: -1, Batch: []string{"new"}, List: "full"},
				{Kind: "free", Via: "raw", N: -1, Indices: []uint64{0}},
			}
			seqs = append(seqs, seq)
		}
		jobs = append(jobs, c09Job{name: fmt.Sprintf("I-renewals-%d", j), seqs: seqs})
	}
	return jobs
}

var _ = rhplab.DirIn
