package rhphost

import (
	"errors"
	"fmt"
	"math/rand/v2"
	"slices"
	"sync"
	"time"

	proto4 "go.sia.tech/core/rhp/v4"
	"go.sia.tech/core/types"

	"verif/harness/lab/rhplab"
	"verif/harness/mon"
)

type c08ConcOp struct {
	Client int    `json:"client"`
	RPC    string `json:"rpc"`
	Base   uint64 `json:"base_revision_number"`
	Err    string `json:"error,omitempty"`
}

// c08Concurrent races k raw clients on one contract. Every client repeatedly
// fetches the latest revision and issues a well-formed RPC built on it; most
// lose (stale base or busy lock). The committed sequence as logged by the
// recording Contractor must satisfy the pairwise oracle.
func c08Concurrent(r *mon.Run, k int) error {
	c, err := newC08(r, uint64(100+k))
	if err != nil {
		return err
	}
	defer c.close()
	defer func() { r.Count("handler_panics_recovered", c.lab.HostPanics()) }()
	// give the contract some sectors and the accounts some funds first
	for _, st := range []c08Step{{RPC: "append", Batch: []string{"new", "new", "new"}}, {RPC: "fund", Accounts: []int{0, 1}, Amounts: []uint64{1000}}} {
		if err := c.step(st); err != nil {
			return err
		}
	}
	c.cur = nil
	c.steps = nil

	// schedule perturbation at the injected interfaces (real suspension points)
	var pmu sync.Mutex
	prng := r.RNG(0x08C0 + uint64(k))
	perturb := func(string) {
		pmu.Lock()
		v := prng.IntN(16)
		pmu.Unlock()
		switch {
		case v == 0:
			time.Sleep(time.Duration(200+v*100) * time.Microsecond)
		case v < 4:
			time.Sleep(20 * time.Microsecond)
		}
	}
	c.lab.Log.Perturb.Store(&perturb)

	raws := make([]*rhplab.Raw, k)
	rngs := make([]*rand.Rand, k)
	for i := range raws {
		raws[i] = c.lab.NewRaw()
		rngs[i] = r.RNG(0x08C100 + uint64(k)*64 + uint64(i))
	}
	rounds := r.Pick(120, 600)
	perClient := 3
	id := c.contract.ID
	for round := 0; round < rounds; round++ {
		if err := c.quiesce(); err != nil {
			return err
		}
		var mu sync.Mutex
		var ops []c08ConcOp
		var wg sync.WaitGroup
		start := make(chan struct{})
		for i := 0; i < k; i++ {
			wg.Add(1)
			go func(i int) {
				defer wg.Done()
				<-start
				raw, rng := raws[i], rngs[i]
				for j := 0; j < perClient; j++ {
					latest, err := raw.LatestRevision(id)
					if err != nil {
						mu.Lock()
						ops = append(ops, c08ConcOp{Client: i, RPC: "latest", Err: err.Error()})
						mu.Unlock()
						continue
					}
					op := c.concOp(raw, rng, latest.Contract)
					op.Client = i
					mu.Lock()
					ops = append(ops, op)
					mu.Unlock()
				}
			}(i)
		}
		close(start)
		wg.Wait()
		if err := c.quiesce(); err != nil {
			return err
		}
		if !c.locksReleased(fmt.Sprintf("concurrent-x%d", k)) {
			return nil
		}
		post, err := c.snapshot()
		if err != nil {
			return inconclusive("post-snapshot: %v", err)
		}
		r.Eval()
		r.Count("concurrent_rounds", 1)
		// interleaving signature: order of lock / commit / unlock by client stream
		sig := ""
		first := map[uint64]int{}
		for _, ev := range c.lab.Log.Since(c.aud.seq) {
			if ev.Kind == rhplab.EvLock || ev.Kind == rhplab.EvUnlock || ev.Persisting() {
				if _, ok := first[ev.Stream]; !ok {
					first[ev.Stream] = len(first)
				}
				tag := ev.Kind[:1]
				if ev.Err != "" {
					tag = "x"
				}
				sig += fmt.Sprintf("%s%d ", tag, first[ev.Stream])
			}
		}
		r.SetAdd("interleavings", sig)
		r.Distinct(fmt.Sprintf("conc%d:%x", k, hashString(sig)))
		c.cur = &c08Step{RPC: fmt.Sprintf("concurrent x%d round %d", k, round)}
		c.steps = []c08Step{*c.cur}
		commits := c.aud.audit()
		ok := 0
		for _, ev := range commits {
			if ev.Err == "" {
				ok++
			}
		}
		wins := 0
		for _, op := range ops {
			if op.Err == "" && op.RPC != "latest" {
				wins++
			}
		}
		r.Count("concurrent_commits", ok)
		r.Count("concurrent_ops", len(ops))
		r.Count("concurrent_ops_lost", len(ops)-wins)
		detail := map[string]any{"ops": ops, "commits": ok}
		if tr := c.aud.tracks[id]; tr != nil && tr.rev != post.State.Revision {
			c.report("host-state-not-last-commit:concurrent", "the host's latest revision is not the last revision it persisted", nil, detail)
		}
		if err := post.State.CheckRoots(); err != nil {
			c.report("roots-vs-revision:concurrent", err.Error(), nil, detail)
		}
		if ok > 0 {
			if err := acceptableToConsensus(c.lab, id, post.State.Revision); err != nil {
				var inc errInconclusive
				if errors.As(err, &inc) {
					return err
				}
				c.report("consensus-rejects-latest-revision:concurrent", err.Error(), nil, detail)
			} else {
				r.Count("revision_txns_validated", 1)
			}
		}
		c.model = slices.Clone(post.State.Roots)
		c.lab.Mux.Forget(c.lab.Mux.Streams())
		c.lab.Log.Trim(c.aud.seq)
	}
	return nil
}

func hashString(s string) uint64 {
	h := uint64(14695981039346656037)
	for i := 0; i < len(s); i++ {
		h = (h ^ uint64(s[i])) * 1099511628211
	}
	return h
}

// concOp issues one well-formed RPC built on base. It touches no shared state.
func (c *c08) concOp(raw *rhplab.Raw, rng *rand.Rand, base types.V2FileContract) (op c08ConcOp) {
	contract := c.contract
	contract.Revision = base
	op.Base = base.RevisionNumber
	n := int(base.Filesize / proto4.SectorSize)
	var err error
	switch v := rng.IntN(6); {
	case v == 0:
		op.RPC = "fund"
		res := raw.Fund(c.cs, rhplab.FundCall{Contract: contract, Deposits: []proto4.AccountDeposit{{Account: c.accts[rng.IntN(4)], Amount: types.NewCurrency64(1 + rng.Uint64N(100000))}}})
		err = res.Err
	case v == 1:
		op.RPC = "replenish-accounts"
		res := raw.Replenish(c.cs, rhplab.ReplenishCall{Contract: contract, Accounts: []proto4.Account{c.accts[rng.IntN(4)]}, Target: types.NewCurrency64(1 << 50).Mul64(1 + rng.Uint64N(1<<20))})
		err = res.Err
	case v == 2:
		op.RPC = "replenish-pools"
		res := raw.Replenish(c.cs, rhplab.ReplenishCall{Pools: true, Contract: contract, Accounts: []proto4.Account{c.accts[rng.IntN(4)]}, Target: types.NewCurrency64(1 << 50).Mul64(1 + rng.Uint64N(1<<20))})
		err = res.Err
	case v == 3 && n > 1:
		op.RPC = "free"
		res := raw.Free(c.cs, rhplab.FreeCall{Contract: contract, Prices: c.prices, Indices: []uint64{uint64(rng.IntN(n))}, SkipProof: true})
		err = res.Err
	case v == 4 && n > 0:
		op.RPC = "roots"
		res := raw.Roots(c.cs, rhplab.RootsCall{Contract: contract, Prices: c.prices, Offset: 0, Length: uint64(n)})
		err = res.Err
	default:
		op.RPC = "append"
		roots := []types.Hash256{c.stored[rng.IntN(len(c.stored))].Root}
		if n > 8 {
			roots = []types.Hash256{rhplab.UnknownRoot(1)}
		}
		res := raw.Append(c.cs, rhplab.AppendCall{Contract: contract, Prices: c.prices, Roots: roots})
		err = res.Err
	}
	op.Err = errText(err)
	return
}
