package rhphost

import (
	"errors"
	"fmt"
	"slices"

	proto4 "go.sia.tech/core/rhp/v4"
	"go.sia.tech/core/types"
	rhp "go.sia.tech/coreutils/rhp/v4"

	"verif/harness/lab/rhplab"
	"verif/harness/mon"
)

// c09Trio is one round of the three-actor pattern on ONE contract.
type c09Trio struct {
	A     string `json:"a"` // in flight, paused between its rounds while it holds the contract lock
	B     string `json:"b"` // attempted meanwhile: refused as already locked
	C     string `json:"c"` // attempted after B's refusal, A still in flight: must be refused too
	Roots int    `json:"roots_before"`
}

// c09ThreeActors: a failed lock attempt must not release the holder's lock.
// The lab's mutual-exclusion monitor sits around the Contractor's
// LockV2Contract / unlock; the stored roots must match the committed revision
// of the live contract at quiescence, and its roots must list with a valid proof.
func c09ThreeActors(r *mon.Run) error {
	c, err := newC09(r, "K-three-actors", 980)
	if err != nil {
		return err
	}
	defer c.close()
	as := []string{"append", "free", "renew", "refresh-partial", "refresh-full"}
	bs := []string{"fund", "append", "free", "renew", "refresh-partial"}
	rng := r.RNG(0x09F300)
	rounds := r.Pick(60, 300)
	for i := 0; i < rounds; i++ {
		t := c09Trio{A: as[i%len(as)], B: bs[(i/len(as))%len(bs)], C: bs[rng.IntN(len(bs))]}
		if i%4 == 0 {
			t.C = []string{"renew", "append", "refresh-partial", "free"}[(i/4)%4] // the interleavings that hurt most
		}
		if err := c.trio(t); err != nil {
			if errors.Is(err, errScenarioOver) {
				continue
			}
			return err
		}
	}
	r.Count("handler_panics_recovered", c.lab.HostPanics())
	return nil
}

// contend issues one well-formed RPC on base through its own client.
func (c *c09) contend(kind string, base rhp.ContractRevision, model []types.Hash256) (stream uint64, err error) {
	raw := c.lab.NewRaw()
	defer func() { stream = raw.C.LastStream() }()
	switch kind {
	case "fund":
		return 0, raw.Fund(c.cs, rhplab.FundCall{Contract: base, Deposits: []proto4.AccountDeposit{{Account: c.acct, Amount: types.NewCurrency64(555)}}}).Err
	case "append":
		res := raw.Append(c.cs, rhplab.AppendCall{Contract: base, Prices: c.prices, Roots: c.newRoots(1)})
		if res.Err == nil && res.Stage != rhplab.StageComplete {
			return 0, errors.New("incomplete")
		}
		return 0, res.Err
	case "free":
		res := raw.Free(c.cs, rhplab.FreeCall{Contract: base, Prices: c.prices, Indices: []uint64{uint64(len(model) - 1)}, SkipProof: true})
		if res.Err == nil && res.Stage != rhplab.StageComplete {
			return 0, errors.New("incomplete")
		}
		return 0, res.Err
	}
	k := map[string]rhplab.RenewKind{"renew": rhplab.KindRenew, "refresh-full": rhplab.KindRefreshFull, "refresh-partial": rhplab.KindRefreshPartial}[kind]
	res := raw.Renew(c.cs, rhplab.RenewCall{Kind: k, Existing: base, Prices: c.prices, Allowance: types.Siacoins(200), Collateral: types.Siacoins(100), ProofHeight: base.Revision.ProofHeight + 150})
	if res.Err == nil && res.Stage != rhplab.StageComplete {
		return 0, errors.New("incomplete")
	}
	return 0, res.Err
}

func (c *c09) trio(t c09Trio) error {
	r := c.r
	if c.renewals >= 6 || c.broken {
		if err := c.freshContract(); err != nil {
			return err
		}
	}
	if len(c.model) < 3 || len(c.model) > 6 {
		if err := c.ensureSize(4); err != nil {
			return err
		}
	}
	if err := c.quiesce(); err != nil {
		return err
	}
	pre, err := c.snapshot()
	if err != nil {
		return inconclusive("pre-snapshot: %v", err)
	}
	c.contract.Revision = pre.State.Revision
	base, model := c.contract, slices.Clone(c.model)
	t.Roots = len(model)
	c.lab.Log.TakeLockViolations()
	seq0 := c.lab.Log.Seq()

	var bErr, cErr error
	var bStream, cStream uint64
	ran := false
	meanwhile := func() {
		ran = true
		bStream, bErr = c.contend(t.B, base, model)
		cStream, cErr = c.contend(t.C, base, model)
	}
	sign := func(_ types.V2FileContract, h types.Hash256) (types.Signature, bool) {
		meanwhile()
		return c.lab.RenterKey.SignHash(h), true
	}
	after := model
	var aErr error
	var newID types.FileContractID
	renewal := false
	switch t.A {
	case "append":
		roots := c.newRoots(2)
		res := c.raw.Append(c.cs, rhplab.AppendCall{Contract: base, Prices: c.prices, Roots: roots, Round2: sign})
		aErr = res.Err
		if res.Err == nil && res.Stage != rhplab.StageComplete {
			aErr = errors.New("incomplete")
		}
		after = append(slices.Clone(model), roots...)
	case "free":
		idx := []uint64{0}
		res := c.raw.Free(c.cs, rhplab.FreeCall{Contract: base, Prices: c.prices, Indices: idx, SkipProof: true, Round2: sign})
		aErr = res.Err
		if res.Err == nil && res.Stage != rhplab.StageComplete {
			aErr = errors.New("incomplete")
		}
		after = modelFree(model, idx)
	default:
		renewal = true
		k := map[string]rhplab.RenewKind{"renew": rhplab.KindRenew, "refresh-full": rhplab.KindRefreshFull, "refresh-partial": rhplab.KindRefreshPartial}[t.A]
		res := c.raw.Renew(c.cs, rhplab.RenewCall{Kind: k, Existing: base, Prices: c.prices, Allowance: types.Siacoins(200), Collateral: types.Siacoins(100), ProofHeight: base.Revision.ProofHeight + 150, BeforeRound2: meanwhile})
		aErr, newID = res.Err, res.NewID
		if res.Err == nil && res.Stage != rhplab.StageComplete {
			aErr = errors.New("incomplete")
		}
	}
	if err := c.quiesce(); err != nil {
		return err
	}
	r.Eval()
	if !ran {
		return inconclusive("three-actor round %+v: A never reached its second round (%v)", t, aErr)
	}
	r.Count("three_actor_rounds", 1)
	r.Distinct(fmt.Sprintf("trio:%s/%s/%s", t.A, t.B, t.C))
	detail := map[string]any{"a_error": errText(aErr), "b_error": errText(bErr), "c_error": errText(cErr)}
	clean := true

	// (1) the monitor around LockV2Contract / unlock
	for _, lv := range c.lab.Log.TakeLockViolations() {
		clean = false
		detail["violation"] = lv
		r.Violation(fmt.Sprintf("contract-lock-granted-while-held:%s-in-flight", t.A), "the Contractor granted the contract lock to a second RPC while the first still held it (a failed lock attempt must not release the holder's lock)", t, detail)
	}
	if held := c.lab.Log.HeldLocks(); len(held) > 0 {
		clean = false
		for id := range held {
			c.lab.Log.ForgetLock(id)
		}
		r.Violation("contract-lock-left-held:three-actors", "a contract lock is still held although every handler has returned", t, detail)
	}
	// (2) B and C are refused and commit nothing
	commits := map[uint64]int{}
	for _, ev := range c.lab.Log.Since(seq0) {
		if ev.Persisting() && ev.Err == "" {
			commits[ev.Stream]++
		}
	}
	for _, x := range []struct {
		name, kind string
		err        error
		stream     uint64
	}{{"B", t.B, bErr, bStream}, {"C", t.C, cErr, cStream}} {
		if x.err == nil || commits[x.stream] > 0 {
			clean = false
			r.Violation(fmt.Sprintf("contender-not-refused:%s:%s-while-%s", x.name, x.kind, t.A), fmt.Sprintf("RPC %s (%s) went through while %s was in flight on the same contract", x.name, x.kind, t.A), t, detail)
		} else {
			r.Count("three_actor_contenders_refused", 1)
		}
	}
	if aErr != nil {
		if clean {
			r.Count("unexpected_failures", 1)
			r.Inconclusive(fmt.Sprintf("three-actor round %+v: the in-flight RPC A did not complete: %v", t, aErr))
		}
		c.broken = true
		return errScenarioOver
	}
	// (3) the live contract: roots = model, roots <-> revision, listing with proof
	if renewal {
		old, err := c.lab.State(base.ID)
		if err != nil {
			return inconclusive("old contract state: %v", err)
		}
		if old.Revision != pre.State.Revision || !slices.Equal(old.Roots, model) || !old.Renewed {
			clean = false
			r.Violation("predecessor-changed-by-renewal:three-actors", "the renewed-away contract is not left at the revision the renewal was built on", t, detail)
		}
		if err := c.lab.Mine(types.VoidAddress, 1); err != nil {
			return inconclusive("mine renewal: %v", err)
		}
		succ, err := c.lab.State(newID)
		if err != nil {
			c.broken = true
			r.Violation("successor-missing:three-actors", "the renewed contract is not stored: "+err.Error(), t, detail)
			return errScenarioOver
		}
		c.contract = rhp.ContractRevision{ID: newID, Revision: succ.Revision}
		c.cs = c.lab.CM.TipState()
		c.revs, c.formedAt = nil, c.lab.CM.Tip().Height
		c.renewals++
		c.readOK = map[types.Hash256]bool{}
	}
	post, err := c.snapshot()
	if err != nil {
		return inconclusive("post-snapshot: %v", err)
	}
	detail["model"], detail["host_roots"] = shortRoots(after), shortRoots(post.State.Roots)
	if err := post.State.CheckRoots(); err != nil {
		clean = false
		r.Violation("roots-vs-revision:three-actors:"+t.A, "host roots do not match the committed revision of the live contract: "+err.Error(), t, detail)
	}
	if !slices.Equal(post.State.Roots, after) {
		clean = false
		r.Violation("model-mismatch:three-actors:"+t.A, "the live contract's roots differ from the list model advanced by A alone", t, detail)
	}
	c.contract.Revision = post.State.Revision
	c.model = slices.Clone(post.State.Roots)
	if !clean {
		c.broken = true
		return errScenarioOver
	}
	if n := uint64(len(c.model)); n > 0 {
		res, err := rhp.RPCSectorRoots(ctxBG(), c.cl, c.cs, c.prices, c.signer(), c.contract, 0, n)
		if qerr := c.quiesce(); qerr != nil {
			return qerr
		}
		switch {
		case err != nil:
			c.broken = true
			r.Violation("listing-failed:three-actors", "the live contract's roots cannot be listed with a proof the honest client accepts: "+err.Error(), t, detail)
			return errScenarioOver
		case !slices.Equal(res.Roots, c.model):
			r.Violation("listing-mismatch:three-actors", "listed roots differ from the model", t, detail)
		default:
			c.contract.Revision = res.Revision
			r.Count("three_actor_listings_verified", 1)
		}
	}
	c.lab.Mux.Forget(c.lab.Mux.Streams())
	c.lab.Log.Trim(c.lab.Log.Seq())
	return nil
}
