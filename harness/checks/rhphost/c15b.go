package rhphost

import (
	"bytes"
	"errors"
	"fmt"
	"sync"
	"sync/atomic"
	"time"

	"github.com/anishathalye/porcupine"
	proto4 "go.sia.tech/core/rhp/v4"
	"go.sia.tech/core/types"
	rhp "go.sia.tech/coreutils/rhp/v4"

	"verif/harness/lab/rhplab"
	"verif/harness/mon"
)

const (
	bankCredit = iota
	bankDebit
	bankBalance
)

type bankIn struct {
	Op  int
	Acc int
	Amt types.Currency
}

type bankOut struct {
	OK  bool           // debit: sufficient
	Bal types.Currency // credit: balance after; balance: balance
}

// bankModel is the sequential specification of one account without pools.
var bankModel = porcupine.Model{
	Partition: func(history []porcupine.Operation) [][]porcupine.Operation {
		m := map[int][]porcupine.Operation{}
		for _, op := range history {
			a := op.Input.(bankIn).Acc
			m[a] = append(m[a], op)
		}
		var out [][]porcupine.Operation
		for _, ops := range m {
			out = append(out, ops)
		}
		return out
	},
	Init: func() interface{} { return types.ZeroCurrency },
	Step: func(state, input, output interface{}) (bool, interface{}) {
		bal, in, out := state.(types.Currency), input.(bankIn), output.(bankOut)
		switch in.Op {
		case bankCredit:
			nb := bal.Add(in.Amt)
			return out.Bal.Equals(nb), nb
		case bankDebit:
			if bal.Cmp(in.Amt) < 0 {
				return !out.OK, bal
			}
			return out.OK, bal.Sub(in.Amt)
		default:
			return out.Bal.Equals(bal), bal
		}
	},
	DescribeOperation: func(input, output interface{}) string {
		in, out := input.(bankIn), output.(bankOut)
		switch in.Op {
		case bankCredit:
			return fmt.Sprintf("credit(a%d,%v)->%v", in.Acc, in.Amt.ExactString(), out.Bal.ExactString())
		case bankDebit:
			return fmt.Sprintf("debit(a%d,%v)->%v", in.Acc, in.Amt.ExactString(), out.OK)
		}
		return fmt.Sprintf("balance(a%d)->%v", in.Acc, out.Bal.ExactString())
	},
}

type bankOp struct {
	Client int    `json:"client"`
	Desc   string `json:"op"`
	Call   int64  `json:"call"`
	Return int64  `json:"return"`
}

// c15Concurrent lets k clients, each on its own contract, credit, debit and
// query a few shared accounts whose balances hover around the debit costs, and
// checks every account's recorded history for linearizability against the
// sequential bank model.
func c15Concurrent(r *mon.Run, k int) error {
	c, err := newC15(r, uint64(200+k), k)
	if err != nil {
		return err
	}
	defer c.close()
	defer func() { r.Count("handler_panics_recovered", c.lab.HostPanics()) }()
	const naccounts = 3
	c.acct(naccounts - 1)
	perClient := r.Pick(60, 300)
	readCost := c.prices.RPCReadSectorCost(64).RenterCost()
	verifyCost := c.prices.RPCVerifySectorCost().RenterCost()
	one := types.NewCurrency64(1)

	var clock atomic.Int64
	var mu sync.Mutex
	var history []porcupine.Operation
	var unexpected []string
	record := func(client int, in bankIn, call int64, out bankOut) {
		ret := clock.Add(1)
		mu.Lock()
		history = append(history, porcupine.Operation{ClientId: client, Input: in, Call: call, Output: out, Return: ret})
		mu.Unlock()
	}
	var wg sync.WaitGroup
	start := make(chan struct{})
	for i := 0; i < k; i++ {
		wg.Add(1)
		go func(i int) {
			defer wg.Done()
			<-start
			rng := r.RNG(0x15C000 + uint64(k)*64 + uint64(i))
			cl := c.lab.Mux.NewClient()
			contract := c.contracts[i]
			for j := 0; j < perClient; j++ {
				a := rng.IntN(naccounts)
				acct := c.acct(a)
				switch v := rng.IntN(10); {
				case v < 3: // credit an amount at / near a cost
					amt := []types.Currency{readCost, readCost.Sub(one), readCost.Add(one), verifyCost, verifyCost.Sub(one), one, readCost.Mul64(2)}[rng.IntN(7)]
					call := clock.Add(1)
					res, err := rhp.RPCFundAccounts(ctxBG(), cl, c.cs, c.signer(), contract, []proto4.AccountDeposit{{Account: acct, Amount: amt}})
					// the host releases the contract lock only after answering: wait
					// for this client's own handler before its next RPC
					if werr := cl.WaitLast(rhplab.Watchdog); werr != nil {
						mu.Lock()
						unexpected = append(unexpected, "handler barrier: "+werr.Error())
						mu.Unlock()
						return
					}
					if err != nil {
						mu.Lock()
						unexpected = append(unexpected, "fund: "+err.Error())
						mu.Unlock()
						continue
					}
					contract.Revision = res.Revision
					record(i, bankIn{Op: bankCredit, Acc: a, Amt: amt}, call, bankOut{Bal: res.Balances[0].Balance})
				case v < 8: // debit
					tok := proto4.NewAccountToken(c.accKeys[a], c.lab.HostKey.PublicKey())
					tok.ValidUntil = time.Now().Add(3 * time.Hour)
					tok.Signature = c.accKeys[a].SignHash(tok.SigHash())
					cost := readCost
					call := clock.Add(1)
					var err error
					if rng.IntN(4) == 0 {
						cost = verifyCost
						_, err = rhp.RPCVerifySector(ctxBG(), cl, c.prices, tok, c.stored[0].Root)
					} else {
						var buf bytes.Buffer
						_, err = rhp.RPCReadSector(ctxBG(), cl, c.prices, tok, &buf, c.stored[1].Root, 0, 64)
					}
					switch {
					case err == nil:
						record(i, bankIn{Op: bankDebit, Acc: a, Amt: cost}, call, bankOut{OK: true})
					case errors.Is(err, proto4.ErrNotEnoughFunds):
						record(i, bankIn{Op: bankDebit, Acc: a, Amt: cost}, call, bankOut{OK: false})
					default:
						mu.Lock()
						unexpected = append(unexpected, "debit: "+err.Error())
						mu.Unlock()
					}
				default:
					call := clock.Add(1)
					bal, err := rhp.RPCAccountBalance(ctxBG(), cl, acct)
					if err != nil {
						mu.Lock()
						unexpected = append(unexpected, "balance: "+err.Error())
						mu.Unlock()
						continue
					}
					record(i, bankIn{Op: bankBalance, Acc: a}, call, bankOut{Bal: bal})
				}
			}
		}(i)
	}
	close(start)
	wg.Wait()
	if err := c.quiesce(); err != nil {
		return err
	}
	// the balances at the barrier are part of the history
	for a := 0; a < naccounts; a++ {
		call := clock.Add(1)
		bal, _ := c.lab.Contractor.AccountBalance(c.acct(a))
		record(-1, bankIn{Op: bankBalance, Acc: a}, call, bankOut{Bal: bal})
	}
	r.Eval()
	r.Count("porcupine_operations", len(history))
	if len(unexpected) > 0 {
		r.Inconclusive(fmt.Sprintf("C15 concurrent x%d: %d operations ended with an error that is neither success nor insufficient funds, e.g. %s", k, len(unexpected), unexpected[0]))
		return nil
	}
	// credits are still checked against their revisions
	c.cur = &c15Step{Op: fmt.Sprintf("concurrent x%d", k)}
	c.steps = []c15Step{*c.cur}
	// every successful debit is followed by its service call in the same RPC,
	// and no service call happens without one
	paidAt := map[uint64]bool{}
	servedAt := map[uint64]bool{}
	for _, ev := range c.lab.Log.Since(c.aud.seq) {
		switch ev.Kind {
		case rhplab.EvDebit:
			if ev.Err == "" {
				paidAt[ev.Stream] = true
			}
		case rhplab.EvReadSector, rhplab.EvStoreSector:
			servedAt[ev.Stream] = true
			if !paidAt[ev.Stream] {
				c.report("service-before-payment:"+ev.Kind, "a sector was read or stored without a preceding successful debit in the same RPC (concurrent)", nil)
			}
		}
	}
	for id := range paidAt {
		if !servedAt[id] {
			c.report("paid-but-not-served:concurrent", "an account was debited but the sector operation was not carried out in that RPC (concurrent)", nil)
			break
		}
	}
	r.Count("concurrent_debit_service_pairs", len(servedAt))
	c.aud.audit()
	for _, part := range bankModel.Partition(history) {
		m := bankModel
		m.Partition = nil
		res, info := porcupine.CheckOperationsVerbose(m, part, 60*time.Second)
		acc := part[0].Input.(bankIn).Acc
		switch res {
		case porcupine.Ok:
			r.Count("porcupine_partitions_ok", 1)
			r.Distinct(fmt.Sprintf("bank:x%d:a%d:%d", k, acc, len(part)))
		case porcupine.Unknown:
			r.Inconclusive(fmt.Sprintf("porcupine timed out on account %d (%d operations)", acc, len(part)))
		default:
			_ = info
			var ops []bankOp
			for _, op := range part {
				ops = append(ops, bankOp{Client: op.ClientId, Desc: bankModel.DescribeOperation(op.Input, op.Output), Call: op.Call, Return: op.Return})
			}
			r.Violation("bank-history-not-linearizable", fmt.Sprintf("the recorded credit/debit/balance history of one account (%d clients) has no sequential explanation", k), map[string]any{"clients": k, "account": acc, "history": ops}, nil)
		}
	}
	return nil
}
