package rhphost

import (
	"bytes"
	"errors"
	"fmt"
	"io"
	"sync"
	"sync/atomic"
	"time"

	"github.com/anishathalye/porcupine"
	proto4 "go.sia.tech/core/rhp/v4"
	"go.sia.tech/core/types"
	rhp "go.sia.tech/coreutils/rhp/v4"

	"verif/harness/lab/rhplab"
	"verif/harness/mon"
)

const (
	bankCredit = iota
	bankDebit
	bankBalance
)

type bankIn struct {
	Op  int
	Acc int
	Amt types.Currency
}

type bankOut struct {
	OK  bool           // debit: sufficient
	Bal types.Currency // credit: balance after; balance: balance
}

// bankModel is the sequential specification of one account without pools.
var bankModel = porcupine.Model{
	Partition: func(history []porcupine.Operation) [][]porcupine.Operation {
		m := map[int][]porcupine.Operation{}
		for _, op := range history {
			a := op.Input.(bankIn).Acc
			m[a] = append(m[a], op)
		}
		var out [][]porcupine.Operation
		for _, ops := range m {
			out = append(out, ops)
		}
		return out
	},
	Init: func() interface{} { return types.ZeroCurrency },
	Step: func(state, input, output interface{}) (bool, interface{}) {
		bal, in, out := state.(types.Currency), input.(bankIn), output.(bankOut)
		switch in.Op {
		case bankCredit:
			nb := bal.Add(in.Amt)
			return out.Bal.Equals(nb), nb
		case bankDebit:
			if bal.Cmp(in.Amt) < 0 {
				return !out.OK, bal
			}
			return out.OK, bal.Sub(in.Amt)
		default:
			return out.Bal.Equals(bal), bal
		}
	},
	DescribeOperation: func(input, output interface{}) string {
		in, out := input.(bankIn), output.(bankOut)
		switch in.Op {
		case bankCredit:
			return fmt.Sprintf("credit(a%d,%v)->%v", in.Acc, in.Amt.ExactString(), out.Bal.ExactString())
		case bankDebit:
			return fmt.Sprintf("debit(a%d,%v)->%v", in.Acc, in.Amt.ExactString(), out.OK)
		}
		return fmt.Sprintf("balance(a%d)->%v", in.Acc, out.Bal.ExactString())
	},
}

type bankOp struct {
	Client int    `json:"client"`
	Desc   string `json:"op"`
	Call   int64  `json:"call"`
	Return int64  `json:"return"`
}

// c15Concurrent lets k clients, each on its own contract, credit, debit and
// query a few shared accounts whose balances hover around the debit costs, and
// checks every account's recorded history for linearizability against the
// sequential bank model.
func c15Concurrent(r *mon.Run, k int) error {
	c, err := newC15(r, uint64(200+k), k)
	if err != nil {
		return err
	}
	defer c.close()
	defer func() { r.Count("handler_panics_recovered", c.lab.HostPanics()) }()
	const naccounts = 3
	c.acct(naccounts - 1)
	perClient := r.Pick(60, 300)
	readCost := c.prices.RPCReadSectorCost(64).RenterCost()
	verifyCost := c.prices.RPCVerifySectorCost().RenterCost()
	one := types.NewCurrency64(1)

	var clock atomic.Int64
	var mu sync.Mutex
	var history []porcupine.Operation
	var unexpected []string
	record := func(client int, in bankIn, call int64, out bankOut) {
		ret := clock.Add(1)
		mu.Lock()
		history = append(history, porcupine.Operation{ClientId: client, Input: in, Call: call, Output: out, Return: ret})
		mu.Unlock()
	}
	var wg sync.WaitGroup
	start := make(chan struct{})
	for i := 0; i < k; i++ {
		wg.Add(1)
		go func(i int) {
			defer wg.Done()
			<-start
			rng := r.RNG(0x15C000 + uint64(k)*64 + uint64(i))
			cl := c.lab.Mux.NewClient()
			contract := c.contracts[i]
			for j := 0; j < perClient; j++ {
				a := rng.IntN(naccounts)
				acct := c.acct(a)
				switch v := rng.IntN(10); {
				case v < 3: // credit an amount at / near a cost
					amt := []types.Currency{readCost, readCost.Sub(one), readCost.Add(one), verifyCost, verifyCost.Sub(one), one, readCost.Mul64(2)}[rng.IntN(7)]
					call := clock.Add(1)
					res, err := rhp.RPCFundAccounts(ctxBG(), cl, c.cs, c.signer(), contract, []proto4.AccountDeposit{{Account: acct, Amount: amt}})
					// the host releases the contract lock only after answering: wait
					// for this client's own handler before its next RPC
					if werr := cl.WaitLast(rhplab.Watchdog); werr != nil {
						mu.Lock()
						unexpected = append(unexpected, "handler barrier: "+werr.Error())
						mu.Unlock()
						return
					}
					if err != nil {
						mu.Lock()
						unexpected = append(unexpected, "fund: "+err.Error())
						mu.Unlock()
						continue
					}
					contract.Revision = res.Revision
					record(i, bankIn{Op: bankCredit, Acc: a, Amt: amt}, call, bankOut{Bal: res.Balances[0].Balance})
				case v < 8: // debit
					tok := proto4.NewAccountToken(c.accKeys[a], c.lab.HostKey.PublicKey())
					tok.ValidUntil = time.Now().Add(3 * time.Hour)
					tok.Signature = c.accKeys[a].SignHash(tok.SigHash())
					cost := readCost
					call := clock.Add(1)
					var err error
					if rng.IntN(4) == 0 {
						cost = verifyCost
						_, err = rhp.RPCVerifySector(ctxBG(), cl, c.prices, tok, c.stored[0].Root)
					} else {
						var buf bytes.Buffer
						_, err = rhp.RPCReadSector(ctxBG(), cl, c.prices, tok, &buf, c.stored[1].Root, 0, 64)
					}
					switch {
					case err == nil:
						record(i, bankIn{Op: bankDebit, Acc: a, Amt: cost}, call, bankOut{OK: true})
					case errors.Is(err, proto4.ErrNotEnoughFunds):
						record(i, bankIn{Op: bankDebit, Acc: a, Amt: cost}, call, bankOut{OK: false})
					default:
						mu.Lock()
						unexpected = append(unexpected, "debit: "+err.Error())
						mu.Unlock()
					}
				default:
					call := clock.Add(1)
					bal, err := rhp.RPCAccountBalance(ctxBG(), cl, acct)
					if err != nil {
						mu.Lock()
						unexpected = append(unexpected, "balance: "+err.Error())
						mu.Unlock()
						continue
					}
					record(i, bankIn{Op: bankBalance, Acc: a}, call, bankOut{Bal: bal})
				}
			}
		}(i)
	}
	close(start)
	wg.Wait()
	if err := c.quiesce(); err != nil {
		return err
	}
	// the balances at the barrier are part of the history
	for a := 0; a < naccounts; a++ {
		call := clock.Add(1)
		bal, _ := c.lab.Contractor.AccountBalance(c.acct(a))
		record(-1, bankIn{Op: bankBalance, Acc: a}, call, bankOut{Bal: bal})
	}
	r.Eval()
	r.Count("porcupine_operations", len(history))
	if len(unexpected) > 0 {
		r.Inconclusive(fmt.Sprintf("C15 concurrent x%d: %d operations ended with an error that is neither success nor insufficient funds, e.g. %s", k, len(unexpected), unexpected[0]))
		return nil
	}
	// credits are still checked against their revisions
	c.cur = &c15Step{Op: fmt.Sprintf("concurrent x%d", k)}
	c.steps = []c15Step{*c.cur}
	// every successful debit is followed by its service call in the same RPC,
	// and no service call happens without one
	paidAt := map[uint64]bool{}
	servedAt := map[uint64]bool{}
	for _, ev := range c.lab.Log.Since(c.aud.seq) {
		switch ev.Kind {
		case rhplab.EvDebit:
			if ev.Err == "" {
				paidAt[ev.Stream] = true
			}
		case rhplab.EvReadSector, rhplab.EvStoreSector:
			servedAt[ev.Stream] = true
			if !paidAt[ev.Stream] {
				c.report("service-before-payment:"+ev.Kind, "a sector was read or stored without a preceding successful debit in the same RPC (concurrent)", nil)
			}
		}
	}
	for id := range paidAt {
		if !servedAt[id] {
			c.report("paid-but-not-served:concurrent", "an account was debited but the sector operation was not carried out in that RPC (concurrent)", nil)
			break
		}
	}
	r.Count("concurrent_debit_service_pairs", len(servedAt))
	c.aud.audit()
	for _, part := range bankModel.Partition(history) {
		m := bankModel
		m.Partition = nil
		res, info := porcupine.CheckOperationsVerbose(m, part, 60*time.Second)
		acc := part[0].Input.(bankIn).Acc
		switch res {
		case porcupine.Ok:
			r.Count("porcupine_partitions_ok", 1)
			r.Distinct(fmt.Sprintf("bank:x%d:a%d:%d", k, acc, len(part)))
		case porcupine.Unknown:
			r.Undecided(fmt.Sprintf("porcupine timed out on account %d (%d operations)", acc, len(part)))
		default:
			_ = info
			var ops []bankOp
			for _, op := range part {
				ops = append(ops, bankOp{Client: op.ClientId, Desc: bankModel.DescribeOperation(op.Input, op.Output), Call: op.Call, Return: op.Return})
			}
			r.Violation("bank-history-not-linearizable", fmt.Sprintf("the recorded credit/debit/balance history of one account (%d clients) has no sequential explanation", k), map[string]any{"clients": k, "account": acc, "history": ops}, nil)
		}
	}
	return nil
}

// c15Contention: n clients are released behind a barrier onto ONE account (or
// onto n accounts drawing on one shared pool) that was credited exactly k
// times the price of the RPC they all issue, k < n. A debit is atomic - check
// and take under one lock - so exactly k of them are served, every successful
// debit is the full price, and the balance ends at zero. The handlers are
// additionally lined up right before DebitAccount by a rendezvous in the
// recording proxy, so that the debits really start together.
func c15Contention(r *mon.Run, worker int, rounds int) error {
	c, err := newC15(r, uint64(500+worker), 1)
	if err != nil {
		return err
	}
	defer c.close()
	defer func() { r.Count("handler_panics_recovered", c.lab.HostPanics()) }()
	rng := r.RNG(0x15E000 + uint64(worker))
	c.steps = nil

	// rendezvous of the handlers at the proxy's DebitAccount
	var rmu sync.Mutex
	var waiting, expect int
	var gate chan struct{}
	var holdStore bool
	crowd := make([]proto4.Account, 150_000)
	for i := range crowd {
		crowd[i][0], crowd[i][1], crowd[i][2], crowd[i][31] = byte(i), byte(i>>8), byte(i>>16), 0xcc
	}
	arm := func(n int) {
		rmu.Lock()
		waiting, expect, gate = 0, n, make(chan struct{})
		rmu.Unlock()
	}
	perturb := func(kind string) {
		if kind != rhplab.EvDebit {
			return
		}
		rmu.Lock()
		g := gate
		if g == nil {
			rmu.Unlock()
			return
		}
		waiting++
		if waiting >= expect {
			gate = nil
			hold := holdStore
			rmu.Unlock()
			if hold {
				// keep the Contractor's own lock busy for a few milliseconds while the
				// handlers are let go: they all queue on it, and a mutex whose waiters
				// have waited that long hands over strictly first-come-first-served,
				// so every caller's first critical section runs before anyone's second
				started := make(chan struct{})
				go func() {
					close(started)
					c.lab.Contractor.AccountBalances(crowd)
				}()
				<-started
				time.Sleep(300 * time.Microsecond)
			}
			close(g)
			return
		}
		rmu.Unlock()
		select {
		case <-g:
		case <-time.After(200 * time.Millisecond): // stragglers never decide anything
		}
	}
	c.lab.Log.Perturb.Store(&perturb)
	defer c.lab.Log.Perturb.Store(nil)

	// an account with a long list of attached, practically empty pools: every
	// debit on it walks the whole list twice (affordability, then taking), which
	// makes the Contractor's critical sections long enough to overlap
	const deepPools = 2000
	deepAcc := len(c.accKeys)
	c.acct(deepAcc)
	tiny0 := len(c.poolKeys)
	c.pool(tiny0 + deepPools - 1)
	var tiny []proto4.Account
	for i := 0; i < deepPools; i++ {
		tiny = append(tiny, c.pool(tiny0+i))
	}
	for off := 0; off < deepPools; off += 1000 {
		hs0, err := c.lab.State(c.contracts[0].ID)
		if err != nil {
			return inconclusive("contract state: %v", err)
		}
		c.contracts[0].Revision = hs0.Revision
		if _, err := rhp.RPCReplenishPools(ctxBG(), c.cl, rhp.RPCReplenishPoolsParams{Pools: tiny[off : off+1000], Target: types.NewCurrency64(1), Contract: c.contracts[0]}, c.cs, c.signer()); err != nil {
			return inconclusive("replenish tiny pools: %v", err)
		}
		if err := c.quiesce(); err != nil {
			return err
		}
		var inputs []rhp.PoolAttachInput
		for i := off; i < off+1000; i++ {
			inputs = append(inputs, rhp.PoolAttachInput{Account: c.acct(deepAcc), PoolKey: c.poolKeys[tiny0+i]})
		}
		if err := rhp.RPCAttachPools(ctxBG(), c.cl, inputs, 3*time.Hour); err != nil {
			return inconclusive("attach tiny pools: %v", err)
		}
		if err := c.quiesce(); err != nil {
			return err
		}
	}
	sumTiny := func() (sum types.Currency) {
		bs, _ := c.lab.Contractor.PoolBalances(tiny)
		for _, b := range bs {
			sum = sum.Add(b)
		}
		return
	}

	type roundCase struct {
		Round   int    `json:"round"`
		Op      string `json:"op"`
		Shared  string `json:"shared"` // account | pool
		Callers int    `json:"callers"`
		Funded  int    `json:"funded_for"`
	}
	for round := 0; round < rounds; round++ {
		n := 4 + rng.IntN(5)
		k := rng.IntN(n) // funds for fewer debits than callers (0 .. n-1)
		if round%7 == 0 {
			k = 1
		}
		op := c.debitOps()[[]int{0, 0, 0, 0, 2, 3, 1}[rng.IntN(7)]]
		price := c.costOf(op)
		funds := price.Mul64(uint64(k))
		if rng.IntN(4) == 0 && k > 0 {
			funds = funds.Add(price.Sub(types.NewCurrency64(1))) // ... and almost one more
		}
		shared := []string{"account", "pool", "deep", "deep"}[rng.IntN(4)]
		rc := roundCase{Round: round, Op: op.Op, Shared: shared, Callers: n, Funded: k}
		c.cur = &c15Step{Op: fmt.Sprintf("contention %+v", rc)}
		c.steps = []c15Step{*c.cur}

		// fresh account(s) / pool, funded exactly
		base := len(c.accKeys)
		accs := make([]int, n)
		for i := range accs {
			switch shared {
			case "pool":
				accs[i] = base + i
			case "deep":
				accs[i] = deepAcc
			default:
				accs[i] = base
			}
		}
		roundPool := -1
		c.acct(base + n)
		var poolAcc proto4.Account
		hs0, err := c.lab.State(c.contracts[0].ID)
		if err != nil {
			return inconclusive("contract state: %v", err)
		}
		c.contracts[0].Revision = hs0.Revision
		if shared == "account" {
			if !funds.IsZero() {
				if _, err := rhp.RPCFundAccounts(ctxBG(), c.cl, c.cs, c.signer(), c.contracts[0], []proto4.AccountDeposit{{Account: c.acct(base), Amount: funds}}); err != nil {
					return inconclusive("fund: %v", err)
				}
			}
		} else {
			p := len(c.poolKeys)
			poolAcc = c.pool(p)
			target := funds
			if target.IsZero() {
				target = types.NewCurrency64(1) // a pool must exist to be attached
				funds = target
			}
			if _, err := rhp.RPCReplenishPools(ctxBG(), c.cl, rhp.RPCReplenishPoolsParams{Pools: []proto4.Account{poolAcc}, Target: target, Contract: c.contracts[0]}, c.cs, c.signer()); err != nil {
				return inconclusive("replenish pool: %v", err)
			}
			if err := c.quiesce(); err != nil {
				return err
			}
			var inputs []rhp.PoolAttachInput
			for _, a := range accs {
				inputs = append(inputs, rhp.PoolAttachInput{Account: c.acct(a), PoolKey: c.poolKeys[p]})
				if shared == "deep" {
					break // one account: the funded pool goes to the END of its long list
				}
			}
			if err := rhp.RPCAttachPools(ctxBG(), c.cl, inputs, 3*time.Hour); err != nil {
				return inconclusive("attach: %v", err)
			}
			if shared == "deep" {
				roundPool = p
				funds = funds.Add(sumTiny())
			}
		}
		if err := c.quiesce(); err != nil {
			return err
		}
		seq0 := c.lab.Log.Seq()

		// n callers behind a barrier
		rmu.Lock()
		holdStore = round%2 == 0
		rmu.Unlock()
		arm(n)
		var wg sync.WaitGroup
		start := make(chan struct{})
		errs := make([]error, n)
		for i := 0; i < n; i++ {
			wg.Add(1)
			go func(i int) {
				defer wg.Done()
				raw := c.lab.NewRaw()
				key := c.accKeys[accs[i]]
				tok := proto4.AccountToken{HostKey: c.lab.HostKey.PublicKey(), Account: proto4.Account(key.PublicKey()), ValidUntil: time.Now().Add(3 * time.Hour)}
				tok.Signature = key.SignHash(tok.SigHash())
				<-start
				switch op.Op {
				case "read":
					req := proto4.RPCReadSectorRequest{Prices: c.prices, Token: tok, Root: c.stored[op.Sector%len(c.stored)].Root, Offset: op.Offset, Length: op.Length}
					var resp proto4.RPCReadSectorResponse
					errs[i] = raw.RoundTrip(proto4.RPCReadSectorID, &req, &resp, nil, false, func(rd io.Reader) error {
						_, err := io.CopyN(io.Discard, rd, int64(resp.DataLength))
						return err
					})
				case "verify":
					req := proto4.RPCVerifySectorRequest{Prices: c.prices, Token: tok, Root: c.stored[op.Sector%len(c.stored)].Root, LeafIndex: uint64(i)}
					errs[i] = raw.RoundTrip(proto4.RPCVerifySectorID, &req, new(proto4.RPCVerifySectorResponse), nil, false, nil)
				default:
					data := make([]byte, op.Length)
					data[0] = byte(i)
					req := proto4.RPCWriteSectorRequest{Prices: c.prices, Token: tok, DataLength: op.Length}
					errs[i] = raw.RoundTrip(proto4.RPCWriteSectorID, &req, new(proto4.RPCWriteSectorResponse), data, false, nil)
				}
			}(i)
		}
		close(start)
		wg.Wait()
		arm(0)
		if err := c.quiesce(); err != nil {
			return err
		}
		r.Eval()
		r.Count("contention_rounds", 1)
		r.Distinct(fmt.Sprintf("contention:%s:%s:%d-of-%d", op.Op, shared, k, n))

		served, refused, other := 0, 0, 0
		for _, e := range errs {
			switch {
			case e == nil:
				served++
			case errors.Is(e, proto4.ErrNotEnoughFunds):
				refused++
			default:
				other++
			}
		}
		okDebits, services := 0, 0
		var debited types.Currency
		for _, ev := range c.lab.Log.Since(seq0) {
			switch ev.Kind {
			case rhplab.EvDebit:
				if ev.Err == "" {
					okDebits++
					debited = debited.Add(ev.Usage.RenterCost())
					if !ev.Usage.RenterCost().Equals(price) {
						c.report("debit-underpaid", fmt.Sprintf("a successful debit was recorded for %v H, the RPC is priced %v H", hs(ev.Usage.RenterCost()), hs(price)), map[string]any{"round": rc})
					}
				}
			case rhplab.EvReadSector, rhplab.EvStoreSector:
				services++
			}
		}
		var left types.Currency
		if shared == "account" {
			left, _ = c.lab.Contractor.AccountBalance(c.acct(base))
		} else {
			bs, _ := c.lab.Contractor.PoolBalances([]proto4.Account{poolAcc})
			left = bs[0]
			if shared == "deep" {
				left = left.Add(sumTiny())
			}
			for _, a := range accs {
				if b, _ := c.lab.Contractor.AccountBalance(c.acct(a)); !b.IsZero() {
					c.report("contended-balance-wrong", "an account that was never funded holds a balance after drawing on a shared pool", map[string]any{"round": rc})
				}
			}
		}
		want := funds.Div(price).Big().Uint64()
		if want > uint64(n) {
			want = uint64(n)
		}
		detail := map[string]any{"round": rc, "funds": hs(funds), "price": hs(price), "served": served, "refused_for_funds": refused, "other_errors": other,
			"successful_debits": okDebits, "service_calls": services, "balance_left": hs(left)}
		if other > 0 {
			r.Inconclusive(fmt.Sprintf("contention round %+v: %d RPCs ended with an unexpected error, e.g. %v", rc, other, firstOther(errs)))
			continue
		}
		switch {
		case uint64(served) > want || uint64(okDebits) > want || uint64(services) > want:
			c.report("served-more-than-funded:"+shared, fmt.Sprintf("%d RPCs were served (%d debits succeeded) on funds that pay for %d", served, okDebits, want), detail)
		case uint64(served) < want:
			c.report("contended-debit-refused-despite-funds:"+shared, fmt.Sprintf("only %d RPCs were served on funds that pay for %d", served, want), detail)
		default:
			r.Count("contention_rounds_exact", 1)
		}
		if expectLeft := funds.Sub(price.Mul64(min(want, uint64(served)))); uint64(served) <= want && !left.Equals(expectLeft) {
			c.report("contended-balance-wrong", fmt.Sprintf("balance left is %v H, expected funds - served x price = %v H", hs(left), hs(expectLeft)), detail)
		}
		if roundPool >= 0 {
			if err := rhp.RPCDetachPools(ctxBG(), c.cl, []rhp.PoolDetachInput{{Account: c.acct(deepAcc), Pool: c.pool(roundPool), Signer: c.accKeys[deepAcc]}}, 3*time.Hour); err != nil {
				return inconclusive("detach: %v", err)
			}
			if err := c.quiesce(); err != nil {
				return err
			}
			r.Count("contention_rounds_on_long_pool_list", 1)
		}
		if served > 0 {
			r.Count("contention_rpcs_served", served)
		}
		r.Count("contention_rpcs_refused", refused)
		c.lab.Mux.Forget(c.lab.Mux.Streams())
		c.lab.Log.Trim(c.lab.Log.Seq())
		c.aud.seq = c.lab.Log.Seq()
	}
	return nil
}

func firstOther(errs []error) error {
	for _, e := range errs {
		if e != nil && !errors.Is(e, proto4.ErrNotEnoughFunds) {
			return e
		}
	}
	return nil
}
