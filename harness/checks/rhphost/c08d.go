package rhphost

import (
	"fmt"
	"slices"
	"strings"

	"go.sia.tech/core/types"

	"verif/harness/lab/rhplab"
	"verif/harness/mon"
)

// chainStep: the chain confirms ANY earlier doubly signed revision of the
// contract (step "publish": Offset revisions behind the latest, Length blocks
// mined) or un-confirms what it confirmed (step "reorg": Length blocks
// replaced). The persisted revision only moves forward and only by RPCs: across
// chain events the host's latest revision number never decreases and the
// revision stays byte-equal.
func (c *c08) chainStep(st c08Step) error {
	if err := c.quiesce(); err != nil {
		return err
	}
	pre, err := c.snapshot()
	if err != nil {
		return inconclusive("pre-snapshot: %v", err)
	}
	id := c.contract.ID
	what := st.RPC
	// the contract this one was renewed from, if any: the host must keep it as it is
	var predID types.FileContractID
	var predPre rhplab.HostState
	hasPred := false
	if n := len(c.prev); n > 0 && c.prev[n-1].ID.V2RenewalID() == id {
		predID = c.prev[n-1].ID
		if ps, err := c.lab.State(predID); err == nil {
			predPre, hasPred = ps, true
		}
	}
	switch st.RPC {
	case "publish":
		onchain, err := c.lab.OnChainRevisionNumber(id)
		if err != nil {
			c.r.Count("publish_contract_not_on_chain", 1)
			return nil
		}
		var cands []types.V2FileContract
		for _, rv := range append(slices.Clone(c.oldRevs), pre.State.Revision) {
			if rv.RevisionNumber > onchain {
				cands = append(cands, rv)
			}
		}
		if len(cands) == 0 {
			c.r.Count("publish_nothing_newer_than_chain", 1)
			return nil
		}
		rv := cands[max(0, len(cands)-1-int(st.Offset))]
		pooled := false
		_, err = c.lab.BroadcastRevision(id, rv)
		if err != nil && strings.Contains(err.Error(), "not enough funds") {
			if merr := c.lab.Mine(types.VoidAddress, 1); merr != nil {
				return inconclusive("mine: %v", merr)
			}
			if onchain, _ = c.lab.OnChainRevisionNumber(id); rv.RevisionNumber <= onchain {
				return nil
			}
			_, err = c.lab.BroadcastRevision(id, rv)
		}
		if err != nil {
			if !strings.Contains(err.Error(), "conflicts with pool") {
				return inconclusive("broadcast revision %d: %v", rv.RevisionNumber, err)
			}
			pooled = true // a revision un-confirmed by a reorg is back in the pool: that one confirms
		}
		if err := c.lab.Mine(types.VoidAddress, max(1, int(st.Length))); err != nil {
			return inconclusive("mine: %v", err)
		}
		got, _ := c.lab.OnChainRevisionNumber(id)
		if !pooled && got != rv.RevisionNumber {
			return inconclusive("published revision %d did not confirm (chain has %d)", rv.RevisionNumber, got)
		}
		c.r.Count("revisions_confirmed_on_chain", 1)
		if got < pre.State.Revision.RevisionNumber {
			what = "publish-older"
			c.r.Count("older_revisions_confirmed_on_chain", 1)
			c.r.Distinct(fmt.Sprintf("publish-older:%d-behind", pre.State.Revision.RevisionNumber-got))
			for _, old := range c.oldRevs {
				if old.RevisionNumber == got {
					cp := old
					c.staleRev = &cp
				}
			}
		}
	case "reorg":
		depth := min(int(st.Length), int(c.lab.CM.Tip().Height-c.formedAt))
		if st.Offset == 1 {
			// also the block that confirmed the contract's creation (formation or renewal)
			depth = int(c.lab.CM.Tip().Height-c.formedAt) + 1
		}
		if depth <= 0 {
			return nil
		}
		before, berr := c.lab.OnChainRevisionNumber(id)
		if err := c.lab.Reorg(depth); err != nil {
			return inconclusive("reorg: %v", err)
		}
		c.r.Count("reorgs", 1)
		if _, _, ok := c.lab.Element(id); berr == nil && !ok {
			what = "reorg-unconfirming-creation"
			c.r.Count("reorgs_unconfirming_a_creation", 1)
			if len(c.prev) > 0 && c.prev[len(c.prev)-1].ID.V2RenewalID() == id {
				what = "reorg-unconfirming-renewal"
				c.r.Count("reorgs_unconfirming_a_renewal", 1)
			}
			c.r.Distinct(what)
		} else if after, _ := c.lab.OnChainRevisionNumber(id); after != before {
			what = "reorg-unconfirming-revision"
			c.r.Count("reorgs_unconfirming_a_revision", 1)
			c.r.Distinct(fmt.Sprintf("reorg:%d->%d", before, after))
		}
	}
	c.cs = c.lab.CM.TipState()
	c.aud.cs = c.cs
	post, err := c.snapshot()
	if err != nil {
		// the state was readable before the chain event and no RPC ran
		c.r.Eval()
		c.report("contract-lost-by-chain-event:"+what, "after a chain event the host no longer holds a contract it signed (latest revision and roots gone): "+err.Error(), nil,
			map[string]any{"event": what, "revision_number_before": pre.State.Revision.RevisionNumber})
		c.lab.Log.ForgetLock(id)
		return c.newContract()
	}
	c.r.Eval()
	c.aud.audit() // nothing may have been persisted
	detail := map[string]any{"event": what, "revision_number_before": pre.State.Revision.RevisionNumber, "revision_number_after": post.State.Revision.RevisionNumber,
		"renter_payout_before": pre.State.Revision.RenterOutput.Value, "renter_payout_after": post.State.Revision.RenterOutput.Value}
	switch {
	case post.State.Revision.RevisionNumber < pre.State.Revision.RevisionNumber:
		c.report("revision-number-went-back:"+what, "the host's latest revision number decreased without any RPC: the persisted revision only moves forward", nil, detail)
	case post.State.Revision != pre.State.Revision:
		c.report("chain-event-changed-revision:"+what, "a chain event changed the host's latest revision although no RPC committed", nil, detail)
	case !post.equal(pre):
		c.report("chain-event-changed-state:"+what, "a chain event changed "+fmt.Sprint(pre.diff(post)), nil, detail)
	default:
		c.r.Count("chain_events_changed_nothing", 1)
	}
	if hasPred {
		predPost, err := c.lab.State(predID)
		switch {
		case err != nil:
			c.report("renewed-away-contract-lost:"+what, "after a chain event the host no longer holds the contract that was renewed: "+err.Error(), nil, detail)
		case !predPost.Equal(predPre):
			c.report("renewed-away-contract-changed:"+what, fmt.Sprintf("a chain event changed the renewed-away contract (renewed %v -> %v, revisable %v -> %v)", predPre.Renewed, predPost.Renewed, predPre.Revisable, predPost.Revisable), nil, detail)
		default:
			c.r.Count("renewed_away_contracts_unchanged_by_chain_event", 1)
		}
	}
	if !post.State.Equal(pre.State) {
		return c.newContract()
	}
	c.afterChain = what
	return nil
}

// creationReorg: a longer fork reverts the block that confirmed the creation
// of the current contract (a formation, or a renewal / refresh); the creating
// transaction returns to the pool and is mined again later. The host still
// knows every contract it signed, with its latest revision, roots and flags:
// the renewal is served, the renewed-away contract stays refused.
func (c *c08) creationReorg(kind string) error {
	// always from a freshly formed contract (whose element the Contractor tracks correctly)
	if err := c.newContract(); err != nil {
		return err
	}
	if kind != "formation" {
		for _, st := range []c08Step{{RPC: "append", Batch: []string{"new", "new", "new"}}, {RPC: "free", Indices: []uint64{1}}, c.genGood(c.rng, "fund")} {
			if err := c.step(st); err != nil {
				return err
			}
		}
		before := len(c.prev)
		if err := c.step(c08Step{RPC: kind}); err != nil { // confirms the renewal and moves on to it
			return err
		}
		if len(c.prev) == before {
			return nil
		}
	}
	id := c.contract.ID
	for _, st := range []c08Step{c.genGood(c.rng, "fund"), {RPC: "append", Batch: []string{"new", "new"}}} {
		if err := c.step(st); err != nil {
			return err
		}
	}
	if err := c.step(c08Step{RPC: "reorg", Offset: 1}); err != nil {
		return err
	}
	if c.contract.ID != id {
		return nil // findings reported, contract replaced
	}
	// while its creation is unconfirmed the contract is served as before
	steps := []c08Step{c.genGood(c.rng, "fund"), {RPC: "latest"}, {RPC: "free", Indices: []uint64{0}}}
	if kind != "formation" {
		steps = append(steps, c08Step{RPC: "select", Offset: 1}, c08Step{RPC: "fund", Bad: "not-revisable", Accounts: []int{0}, Amounts: []uint64{5}},
			c08Step{RPC: "append", Bad: "not-revisable", Batch: []string{"new"}}, c08Step{RPC: "select"})
	}
	// the creation is mined again; then everything goes on, consensus oracle included
	steps = append(steps, c08Step{RPC: "mine", Length: 1}, c.genGood(c.rng, "fund"), c08Step{RPC: "roots", Offset: 0, Length: 1})
	for _, st := range steps {
		if err := c.step(st); err != nil {
			return err
		}
		if c.contract.ID != id && c.active == nil {
			return nil
		}
	}
	if _, _, ok := c.lab.Element(id); ok {
		c.r.Count("creations_confirmed_again_after_reorg", 1)
		c.formedAt = c.lab.CM.Tip().Height
		return nil
	}
	// the creating transaction did not make it back into a block: carry on elsewhere
	c.r.Count("creations_not_reconfirmed", 1)
	return c.newContract()
}

// c08Chain interleaves committed RPCs with blocks that confirm earlier
// revisions and reorgs that un-confirm them; after every chain event a
// well-formed RPC on the true latest revision must be served and one built on
// the stale (confirmed, older) revision must be refused.
func c08Chain(r *mon.Run, worker int) error {
	c, err := newC08(r, uint64(600+worker))
	if err != nil {
		return err
	}
	defer c.close()
	defer func() { r.Count("handler_panics_recovered", c.lab.HostPanics()) }()
	rng := c.rng
	if err := c.step(c08Step{RPC: "append", Batch: []string{"new", "new", "new"}}); err != nil {
		return err
	}
	rounds := r.Pick(45, 60)
	for round := 0; round < rounds; round++ {
		if round%4 == 1 {
			if err := c.creationReorg([]string{"formation", "renew", "refresh-partial", "refresh-full"}[(round/5+worker)%4]); err != nil {
				return err
			}
			continue
		}
		if c.lab.CM.Tip().Height+40 > c.contract.Revision.ProofHeight {
			if err := c.newContract(); err != nil {
				return err
			}
		}
		// move the contract forward off-chain: fund -> rev n+1, fund -> n+2, append -> n+3 ...
		for j := 0; j < 2+rng.IntN(3); j++ {
			if err := c.step(c.genGood(rng, c.pickRPC(rng))); err != nil {
				return err
			}
		}
		var ev c08Step
		switch v := rng.IntN(10); {
		case v < 6:
			ev = c08Step{RPC: "publish", Offset: 1 + rng.Uint64N(3), Length: 1 + rng.Uint64N(2)}
		case v < 7:
			ev = c08Step{RPC: "publish", Offset: 0, Length: 1}
		default:
			ev = c08Step{RPC: "reorg", Length: 1 + rng.Uint64N(3)}
		}
		id := c.contract.ID
		if err := c.step(ev); err != nil {
			return err
		}
		if c.contract.ID != id || c.afterChain == "" {
			continue
		}
		// served from the true latest revision ...
		if err := c.step(c.genGood(rng, []string{"fund", "append", "roots", "replenish-accounts"}[rng.IntN(4)])); err != nil {
			return err
		}
		// ... refused from the stale one
		if c.staleRev != nil && c.contract.ID == id {
			st := c.genGood(rng, []string{"fund", "append", "fund", "free"}[rng.IntN(4)])
			if st.RPC == "append" && rng.IntN(2) == 0 {
				st = c08Step{RPC: "fund", Accounts: []int{0}, Amounts: []uint64{77}}
			}
			st.Bad = "built-on-stale-revision"
			before := c.r.Counter("bad_requests_changed_nothing")
			if err := c.step(st); err != nil {
				return err
			}
			if c.r.Counter("bad_requests_changed_nothing") > before {
				c.r.Count("stale_based_requests_refused", 1)
			}
		}
	}
	return nil
}
