package rhphost

import (
	"fmt"
	"slices"
	"strings"

	"go.sia.tech/core/types"

	"verif/harness/mon"
)

// chainStep: the chain confirms ANY earlier doubly signed revision of the
// contract (step "publish": Offset revisions behind the latest, Length blocks
// mined) or un-confirms what it confirmed (step "reorg": Length blocks
// replaced). The persisted revision only moves forward and only by RPCs: across
// chain events the host's latest revision number never decreases and the
// revision stays byte-equal.
func (c *c08) chainStep(st c08Step) error {
	if err := c.quiesce(); err != nil {
		return err
	}
	pre, err := c.snapshot()
	if err != nil {
		return inconclusive("pre-snapshot: %v", err)
	}
	id := c.contract.ID
	what := st.RPC
	switch st.RPC {
	case "publish":
		onchain, err := c.lab.OnChainRevisionNumber(id)
		if err != nil {
			return inconclusive("on-chain element: %v", err)
		}
		var cands []types.V2FileContract
		for _, rv := range append(slices.Clone(c.oldRevs), pre.State.Revision) {
			if rv.RevisionNumber > onchain {
				cands = append(cands, rv)
			}
		}
		if len(cands) == 0 {
			c.r.Count("publish_nothing_newer_than_chain", 1)
			return nil
		}
		rv := cands[max(0, len(cands)-1-int(st.Offset))]
		pooled := false
		_, err = c.lab.BroadcastRevision(id, rv)
		if err != nil && strings.Contains(err.Error(), "not enough funds") {
			if merr := c.lab.Mine(types.VoidAddress, 1); merr != nil {
				return inconclusive("mine: %v", merr)
			}
			if onchain, _ = c.lab.OnChainRevisionNumber(id); rv.RevisionNumber <= onchain {
				return nil
			}
			_, err = c.lab.BroadcastRevision(id, rv)
		}
		if err != nil {
			if !strings.Contains(err.Error(), "conflicts with pool") {
				return inconclusive("broadcast revision %d: %v", rv.RevisionNumber, err)
			}
			pooled = true // a revision un-confirmed by a reorg is back in the pool: that one confirms
		}
		if err := c.lab.Mine(types.VoidAddress, max(1, int(st.Length))); err != nil {
			return inconclusive("mine: %v", err)
		}
		got, _ := c.lab.OnChainRevisionNumber(id)
		if !pooled && got != rv.RevisionNumber {
			return inconclusive("published revision %d did not confirm (chain has %d)", rv.RevisionNumber, got)
		}
		c.r.Count("revisions_confirmed_on_chain", 1)
		if got < pre.State.Revision.RevisionNumber {
			what = "publish-older"
			c.r.Count("older_revisions_confirmed_on_chain", 1)
			c.r.Distinct(fmt.Sprintf("publish-older:%d-behind", pre.State.Revision.RevisionNumber-got))
			for _, old := range c.oldRevs {
				if old.RevisionNumber == got {
					cp := old
					c.staleRev = &cp
				}
			}
		}
	case "reorg":
		depth := min(int(st.Length), int(c.lab.CM.Tip().Height-c.formedAt))
		if depth <= 0 {
			return nil
		}
		before, _ := c.lab.OnChainRevisionNumber(id)
		if err := c.lab.Reorg(depth); err != nil {
			return inconclusive("reorg: %v", err)
		}
		c.r.Count("reorgs", 1)
		if after, _ := c.lab.OnChainRevisionNumber(id); after != before {
			what = "reorg-unconfirming-revision"
			c.r.Count("reorgs_unconfirming_a_revision", 1)
			c.r.Distinct(fmt.Sprintf("reorg:%d->%d", before, after))
		}
	}
	c.cs = c.lab.CM.TipState()
	c.aud.cs = c.cs
	post, err := c.snapshot()
	if err != nil {
		return inconclusive("post-snapshot: %v", err)
	}
	c.r.Eval()
	c.aud.audit() // nothing may have been persisted
	detail := map[string]any{"event": what, "revision_number_before": pre.State.Revision.RevisionNumber, "revision_number_after": post.State.Revision.RevisionNumber,
		"renter_payout_before": pre.State.Revision.RenterOutput.Value, "renter_payout_after": post.State.Revision.RenterOutput.Value}
	switch {
	case post.State.Revision.RevisionNumber < pre.State.Revision.RevisionNumber:
		c.report("revision-number-went-back:"+what, "the host's latest revision number decreased without any RPC: the persisted revision only moves forward", nil, detail)
	case post.State.Revision != pre.State.Revision:
		c.report("chain-event-changed-revision:"+what, "a chain event changed the host's latest revision although no RPC committed", nil, detail)
	case !post.equal(pre):
		c.report("chain-event-changed-state:"+what, "a chain event changed "+fmt.Sprint(pre.diff(post)), nil, detail)
	default:
		c.r.Count("chain_events_changed_nothing", 1)
	}
	if !post.State.Equal(pre.State) {
		return c.newContract()
	}
	c.afterChain = what
	return nil
}

// c08Chain interleaves committed RPCs with blocks that confirm earlier
// revisions and reorgs that un-confirm them; after every chain event a
// well-formed RPC on the true latest revision must be served and one built on
// the stale (confirmed, older) revision must be refused.
func c08Chain(r *mon.Run, worker int) error {
	c, err := newC08(r, uint64(600+worker))
	if err != nil {
		return err
	}
	defer c.close()
	defer func() { r.Count("handler_panics_recovered", c.lab.HostPanics()) }()
	rng := c.rng
	if err := c.step(c08Step{RPC: "append", Batch: []string{"new", "new", "new"}}); err != nil {
		return err
	}
	rounds := r.Pick(45, 130)
	for round := 0; round < rounds; round++ {
		if c.lab.CM.Tip().Height+40 > c.contract.Revision.ProofHeight {
			if err := c.newContract(); err != nil {
				return err
			}
		}
		// move the contract forward off-chain: fund -> rev n+1, fund -> n+2, append -> n+3 ...
		for j := 0; j < 2+rng.IntN(3); j++ {
			if err := c.step(c.genGood(rng, c.pickRPC(rng))); err != nil {
				return err
			}
		}
		var ev c08Step
		switch v := rng.IntN(10); {
		case v < 6:
			ev = c08Step{RPC: "publish", Offset: 1 + rng.Uint64N(3), Length: 1 + rng.Uint64N(2)}
		case v < 7:
			ev = c08Step{RPC: "publish", Offset: 0, Length: 1}
		default:
			ev = c08Step{RPC: "reorg", Length: 1 + rng.Uint64N(3)}
		}
		id := c.contract.ID
		if err := c.step(ev); err != nil {
			return err
		}
		if c.contract.ID != id || c.afterChain == "" {
			continue
		}
		// served from the true latest revision ...
		if err := c.step(c.genGood(rng, []string{"fund", "append", "roots", "replenish-accounts"}[rng.IntN(4)])); err != nil {
			return err
		}
		// ... refused from the stale one
		if c.staleRev != nil && c.contract.ID == id {
			st := c.genGood(rng, []string{"fund", "append", "fund", "free"}[rng.IntN(4)])
			if st.RPC == "append" && rng.IntN(2) == 0 {
				st = c08Step{RPC: "fund", Accounts: []int{0}, Amounts: []uint64{77}}
			}
			st.Bad = "built-on-stale-revision"
			before := c.r.Counter("bad_requests_changed_nothing")
			if err := c.step(st); err != nil {
				return err
			}
			if c.r.Counter("bad_requests_changed_nothing") > before {
				c.r.Count("stale_based_requests_refused", 1)
			}
		}
	}
	return nil
}
