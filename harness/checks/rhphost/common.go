// Package rhphost holds the host-side RHP4 monitors: C09 (sector-root state),
// C08 (committed revisions) and C15 (account / pool ledger).
package rhphost

import (
	"context"
	"errors"
	"fmt"
	"slices"
	"strings"

	"go.sia.tech/core/consensus"
	proto4 "go.sia.tech/core/rhp/v4"
	"go.sia.tech/core/types"
	rhp "go.sia.tech/coreutils/rhp/v4"

	"verif/harness/lab/rhplab"
	"verif/harness/mon"
)

// errInconclusive marks harness-side trouble (watchdogs, setup failures) that
// must never be folded into a verdict.
type errInconclusive struct{ msg string }

func (e errInconclusive) Error() string { return e.msg }

func inconclusive(format string, a ...any) error {
	return errInconclusive{fmt.Sprintf(format, a...)}
}

// guardRun runs fn and turns harness-side failures into INCONCLUSIVE.
func guardRun(r *mon.Run, what string, fn func() error) {
	var err error
	if p := mon.Guard(func() { err = fn() }); p != nil {
		r.Inconclusive(fmt.Sprintf("%s: harness panic: %v", what, p))
		return
	}
	if err != nil {
		r.Inconclusive(fmt.Sprintf("%s: %v", what, err))
	}
}

// snap is everything the host holds that an RPC attempt on one contract may
// touch: contract state plus the balances of the tracked accounts and pools.
type snap struct {
	State rhplab.HostState `json:"state"`
	Acc   []types.Currency `json:"accounts"`
	Pool  []types.Currency `json:"pools"`
}

func (a snap) equal(b snap) bool {
	return a.State.Equal(b.State) && slices.Equal(a.Acc, b.Acc) && slices.Equal(a.Pool, b.Pool)
}

// diff names what differs between two snapshots.
func (a snap) diff(b snap) []string {
	var d []string
	if !slices.Equal(a.State.Roots, b.State.Roots) {
		d = append(d, "roots")
	}
	if a.State.Revision != b.State.Revision {
		d = append(d, "revision")
	}
	if !slices.Equal(a.Acc, b.Acc) || !slices.Equal(a.Pool, b.Pool) {
		d = append(d, "balances")
	}
	if a.State.Revisable != b.State.Revisable || a.State.Renewed != b.State.Renewed {
		d = append(d, "flags")
	}
	return d
}

// env is one lab plus the renter-side bookkeeping shared by the monitors.
type env struct {
	r   *mon.Run
	lab *rhplab.Lab
	cl  *rhplab.Client
	raw *rhplab.Raw
	cs  consensus.State

	prices   proto4.HostPrices
	contract rhp.ContractRevision // renter's view of the latest revision

	accounts []proto4.Account // tracked for balance snapshots
	pools    []proto4.Account
}

type envOptions struct {
	seed       uint64
	prices     proto4.HostPrices
	allowance  types.Currency
	collateral types.Currency
	duration   uint64
}

func newEnv(r *mon.Run, o envOptions) (*env, error) {
	lab, err := rhplab.New(rhplab.Options{Seed: o.seed, Prices: o.prices})
	if err != nil {
		return nil, inconclusive("lab setup: %v", err)
	}
	e := &env{r: r, lab: lab, cl: lab.Mux.NewClient(), raw: lab.NewRaw()}
	e.cs = lab.CM.TipState()
	if e.prices, err = lab.HostPrices(e.cl); err != nil {
		lab.Close()
		return nil, inconclusive("RPCSettings: %v", err)
	}
	return e, nil
}

func (e *env) close() { e.lab.Close() }

// formContract forms a fresh contract, mines it and makes it the current one.
func (e *env) formContract(allowance, collateral types.Currency, duration uint64) error {
	c, err := e.lab.FormContract(e.cl, e.prices, allowance, collateral, duration)
	if err != nil {
		return inconclusive("form contract: %v", err)
	}
	if err := e.lab.Mine(types.VoidAddress, 1); err != nil {
		return inconclusive("mine formation: %v", err)
	}
	e.contract = c
	e.cs = e.lab.CM.TipState()
	return nil
}

func (e *env) quiesce() error {
	if err := e.lab.Quiesce(); err != nil {
		return inconclusive("handler quiescence barrier: %v", err)
	}
	return nil
}

// snapshot must be called at the quiescence barrier.
func (e *env) snapshot() (snap, error) {
	st, err := e.lab.State(e.contract.ID)
	if err != nil {
		return snap{}, fmt.Errorf("host state of %v not readable at the barrier: %w", e.contract.ID, err)
	}
	s := snap{State: st}
	s.Acc, s.Pool = e.lab.Balances(e.accounts, e.pools)
	return s, nil
}

// signer returns the honest contract signer.
func (e *env) signer() rhp.ContractSigner { return e.lab.Signer() }

func ctxBG() context.Context { return context.Background() }

// hostErr extracts the RPC error the host sent (nil for transport errors).
func hostErr(err error) *proto4.RPCError {
	var re *proto4.RPCError
	if errors.As(err, &re) && re.Code != proto4.ErrorCodeClientError {
		return re
	}
	return nil
}

func errText(err error) string {
	if err == nil {
		return ""
	}
	return err.Error()
}

// ---------------------------------------------------------------------------
// list model of sector roots

// modelFree applies the protocol's free actions (swap index i-th with the i-th
// slot from the end, in request order, then trim) to a copy of list. The
// indices must be distinct and in range.
func modelFree(list []types.Hash256, indices []uint64) []types.Hash256 {
	out := slices.Clone(list)
	for i, n := range indices {
		j := len(out) - 1 - i
		out[n], out[j] = out[j], out[n]
	}
	return out[:len(out)-len(indices)]
}

// validFree reports whether the host may accept the index list at all.
func validFree(n int, indices []uint64) bool {
	seen := map[uint64]bool{}
	for _, i := range indices {
		if i >= uint64(n) || seen[i] {
			return false
		}
		seen[i] = true
	}
	return true
}

// normalise is the honest client's contract: descending, no duplicates.
func normalise(indices []uint64) []uint64 {
	out := slices.Clone(indices)
	slices.Sort(out)
	out = slices.Compact(out)
	slices.Reverse(out)
	return out
}

func u64s(v ...int) []uint64 {
	out := make([]uint64, len(v))
	for i, x := range v {
		out[i] = uint64(x)
	}
	return out
}

func idxString(v []uint64) string {
	s := make([]string, len(v))
	for i, x := range v {
		s[i] = fmt.Sprint(x)
	}
	return "[" + strings.Join(s, ",") + "]"
}

// shortRoots renders roots compactly for witnesses.
func shortRoots(rs []types.Hash256) []string {
	out := make([]string, len(rs))
	for i, h := range rs {
		out[i] = fmt.Sprintf("%x", h[:4])
	}
	return out
}

// phaseOf names the point at which an abandoned stream died, from the host-side
// record alone (so the label is the same whether the renter stopped, the
// transport cut the stream, or the host gave up): the last message the host
// started to move and whether any byte of it moved.
//
//	request-cut         the request never arrived whole
//	before-host-msg-1   request read, first host message not delivered at all
//	during-host-msg-1   first host message delivered in part
//	after-host-msg-1    first host message delivered, nothing came back
//	during-renter-msg-2 renter's second message arrived in part
//	before-host-msg-2   renter's second message read, final message not delivered
//	during-host-msg-2   final host message delivered in part
func phaseOf(st *rhplab.Stream) string {
	if st == nil {
		return "no-stream"
	}
	l, n := st.Failure()
	if l < 0 {
		// no I/O failed: the host ended the exchange on its own
		return "host-ended"
	}
	some := n > 0
	switch {
	case l == 0:
		return "request-cut"
	case l == 1 && !some:
		return "before-host-msg-1"
	case l == 1:
		return "during-host-msg-1"
	case l == 2 && !some:
		return "after-host-msg-1"
	case l == 2:
		return "during-renter-msg-2"
	case l == 3 && !some:
		return "before-host-msg-2"
	case l == 3:
		return "during-host-msg-2"
	}
	return fmt.Sprintf("run-%d", l)
}
