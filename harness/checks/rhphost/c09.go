package rhphost

import (
	"bytes"
	"encoding/json"
	"errors"
	"fmt"
	"math"
	"math/rand/v2"
	"os"
	"slices"
	"sync"
	"time"

	proto4 "go.sia.tech/core/rhp/v4"
	"go.sia.tech/core/types"
	rhp "go.sia.tech/coreutils/rhp/v4"

	"verif/harness/lab/rhplab"
	"verif/harness/mon"
	"verif/harness/vcli"
)

func init() { vcli.Register("C09", "fault_enumeration", runC09) }

var debugAttempts = os.Getenv("VERIF_DEBUG") != ""

// c09Case is one RPC attempt against a contract of N sectors. It is the unit
// of enumeration, of witnesses and of replay.
type c09Case struct {
	Kind string `json:"kind"` // free | append | roots | fund | replenish | renew | refresh-full | refresh-partial | publish | reorg
	Via  string `json:"via"`  // raw | honest
	N    int    `json:"n"`    // contract size the attempt starts from (-1: whatever it is)

	Indices []uint64 `json:"indices,omitempty"` // free
	Batch   []string `json:"batch,omitempty"`   // append: new | dup | unk per position
	Offset  uint64   `json:"offset,omitempty"`  // roots
	Length  uint64   `json:"length,omitempty"`  // roots
	Pools   bool     `json:"pools,omitempty"`   // replenish pools instead of accounts
	Mixed   bool     `json:"mixed,omitempty"`   // replenish: one listed account is already above the target

	Cut     *rhplab.Cut `json:"cut,omitempty"`     // transport cut
	Variant string      `json:"variant,omitempty"` // renter misbehaviour, see c09Variants
	Drained bool        `json:"drained,omitempty"` // renter payout drained first: host must fail on payment
	List    string      `json:"list,omitempty"`    // after success: "" none | full | all ranges
	// publish: broadcast the doubly signed revision Back steps before the latest
	// one (among those newer than the on-chain one) and mine Depth blocks;
	// reorg: replace the last Depth blocks by a longer empty fork
	Back  int `json:"back,omitempty"`
	Depth int `json:"depth,omitempty"`
}

// renter-side misbehaviours of the raw client in multi-round RPCs
var c09Variants = []string{
	"noread",            // close after the request without reading
	"stop-after-resp1",  // read the host's first message, then close
	"r2-random",         // random bytes as signature
	"r2-wrongkey",       // honest revision signed by a foreign key
	"r2-other-revision", // valid renter signature over a revision with a different number
	"r2-other-root",     // valid renter signature over a revision with a different merkle root
}

// c09Seq is the witness / replay format: a fresh contract is brought to
// StartSize distinct sectors by honest appends, then the steps run in order.
type c09Seq struct {
	Part      string    `json:"part"`
	StartSize int       `json:"start_size"`
	Steps     []c09Case `json:"steps"`
}

// c09 is one worker: a lab, a contract, and the list model of its roots.
type c09 struct {
	*env
	part   string
	model  []types.Hash256
	stored []*rhplab.TestSector
	isStor map[types.Hash256]*rhplab.TestSector

	acctKey    types.PrivateKey
	acct       proto4.Account
	repl       []proto4.Account // replenish targets (accounts or pools share keys)
	readOK     map[types.Hash256]bool
	rng        *rand.Rand
	history    []c09Case              // attempts since the last case boundary (for witnesses)
	histStart  int                    // contract size at that boundary
	revs       []types.V2FileContract // doubly signed revisions of the current contract, oldest first
	formedAt   uint64                 // height at which the current contract was confirmed
	afterChain string                 // the running attempt follows this chain event
	renewals   int
	allIDs     []types.FileContractID // every contract this worker's host signed (renewed-away ones included)
	broken     bool                   // host state of the current contract is known to be corrupt
}

const c09Stored = 12

var (
	c09Allowance  = types.Siacoins(2000)
	c09Collateral = types.Siacoins(1000)
)

func newC09(r *mon.Run, part string, stream uint64) (*c09, error) {
	e, err := newEnv(r, envOptions{seed: uint64(r.Seed)*1000 + stream})
	if err != nil {
		return nil, err
	}
	c := &c09{env: e, part: part, isStor: map[types.Hash256]*rhplab.TestSector{}, readOK: map[types.Hash256]bool{}, rng: r.RNG(0x0900 + stream)}
	for i := 0; i < c09Stored; i++ {
		s := e.lab.StoreDirect(i)
		c.stored = append(c.stored, s)
		c.isStor[s.Root] = s
	}
	c.acctKey = rhplab.KeyFromSeed(uint64(r.Seed)*1000+stream, 9)
	c.acct = proto4.Account(c.acctKey.PublicKey())
	for i := 0; i < 3; i++ {
		c.repl = append(c.repl, proto4.Account(rhplab.KeyFromSeed(uint64(r.Seed)*1000+stream, byte(20+i)).PublicKey()))
	}
	e.accounts = append([]proto4.Account{c.acct}, c.repl...)
	e.pools = slices.Clone(c.repl)
	if err := c.freshContract(); err != nil {
		e.close()
		return nil, err
	}
	return c, nil
}

func (c *c09) freshContract() error {
	if err := c.formContract(c09Allowance, c09Collateral, 3000); err != nil {
		return err
	}
	c.model = nil
	c.history = nil
	c.broken = false
	c.revs, c.renewals, c.afterChain = nil, 0, ""
	c.formedAt = c.lab.CM.Tip().Height
	c.allIDs = []types.FileContractID{c.contract.ID}
	c.r.Count("contracts_formed", 1)
	return nil
}

// newRoot returns the lowest stored sector root that is not in the model.
func (c *c09) newRoots(k int) []types.Hash256 {
	var out []types.Hash256
	for _, s := range c.stored {
		if len(out) == k {
			break
		}
		if !slices.Contains(c.model, s.Root) && !slices.Contains(out, s.Root) {
			out = append(out, s.Root)
		}
	}
	return out
}

// ensureSize brings the contract to n distinct roots through honest RPCs
// (which are themselves judged attempts).
func (c *c09) ensureSize(n int) error {
	if c.broken {
		if err := c.freshContract(); err != nil {
			return err
		}
	}
	for tries := 0; len(c.model) != n; tries++ {
		if tries > 3 {
			return inconclusive("cannot bring contract to %d sectors (at %d)", n, len(c.model))
		}
		var step c09Case
		if len(c.model) > n {
			var idx []uint64
			for i := len(c.model) - 1; i >= n; i-- {
				idx = append(idx, uint64(i))
			}
			step = c09Case{Kind: "free", Via: "honest", N: -1, Indices: idx}
		} else {
			k := n - len(c.model)
			b := make([]string, k)
			for i := range b {
				b[i] = "new"
			}
			step = c09Case{Kind: "append", Via: "honest", N: -1, Batch: b}
		}
		if err := c.attempt(step, true); err != nil {
			return err
		}
		if c.broken {
			if err := c.freshContract(); err != nil {
				return err
			}
		}
	}
	return nil
}

// boundary starts a new witness history at the current contract size.
func (c *c09) boundary() {
	c.history = nil
	c.histStart = len(c.model)
}

// violation reports with the attempts made on this contract as the case.
func (c *c09) violation(sig, what string, cse c09Case, detail any) {
	c.r.Violation(sig, what, c09Seq{Part: c.part, StartSize: c.histStart, Steps: slices.Clone(c.history)}, map[string]any{"failing_step": cse, "detail": detail})
}

type c09Outcome struct {
	success  bool
	err      error
	revision *types.V2FileContract // what the renter holds after success
	honest   bool                  // the renter's revision signature, if sent, was the honest one
	tamper   string                // class of renter misbehaviour ("" none)
	listed   []types.Hash256       // roots RPC: what the host listed
}

// attempt executes one case against the current contract and judges it.
func (c *c09) attempt(cs c09Case, setup bool) error {
	if !setup && cs.N >= 0 {
		if err := c.ensureSize(cs.N); err != nil {
			return err
		}
		c.boundary()
	}
	switch cs.Kind {
	case "publish", "reorg":
		return c.chainStep(cs)
	case "renew", "refresh-full", "refresh-partial":
		return c.renewal(cs)
	}
	if cs.Drained {
		if err := c.drain(); err != nil {
			return err
		}
	}
	if err := c.quiesce(); err != nil {
		return err
	}
	pre, err := c.snapshot()
	if err != nil {
		return inconclusive("pre-snapshot: %v", err)
	}
	c.history = append(c.history, cs)
	c.cl.TakeStreams()
	c.raw.C.TakeStreams()
	if cs.Cut != nil {
		if cs.Via == "raw" {
			c.raw.C.CutNext(*cs.Cut)
		} else {
			c.cl.CutNext(*cs.Cut)
		}
	}
	seq0 := c.lab.Log.Seq()

	// expected list after a commit
	after := c.model
	var out c09Outcome
	switch cs.Kind {
	case "free":
		if validFree(len(c.model), effectiveIndices(cs)) {
			after = modelFree(c.model, effectiveIndices(cs))
		}
		out = c.doFree(cs)
	case "append":
		roots := c.batchRoots(cs.Batch)
		for _, h := range roots {
			if c.isStor[h] != nil {
				after = append(slices.Clone(after), h)
			}
		}
		out = c.doAppend(cs, roots)
	case "roots":
		out = c.doRoots(cs)
	case "fund":
		out = c.doFund(cs)
	case "replenish":
		out = c.doReplenish(cs, pre)
	default:
		return inconclusive("unknown case kind %q", cs.Kind)
	}
	if err := c.quiesce(); err != nil {
		return err
	}
	if held := c.lab.Log.HeldLocks(); len(held) > 0 {
		// every handler has returned: this lock is held for ever
		for id := range held {
			c.lab.Log.ForgetLock(id)
		}
		c.r.Eval()
		c.broken = true
		c.violation("contract-lock-left-held:"+cs.Kind, "a contract lock is still held although every handler has returned; the contract is unusable from now on", cs, map[string]any{"renter_error": errText(out.err)})
		return nil
	}
	post, err := c.snapshot()
	if err != nil {
		return inconclusive("post-snapshot: %v", err)
	}
	c.r.Eval()
	c.r.Count("attempts_"+cs.Kind, 1)

	// which stream carried it, how did it end
	ids := append(c.cl.TakeStreams(), c.raw.C.TakeStreams()...)
	var st *rhplab.Stream
	if len(ids) > 0 {
		st = c.lab.Mux.Stream(ids[len(ids)-1])
	}
	x, _ := rhplab.Parse(st)
	outcome := "success"
	if !out.success {
		switch {
		case cs.Drained:
			outcome = "insufficient-funds"
		case out.tamper != "":
			outcome = out.tamper
		case x != nil && x.HostError() != nil && (st == nil || !st.CutHit()):
			outcome = "host-rejects"
		default:
			outcome = phaseOf(st)
		}
	}
	persisted := 0
	for _, ev := range c.lab.Log.Since(seq0) {
		if ev.Persisting() && ev.Err == "" {
			persisted++
		}
	}

	if debugAttempts {
		b, _ := json.Marshal(cs)
		fmt.Printf("attempt %s -> %s err=%v persisted=%d\n", b, outcome, out.err, persisted)
	}

	// the mutual-exclusion monitor around the Contractor's lock
	for _, lv := range c.lab.Log.TakeLockViolations() {
		c.violation("contract-lock-granted-while-held:"+cs.Kind, "the Contractor granted the contract lock while another RPC still held it", cs, map[string]any{"violation": lv})
	}

	// (1) always: host roots hash to the committed root, count matches size
	if err := post.State.CheckRoots(); err != nil {
		c.broken = true
		what := "roots-vs-revision"
		if !out.success && !slices.Equal(post.State.Roots, pre.State.Roots) && post.State.Revision == pre.State.Revision {
			what = "roots-changed-after-abort"
		}
		c.violation(fmt.Sprintf("%s:%s:%s", what, cs.Kind, outcome),
			"host roots no longer match the committed revision: "+err.Error(), cs,
			map[string]any{"outcome": outcome, "renter_error": errText(out.err), "pre_roots": shortRoots(pre.State.Roots), "post_roots": shortRoots(post.State.Roots),
				"revision_changed": post.State.Revision != pre.State.Revision, "persisting_calls": persisted})
	}

	if out.success {
		c.r.Count("success_"+cs.Kind, 1)
		// (2) roots equal the list model
		if !slices.Equal(post.State.Roots, after) {
			c.broken = true
			c.violation("model-mismatch:"+cs.Kind, "after a successful RPC the host roots differ from the list model", cs,
				map[string]any{"model": shortRoots(after), "host": shortRoots(post.State.Roots), "before": shortRoots(pre.State.Roots)})
		}
		if out.revision != nil && *out.revision != post.State.Revision {
			c.violation("renter-revision-mismatch:"+cs.Kind, "the revision the renter holds after success is not the host's committed revision", cs,
				map[string]any{"renter": out.revision, "host": post.State.Revision})
		}
		if cs.Kind == "roots" && (cs.Offset+cs.Length > uint64(len(c.model)) || !slices.Equal(out.listed, c.model[cs.Offset:cs.Offset+cs.Length])) {
			c.violation("listing-mismatch", "listed roots differ from the model slice", cs,
				map[string]any{"listed": shortRoots(out.listed), "model": shortRoots(c.model)})
		}
		if (cs.Kind == "free" || cs.Kind == "append") && c.renewals > 0 {
			// a revision of the renewal must not disturb the contracts it was renewed from
			if n := c.auditAll(cs); n > 0 && cs.Kind == "free" {
				c.r.Count("renewed_away_contracts_audited_after_free_on_renewal", n)
			}
		}
		if cs.Kind == "append" {
			for i, h := range post.State.Roots {
				if ok, _ := c.lab.Sectors.HasSector(h); !ok {
					c.broken = true
					c.violation("contract-lists-unstored-sector", "after an append the contract lists a sector root the host does not store", cs,
						map[string]any{"position": i, "root": h, "host_roots": shortRoots(post.State.Roots)})
					break
				}
			}
			unk := map[string]int{}
			for _, b := range cs.Batch {
				if b == "unkA" || b == "unkB" {
					unk[b]++
				}
			}
			if unk["unkA"] > 1 || unk["unkB"] > 1 {
				c.r.Count("append_batches_with_repeated_unknown_roots", 1)
			}
			if n := len(cs.Batch); n > 1 && slices.Contains(cs.Batch, "same") {
				c.r.Count("append_batches_with_repeated_stored_root", 1)
			}
		}
		c.model = slices.Clone(post.State.Roots)
		if n := len(c.revs); n == 0 || c.revs[n-1].RevisionNumber < post.State.Revision.RevisionNumber {
			c.revs = append(c.revs, post.State.Revision)
		}
		if c.afterChain != "" {
			c.r.Count("rpcs_succeeded_after_chain_event", 1)
		}
		c.r.SetAdd("states", fmt.Sprintf("%d:%s", len(c.model), cs.Kind))
	} else {
		c.r.Count("failed_"+cs.Kind, 1)
		c.r.Count("abort_"+outcome, 1)
		if cs.Via == "honest" && cs.Cut == nil && !cs.Drained && cs.Variant == "" && c09WellFormed(cs, len(pre.State.Roots)) {
			// an honest, complete, well-formed request failed
			if cs.Kind == "roots" {
				why := "error"
				if errors.Is(out.err, rhp.ErrInvalidProof) {
					why = "proof-rejected"
				}
				c.violation("listing-failed:"+why, "a range of the contract cannot be listed with a proof the honest client accepts: "+errText(out.err), cs,
					map[string]any{"model": shortRoots(c.model), "host": shortRoots(post.State.Roots)})
			} else if c.afterChain != "" {
				c.broken = true
				c.violation("rpc-failed-after-chain-event:"+c.afterChain, "after the chain confirmed or reverted a revision of the contract, an honest well-formed "+cs.Kind+" fails: "+errText(out.err), cs,
					map[string]any{"host_revision": post.State.Revision.RevisionNumber, "host_roots": len(post.State.Roots)})
			} else {
				c.r.Count("unexpected_failures", 1)
				c.r.Inconclusive(fmt.Sprintf("honest well-formed %s failed: %v (case %+v)", cs.Kind, out.err, cs))
			}
		}
		c.r.SetAdd("abort_points", cs.Kind+":"+outcome)
		if !setup && (cs.Cut != nil || cs.Variant != "") && len(pre.State.Roots) >= 2 {
			c.r.Sample(map[string]any{"part": c.part, "case": cs, "outcome": outcome, "renter_error": errText(out.err), "state_unchanged": post.equal(pre)})
		}
		if !setup {
			c.r.Distinct(fmt.Sprintf("%s:%s:n%d:%s:%s", cs.Kind, cs.Via, len(pre.State.Roots), outcome, caseShape(cs)))
		}
		// (3) failed / abandoned: everything byte-equal to the snapshot, unless
		// the renter's honest signature reached the host in full, in which case
		// the host may have committed exactly the signed revision.
		if !post.equal(pre) {
			sigArrived := false
			if out.honest && x != nil {
				k := 1
				if cs.Kind == "roots" || cs.Kind == "fund" {
					k = 0
				}
				if m := x.In(k); m != nil && m.Obj != nil {
					sigArrived = true
				}
			}
			committed := sigArrived && post.State.Revision.RevisionNumber == pre.State.Revision.RevisionNumber+1 && slices.Equal(post.State.Roots, after) && post.State.CheckRoots() == nil && persisted == 1
			if committed {
				c.r.Count("committed_after_renter_gave_up", 1)
				c.model = slices.Clone(post.State.Roots)
			} else {
				for _, d := range pre.diff(post) {
					if d == "roots" && post.State.CheckRoots() != nil {
						continue // already reported above with the same evidence
					}
					if d == "roots" || d == "revision" {
						c.broken = true
					}
					c.violation(fmt.Sprintf("%s-changed-after-abort:%s:%s", d, cs.Kind, outcome),
						"a failed or abandoned RPC changed the host's "+d, cs,
						map[string]any{"outcome": outcome, "renter_error": errText(out.err), "pre": pre, "post": post, "persisting_calls": persisted, "signature_arrived": sigArrived})
				}
			}
		} else {
			c.r.Count("unchanged_after_failure", 1)
			if persisted != 0 {
				c.violation("persist-without-change:"+cs.Kind, "a persisting Contractor call succeeded but the state is unchanged", cs, nil)
			}
		}
	}
	if !c.broken {
		c.contract.Revision = post.State.Revision
	}

	// (4) listing with proofs and read-back after successful appends / frees
	if out.success && !setup && !c.broken && cs.List != "" && (cs.Kind == "free" || cs.Kind == "append") {
		if err := c.listAndRead(cs.List == "all"); err != nil {
			return err
		}
	}
	c.afterChain = ""
	c.lab.Mux.Forget(c.lab.Mux.Streams())
	c.lab.Log.Trim(c.lab.Log.Seq())
	return nil
}

// c09WellFormed reports whether the host is expected to accept the request.
func c09WellFormed(cs c09Case, n int) bool {
	switch cs.Kind {
	case "free":
		return validFree(n, effectiveIndices(cs))
	case "roots":
		return cs.Length > 0 && cs.Offset <= uint64(n) && cs.Length <= uint64(n)-cs.Offset
	}
	return true
}

func caseShape(cs c09Case) string {
	switch cs.Kind {
	case "free":
		return idxString(cs.Indices)
	case "append":
		return fmt.Sprint(cs.Batch)
	case "roots":
		return fmt.Sprintf("%d+%d", cs.Offset, cs.Length)
	case "replenish":
		return fmt.Sprintf("pools=%v,mixed=%v", cs.Pools, cs.Mixed)
	}
	return ""
}

func effectiveIndices(cs c09Case) []uint64 {
	if cs.Via == "honest" {
		return normalise(cs.Indices)
	}
	return cs.Indices
}

func (c *c09) batchRoots(batch []string) []types.Hash256 {
	var out []types.Hash256
	fresh := c.newRoots(len(batch))
	nf, nu := 0, 0
	for _, b := range batch {
		switch b {
		case "new":
			if nf < len(fresh) {
				out = append(out, fresh[nf])
				nf++
			} else {
				out = append(out, c.stored[0].Root)
			}
		case "dup":
			if len(c.model) > 0 {
				out = append(out, c.model[0])
			} else {
				out = append(out, c.stored[0].Root)
			}
		case "same":
			// one fresh stored root, the same at every occurrence
			if len(fresh) > 0 {
				out = append(out, fresh[len(fresh)-1])
			} else {
				out = append(out, c.stored[0].Root)
			}
		case "unkA":
			out = append(out, rhplab.UnknownRoot(1000)) // the same unknown root at every occurrence
		case "unkB":
			out = append(out, rhplab.UnknownRoot(1001))
		default:
			out = append(out, rhplab.UnknownRoot(nu))
			nu++
		}
	}
	return out
}

// round2 builds the raw renter's second-message behaviour for a variant.
func (c *c09) round2(variant string, out *c09Outcome) rhplab.Round2 {
	foreign := rhplab.KeyFromSeed(77, 7)
	switch variant {
	case "", "noread":
		out.honest = true
		return nil
	case "stop-after-resp1":
		return func(types.V2FileContract, types.Hash256) (types.Signature, bool) { return types.Signature{}, false }
	case "r2-random":
		out.tamper = "bad-renter-sig"
		return func(types.V2FileContract, types.Hash256) (s types.Signature, ok bool) {
			for i := range s {
				s[i] = byte(c.rng.Uint32())
			}
			return s, true
		}
	case "r2-wrongkey":
		out.tamper = "bad-renter-sig"
		return func(_ types.V2FileContract, h types.Hash256) (types.Signature, bool) {
			return foreign.SignHash(h), true
		}
	case "r2-other-revision":
		out.tamper = "bad-renter-sig"
		return func(rev types.V2FileContract, _ types.Hash256) (types.Signature, bool) {
			rev.RevisionNumber++
			return c.lab.RenterKey.SignHash(c.cs.ContractSigHash(rev)), true
		}
	case "r2-other-root":
		out.tamper = "bad-renter-sig"
		return func(rev types.V2FileContract, _ types.Hash256) (types.Signature, bool) {
			rev.FileMerkleRoot[0] ^= 1
			return c.lab.RenterKey.SignHash(c.cs.ContractSigHash(rev)), true
		}
	}
	panic("unknown variant " + variant)
}

func (c *c09) doFree(cs c09Case) (out c09Outcome) {
	if cs.Via == "honest" {
		out.honest = true
		res, err := rhp.RPCFreeSectors(ctxBG(), c.cl, c.signer(), c.cs, c.prices, c.contract, cs.Indices)
		out.err = err
		if err == nil {
			out.success = true
			out.revision = &res.Revision
		}
		return
	}
	r2 := c.round2(cs.Variant, &out)
	res := c.raw.Free(c.cs, rhplab.FreeCall{Contract: c.contract, Prices: c.prices, Indices: cs.Indices, NoRead: cs.Variant == "noread", Round2: r2})
	out.err = res.Err
	if res.Stage >= rhplab.StageResp1 {
		c.r.Count("free_proofs_seen", 1)
		if res.ProofOK {
			c.r.Count("free_proofs_verified_by_core", 1)
		}
		// the root the host asks the renter to sign must be the model's root
		if validFree(len(c.model), cs.Indices) {
			if want := proto4.MetaRoot(modelFree(c.model, cs.Indices)); res.Resp.NewMerkleRoot != want {
				c.violation("free-new-root-wrong", "the new merkle root the host proposes for a free differs from the list model's root", cs,
					map[string]any{"host": res.Resp.NewMerkleRoot, "model": want})
			}
		}
	}
	if res.Stage == rhplab.StageComplete && res.Err == nil {
		out.success = true
		out.revision = &res.Revision
	}
	return
}

func (c *c09) doAppend(cs c09Case, roots []types.Hash256) (out c09Outcome) {
	if cs.Via == "honest" {
		out.honest = true
		res, err := rhp.RPCAppendSectors(ctxBG(), c.cl, c.signer(), c.cs, c.prices, c.contract, roots)
		out.err = err
		if err == nil {
			out.success = true
			out.revision = &res.Revision
			var want []types.Hash256
			for _, h := range roots {
				if c.isStor[h] != nil {
					want = append(want, h)
				}
			}
			if !slices.Equal(res.Sectors, want) {
				c.violation("append-accepted-wrong", "the host accepted a different set of roots than the ones it stores", cs,
					map[string]any{"accepted": shortRoots(res.Sectors), "stored": shortRoots(want)})
			}
		}
		return
	}
	r2 := c.round2(cs.Variant, &out)
	res := c.raw.Append(c.cs, rhplab.AppendCall{Contract: c.contract, Prices: c.prices, Roots: roots, NoRead: cs.Variant == "noread", Round2: r2})
	out.err = res.Err
	if res.Stage >= rhplab.StageResp1 && len(res.Resp.Accepted) == len(roots) {
		for i, h := range roots {
			if res.Resp.Accepted[i] != (c.isStor[h] != nil) {
				c.violation("append-accepted-wrong", "the host's accepted flags differ from what it stores", cs,
					map[string]any{"position": i, "accepted": res.Resp.Accepted[i]})
				break
			}
		}
		if !res.ProofOK {
			c.violation("append-proof-invalid", "core rejects the host's append proof", cs, nil)
		}
	}
	if res.Stage == rhplab.StageComplete && res.Err == nil {
		out.success = true
		out.revision = &res.Revision
	}
	return
}

func (c *c09) doRoots(cs c09Case) (out c09Outcome) {
	out.honest = true
	if cs.Via == "honest" {
		res, err := rhp.RPCSectorRoots(ctxBG(), c.cl, c.cs, c.prices, c.signer(), c.contract, cs.Offset, cs.Length)
		out.err = err
		if err == nil {
			out.success = true
			out.revision = &res.Revision
			out.listed = res.Roots
		}
		return
	}
	call := rhplab.RootsCall{Contract: c.contract, Prices: c.prices, Offset: cs.Offset, Length: cs.Length, NoRead: cs.Variant == "noread"}
	switch cs.Variant {
	case "r2-random", "r2-wrongkey", "r2-other-revision", "r2-other-root":
		r2 := c.round2(cs.Variant, &out)
		out.honest = false
		call.MutReq = func(req *proto4.RPCSectorRootsRequest, honest types.V2FileContract) {
			req.RenterSignature, _ = r2(honest, c.cs.ContractSigHash(honest))
		}
	}
	res := c.raw.Roots(c.cs, call)
	out.err = res.Err
	if res.Err == nil {
		out.success = true
		out.revision = &res.Revision
		out.listed = res.Resp.Roots
		if !res.ProofOK {
			c.violation("listing-proof-invalid", "core rejects the host's sector roots proof", cs, nil)
		}
	}
	return
}

func (c *c09) doFund(cs c09Case) (out c09Outcome) {
	out.honest = true
	deposits := []proto4.AccountDeposit{{Account: c.acct, Amount: types.Siacoins(1).Div64(1000)}, {Account: c.repl[0], Amount: types.NewCurrency64(12345)}}
	if cs.Via == "honest" {
		res, err := rhp.RPCFundAccounts(ctxBG(), c.cl, c.cs, c.signer(), c.contract, deposits)
		out.err = err
		if err == nil {
			out.success = true
			out.revision = &res.Revision
		}
		return
	}
	call := rhplab.FundCall{Contract: c.contract, Deposits: deposits, NoRead: cs.Variant == "noread"}
	switch cs.Variant {
	case "r2-random", "r2-wrongkey", "r2-other-revision", "r2-other-root":
		r2 := c.round2(cs.Variant, &out)
		out.honest = false
		call.MutReq = func(req *proto4.RPCFundAccountsRequest, honest types.V2FileContract) {
			req.RenterSignature, _ = r2(honest, c.cs.ContractSigHash(honest))
		}
	}
	res := c.raw.Fund(c.cs, call)
	out.err = res.Err
	if res.Err == nil {
		out.success = true
		out.revision = &res.Revision
	}
	return
}

// doReplenish replenishes tracked accounts (or pools) to a target just above
// their highest balance, so that every listed one needs a deposit; in the
// mixed accounts case the (much richer) read account is listed too and must
// get a zero deposit.
func (c *c09) doReplenish(cs c09Case, pre snap) (out c09Outcome) {
	bal := pre.Acc[1:]
	if cs.Pools {
		bal = pre.Pool
	}
	target := types.NewCurrency64(1_000_000)
	for _, b := range bal {
		if b.Cmp(target) >= 0 {
			target = b.Add(types.NewCurrency64(1000))
		}
	}
	accounts := slices.Clone(c.repl)
	if cs.Mixed && !cs.Pools {
		accounts = []proto4.Account{c.repl[0], c.acct, c.repl[1]}
	} else if cs.Mixed {
		accounts = accounts[:2]
	}
	if cs.Via == "honest" {
		out.honest = true
		var err error
		var rev types.V2FileContract
		if cs.Pools {
			var res rhp.RPCReplenishPoolsResult
			res, err = rhp.RPCReplenishPools(ctxBG(), c.cl, rhp.RPCReplenishPoolsParams{Pools: accounts, Target: target, Contract: c.contract}, c.cs, c.signer())
			rev = res.Revision
		} else {
			var res rhp.RPCReplenishAccountsResult
			res, err = rhp.RPCReplenishAccounts(ctxBG(), c.cl, rhp.RPCReplenishAccountsParams{Accounts: accounts, Target: target, Contract: c.contract}, c.cs, c.signer())
			rev = res.Revision
		}
		out.err = err
		if err == nil {
			out.success = true
			out.revision = &rev
		}
		return
	}
	r2 := c.round2(cs.Variant, &out)
	res := c.raw.Replenish(c.cs, rhplab.ReplenishCall{Pools: cs.Pools, Contract: c.contract, Accounts: accounts, Target: target, NoRead: cs.Variant == "noread", Round2: r2})
	out.err = res.Err
	if res.Stage == rhplab.StageComplete && res.Err == nil {
		out.success = true
		out.revision = &res.Revision
	}
	return
}

// drain leaves the renter payout below the price of a single free.
func (c *c09) drain() error {
	st, err := c.lab.State(c.contract.ID)
	if err != nil {
		return inconclusive("drain: %v", err)
	}
	keep := types.NewCurrency64(999)
	if st.Revision.RenterOutput.Value.Cmp(keep) <= 0 {
		return nil
	}
	amount := st.Revision.RenterOutput.Value.Sub(keep)
	c.contract.Revision = st.Revision
	res, err := rhp.RPCFundAccounts(ctxBG(), c.cl, c.cs, c.signer(), c.contract, []proto4.AccountDeposit{{Account: c.acct, Amount: amount}})
	if qerr := c.quiesce(); qerr != nil {
		return qerr
	}
	if err != nil {
		return inconclusive("drain fund: %v", err)
	}
	c.contract.Revision = res.Revision
	c.broken = true // contract is spent: never reuse it for later cases
	return nil
}

// listAndRead lists ranges of the contract with proofs through the honest
// client (each listing is itself a judged attempt) and reads every listed
// sector back once per contract.
func (c *c09) listAndRead(all bool) error {
	n := uint64(len(c.model))
	if n == 0 {
		return nil
	}
	type rg struct{ off, ln uint64 }
	ranges := []rg{{0, n}}
	if all {
		ranges = ranges[:0]
		for off := uint64(0); off < n; off++ {
			for ln := uint64(1); off+ln <= n; ln++ {
				ranges = append(ranges, rg{off, ln})
			}
		}
	}
	for _, g := range ranges {
		if c.broken {
			return nil
		}
		if err := c.attempt(c09Case{Kind: "roots", Via: "honest", N: -1, Offset: g.off, Length: g.ln}, true); err != nil {
			return err
		}
		c.r.Count("ranges_listed", 1)
	}
	for _, root := range c.model {
		if c.readOK[root] {
			continue
		}
		if err := c.readBack(root); err != nil {
			return err
		}
	}
	return nil
}

func (c *c09) readBack(root types.Hash256) error {
	// make sure the account can pay
	bal, _ := c.lab.Contractor.AccountBalance(c.acct)
	if bal.Cmp(types.Siacoins(1).Div64(10000)) < 0 {
		if err := c.attempt(c09Case{Kind: "fund", Via: "honest", N: -1}, true); err != nil {
			return err
		}
	}
	token := proto4.NewAccountToken(c.acctKey, c.lab.HostKey.PublicKey())
	var buf bytes.Buffer
	_, err := rhp.RPCReadSector(ctxBG(), c.cl, c.prices, token, &buf, root, 0, 64)
	if qerr := c.quiesce(); qerr != nil {
		return qerr
	}
	c.r.Count("sectors_read_back", 1)
	s := c.isStor[root]
	switch {
	case err != nil:
		c.violation("readback-failed", "a sector listed in the contract cannot be read back: "+err.Error(), c09Case{Kind: "read"}, map[string]any{"root": root})
	case s == nil || !bytes.Equal(buf.Bytes(), s.Payload):
		c.violation("readback-wrong-data", "a listed sector reads back with different data", c09Case{Kind: "read"}, map[string]any{"root": root})
	default:
		c.readOK[root] = true
	}
	c.cl.TakeStreams()
	return nil
}

// ---------------------------------------------------------------------------
// enumeration

// orderedSelections calls fn with every ordered selection without repetition
// of k = 0..n values out of 0..n-1.
func orderedSelections(n int, fn func([]uint64)) {
	var cur []uint64
	used := make([]bool, n)
	var rec func()
	rec = func() {
		fn(slices.Clone(cur))
		for i := 0; i < n; i++ {
			if used[i] {
				continue
			}
			used[i] = true
			cur = append(cur, uint64(i))
			rec()
			cur = cur[:len(cur)-1]
			used[i] = false
		}
	}
	rec()
}

// tuples calls fn with every tuple of length 1..maxLen over vals.
func tuples(vals []uint64, maxLen int, fn func([]uint64)) {
	var cur []uint64
	var rec func()
	rec = func() {
		if len(cur) > 0 {
			fn(slices.Clone(cur))
		}
		if len(cur) == maxLen {
			return
		}
		for _, v := range vals {
			cur = append(cur, v)
			rec()
			cur = cur[:len(cur)-1]
		}
	}
	rec()
}

func batches(maxLen int, fn func([]string)) {
	kinds := []string{"new", "dup", "unk"}
	var cur []string
	var rec func()
	rec = func() {
		if len(cur) > 0 {
			fn(slices.Clone(cur))
		}
		if len(cur) == maxLen {
			return
		}
		for _, k := range kinds {
			cur = append(cur, k)
			rec()
			cur = cur[:len(cur)-1]
		}
	}
	rec()
}

// c09Cuts are the transport cut points tried on every multi-round RPC: the
// start and the second byte of every run, plus offsets inside the messages
// (16/17: end of the RPC id; 64/65: last byte of / just beyond a signature
// message). A cut aimed beyond the end of a run fires at the start of the next
// one (or never, if the exchange ends first: that case is a plain success), so
// every boundary is hit from both sides.
func c09Cuts(runs int) []rhplab.Cut {
	var out []rhplab.Cut
	for run := 0; run < runs; run++ {
		for _, b := range []int{0, 1, 16, 17, 40, 64, 65, 300} {
			out = append(out, rhplab.Cut{Run: run, Bytes: b})
		}
	}
	return out
}

type c09Job struct {
	name  string
	cases []c09Case
	seqs  [][]c09Case // sequences run without resizing in between
}

func c09Jobs(r *mon.Run) []c09Job {
	maxN := r.Pick(5, 7)
	var jobs []c09Job

	// A. every ordered selection without repetition, raw client
	for n := 0; n <= maxN; n++ {
		var cases []c09Case
		i := 0
		orderedSelections(n, func(idx []uint64) {
			list := ""
			switch {
			case n <= 5:
				list = "all"
			case i%16 == 0:
				list = "all"
			default:
				list = "full"
			}
			i++
			cases = append(cases, c09Case{Kind: "free", Via: "raw", N: n, Indices: idx, List: list})
		})
		jobs = append(jobs, c09Job{name: fmt.Sprintf("A-ordered-n%d", n), cases: cases})
	}

	// B. index lists with duplicates or out-of-range values, raw client: must change nothing
	{
		var cases []c09Case
		tl := r.Pick(3, 4)
		for n := 0; n <= min(maxN, 5); n++ {
			vals := []uint64{uint64(n), uint64(n) + 1, 1 << 63, math.MaxUint64}
			for i := 0; i < n; i++ {
				vals = append(vals, uint64(i))
			}
			tuples(vals, tl, func(idx []uint64) {
				if validFree(n, idx) {
					return
				}
				if len(idx) == 4 && (idx[0]+idx[1]*3+idx[2]*7+idx[3]*11)%4 != 0 {
					return // thin the largest class deterministically (thorough only)
				}
				cases = append(cases, c09Case{Kind: "free", Via: "raw", N: n, Indices: idx})
			})
		}
		jobs = append(jobs, c09Job{name: "B-invalid-indices", cases: cases})
	}

	// C. every index multiset through the honest (normalising) client
	{
		var cases []c09Case
		for n := 1; n <= maxN; n++ {
			vals := []uint64{uint64(n)}
			for i := 0; i < n; i++ {
				vals = append(vals, uint64(i))
			}
			tuples(vals, 3, func(idx []uint64) {
				cases = append(cases, c09Case{Kind: "free", Via: "honest", N: n, Indices: idx, List: "full"})
			})
		}
		jobs = append(jobs, c09Job{name: "C-honest-multisets", cases: cases})
	}

	// D. append batches mixing stored, already-contained and unknown roots
	{
		var cases []c09Case
		bl := r.Pick(3, 4)
		for n := 0; n <= min(maxN, 5); n++ {
			for _, via := range []string{"raw", "honest"} {
				batches(bl, func(b []string) {
					cases = append(cases, c09Case{Kind: "append", Via: via, N: n, Batch: b, List: "full"})
				})
			}
		}
		// the same root several times in one batch, for roots the host does not
		// store and for roots it stores: every occurrence of a stored root is
		// appended, every occurrence of an unknown root is skipped
		for n := 0; n <= 3; n++ {
			for _, via := range []string{"raw", "honest"} {
				for _, b := range [][]string{
					{"new", "unkA", "new", "unkA"}, {"unkA", "unkA"}, {"unkA", "new", "unkA", "unkA"}, {"unkA", "unkB", "unkA", "unkB"},
					{"same", "same"}, {"same", "unkA", "same"}, {"unkA", "same", "unkA", "same"}, {"dup", "unkA", "dup", "unkA"}, {"unkA", "unkA", "unkA"},
				} {
					cases = append(cases, c09Case{Kind: "append", Via: via, N: n, Batch: b, List: "full"})
				}
			}
		}
		jobs = append(jobs, c09Job{name: "D-append-batches", cases: cases})
	}

	// E. abort points of every multi-round RPC
	{
		var free, app, other []c09Case
		for n := 1; n <= 4; n++ {
			sets := [][]uint64{{0}, {uint64(n - 1)}}
			if n >= 2 {
				sets = append(sets, []uint64{0, uint64(n - 1)}, []uint64{uint64(n - 1), 0})
			}
			if n >= 3 {
				sets = append(sets, []uint64{1, 0, 2}[:3])
			}
			for _, idx := range sets {
				if !validFree(n, idx) {
					continue
				}
				for _, cut := range c09Cuts(4) {
					cut := cut
					free = append(free, c09Case{Kind: "free", Via: "honest", N: n, Indices: normalise(idx), Cut: &cut})
					free = append(free, c09Case{Kind: "free", Via: "raw", N: n, Indices: idx, Cut: &cut})
				}
				for _, v := range c09Variants {
					free = append(free, c09Case{Kind: "free", Via: "raw", N: n, Indices: idx, Variant: v})
				}
			}
			free = append(free, c09Case{Kind: "free", Via: "honest", N: n, Indices: []uint64{0}, Drained: true})
			free = append(free, c09Case{Kind: "free", Via: "raw", N: n, Indices: []uint64{0}, Variant: "r2-random", Drained: true})
		}
		for n := 0; n <= 3; n++ {
			for _, b := range [][]string{{"new"}, {"new", "unk"}, {"unk"}, {"new", "dup", "new"}} {
				for _, cut := range c09Cuts(4) {
					cut := cut
					app = append(app, c09Case{Kind: "append", Via: "honest", N: n, Batch: b, Cut: &cut})
				}
				for _, v := range c09Variants {
					app = append(app, c09Case{Kind: "append", Via: "raw", N: n, Batch: b, Variant: v})
				}
			}
		}
		app = append(app, c09Case{Kind: "append", Via: "honest", N: 1, Batch: []string{"new", "new", "new"}, Drained: true})
		app = append(app, c09Case{Kind: "append", Via: "raw", N: 1, Batch: []string{"new", "new", "new"}, Variant: "r2-random", Drained: true})
		for n := 1; n <= 3; n++ {
			for _, g := range [][2]uint64{{0, uint64(n)}, {uint64(n - 1), 1}} {
				for _, cut := range c09Cuts(2) {
					cut := cut
					other = append(other, c09Case{Kind: "roots", Via: "honest", N: n, Offset: g[0], Length: g[1], Cut: &cut})
				}
				for _, v := range []string{"noread", "r2-random", "r2-wrongkey", "r2-other-revision"} {
					other = append(other, c09Case{Kind: "roots", Via: "raw", N: n, Offset: g[0], Length: g[1], Variant: v})
				}
			}
		}
		other = append(other, c09Case{Kind: "roots", Via: "honest", N: 2, Offset: 0, Length: 2, Drained: true})
		for _, cut := range c09Cuts(2) {
			cut := cut
			other = append(other, c09Case{Kind: "fund", Via: "honest", N: 2, Cut: &cut})
		}
		for _, v := range []string{"noread", "r2-random", "r2-wrongkey", "r2-other-revision"} {
			other = append(other, c09Case{Kind: "fund", Via: "raw", N: 2, Variant: v})
		}
		for _, pools := range []bool{false, true} {
			for _, mixed := range []bool{false, true} {
				other = append(other, c09Case{Kind: "replenish", Via: "honest", N: 2, Pools: pools, Mixed: mixed}, c09Case{Kind: "replenish", Via: "raw", N: 2, Pools: pools, Mixed: mixed})
				for _, cut := range c09Cuts(4) {
					cut := cut
					other = append(other, c09Case{Kind: "replenish", Via: "honest", N: 2, Pools: pools, Mixed: mixed, Cut: &cut})
				}
				for _, v := range c09Variants {
					other = append(other, c09Case{Kind: "replenish", Via: "raw", N: 2, Pools: pools, Mixed: mixed, Variant: v})
				}
			}
			other = append(other, c09Case{Kind: "replenish", Via: "raw", N: 1, Pools: pools, Variant: "r2-random", Drained: true})
		}
		jobs = append(jobs, c09Job{name: "E-abort-free", cases: free}, c09Job{name: "E-abort-append", cases: app}, c09Job{name: "E-abort-other", cases: other})
	}

	// F. PRNG sequences of appends and frees without resetting in between
	{
		nseq := r.Pick(64, 400)
		per := 8
		for j := 0; j*per < nseq; j++ {
			rng := r.RNG(0x09F0 + uint64(j))
			var seqs [][]c09Case
			for s := 0; s < per; s++ {
				var seq []c09Case
				size := 0
				for step := 0; step < 30; step++ {
					if size == 0 || (size < maxN+3 && rng.IntN(5) < 3) {
						b := make([]string, 1+rng.IntN(3))
						for i := range b {
							b[i] = []string{"new", "new", "dup", "unk"}[rng.IntN(4)]
						}
						via := []string{"raw", "honest"}[rng.IntN(2)]
						seq = append(seq, c09Case{Kind: "append", Via: via, N: -1, Batch: b, List: "full"})
						for _, k := range b {
							if k != "unk" {
								size++
							}
						}
						continue
					}
					k := 1 + rng.IntN(min(size, 3))
					perm := rng.Perm(size)[:k]
					idx := u64s(perm...)
					cs := c09Case{Kind: "free", Via: []string{"raw", "honest"}[rng.IntN(2)], N: -1, Indices: idx, List: "full"}
					if rng.IntN(6) == 0 {
						cs.Variant = c09Variants[rng.IntN(len(c09Variants))]
						cs.Via = "raw"
					} else {
						size -= k
					}
					seq = append(seq, cs)
				}
				seqs = append(seqs, seq)
			}
			jobs = append(jobs, c09Job{name: fmt.Sprintf("F-sequences-%d", j), seqs: seqs})
		}
	}
	jobs = append(jobs, c09ChainJobs(r)...)

	// split big jobs over several labs (the workload is latency-bound)
	const chunk = 160
	var split []c09Job
	for _, j := range jobs {
		if len(j.cases) <= chunk {
			split = append(split, j)
			continue
		}
		for off := 0; off < len(j.cases); off += chunk {
			split = append(split, c09Job{name: fmt.Sprintf("%s#%d", j.name, off/chunk), cases: j.cases[off:min(off+chunk, len(j.cases))]})
		}
	}
	return split
}

func runC09(r *mon.Run, replay string) {
	r.Rule("an RPC attempt against a contract of n sectors brought to that size by honest appends/frees: (A) every ordered index selection without repetition of every size n<=bound through the raw (non-normalising) renter, (B) index lists with duplicates / out-of-range values, (C) every index tuple of length<=3 through the honest client, (D) append batches over {stored, already contained, unknown} roots, (E) every transport cut point (start, 2nd byte, inner offsets of each of the 4 messages) and every renter misbehaviour (stop before/after host message 1, four kinds of invalid round-2 signature, drained payout) of free/append/replenish accounts+pools/roots/fund, (F) PRNG append/free sequences without reset, (G) two concurrent clients on one contract. After every attempt (at the handler-quiescence barrier): MetaRoot(host roots)=committed FileMerkleRoot and len*SectorSize=Filesize; failure => revision, roots, balances byte-equal to the pre-attempt snapshot (or exactly the signed revision committed if the honest signature had arrived in full); success => roots = list model, renter's revision = host's, every range listed with a proof the honest client accepts, every listed sector read back. A case is non-trivial when the attempt failed or was abandoned; distinct by (rpc, client, n, abort point, shape)")
	r.Assume("EphemeralContractor / EphemeralSectorStore (the in-repo reference implementations) behind the recording proxies")
	r.Assume("core's MetaRoot, proof builders/verifiers and ReviseFor* are the trusted base")

	if replay != "" {
		guardRun(r, "replay", func() error { return c09Replay(r, replay) })
		return
	}
	r.Floor("success_free", 100)
	r.Floor("success_append", 100)
	r.Floor("ranges_listed", 100)
	r.Floor("sectors_read_back", 5)
	r.Floor("unchanged_after_failure", 100)
	r.Floor("concurrent_commits", 5)
	r.Floor("success_replenish", 4)
	r.Floor("committed_after_renter_gave_up", 10)
	r.Floor("older_revisions_confirmed_on_chain", 30)
	r.Floor("reorgs_reverting_a_confirmed_revision", 5)
	r.Floor("rpcs_succeeded_after_chain_event", 60)
	r.Floor("renewals_with_capacity_above_filesize", 20)
	r.Floor("multi_contract_rounds", 200)
	r.Floor("renewed_away_contracts_audited_after_free_on_renewal", 30)
	r.Floor("append_batches_with_repeated_unknown_roots", 30)
	r.Floor("three_actor_rounds", 40)
	r.Floor("three_actor_contenders_refused", 80)
	r.Floor("three_actor_listings_verified", 30)
	r.Floor("rounds_with_two_paused_rpcs", 40)
	start := time.Now()
	jobs := c09Jobs(r)
	total := 0
	for _, j := range jobs {
		total += len(j.cases)
		for _, s := range j.seqs {
			total += len(s)
		}
	}
	r.Extra("planned_cases", total)
	r.Extra("exhaustive", true)
	r.Extra("exhaustive_scope", map[string]any{"ordered_index_selections_up_to_n": r.Pick(5, 7), "note": "exhaustive only for sub-space A (all ordered index selections without repetition) and C (honest-client tuples up to length 3); everything else is sampled"})
	var wg sync.WaitGroup
	sem := make(chan struct{}, 20)
	for ji, job := range jobs {
		wg.Add(1)
		sem <- struct{}{}
		go func(ji int, job c09Job) {
			defer wg.Done()
			defer func() { <-sem }()
			guardRun(r, "C09 "+job.name, func() error { return c09RunJob(r, ji, job) })
		}(ji, job)
	}
	wg.Add(1)
	go func() {
		defer wg.Done()
		guardRun(r, "C09 G-concurrent", func() error { return c09Concurrent(r) })
	}()
	wg.Add(1)
	go func() {
		defer wg.Done()
		guardRun(r, "C09 K-three-actors", func() error { return c09ThreeActors(r) })
	}()
	for w := 0; w < 3; w++ {
		wg.Add(1)
		go func(w int) {
			defer wg.Done()
			guardRun(r, fmt.Sprintf("C09 J-multi-contract-%d", w), func() error {
				if err := c09MultiContract(r, w); err != nil && !errors.Is(err, errScenarioOver) {
					return err
				}
				return nil
			})
		}(w)
	}
	wg.Wait()
	r.Extra("wall_jobs_s", time.Since(start).Seconds())
}

func c09RunJob(r *mon.Run, ji int, job c09Job) error {
	t0 := time.Now()
	c, err := newC09(r, job.name, uint64(ji)+1)
	if err != nil {
		return err
	}
	defer c.close()
	r.Count("labs", 1)
	r.Count("lab_setup_ms", int(time.Since(t0).Milliseconds()))
	defer func() {
		r.Count("handler_panics_recovered", c.lab.HostPanics())
		r.Count("job_ms_total", int(time.Since(t0).Milliseconds()))
		if os.Getenv("VERIF_TIMING") != "" {
			fmt.Printf("timing job %-28s cases=%d seqs=%d wall=%v\n", job.name, len(job.cases), len(job.seqs), time.Since(t0).Round(time.Millisecond))
		}
	}()
	for _, cs := range job.cases {
		if err := c.attempt(cs, false); err != nil {
			return err
		}
	}
	for _, seq := range job.seqs {
		if slices.ContainsFunc(seq, func(cs c09Case) bool { return cs.Kind == "renew" || cs.Kind == "publish" }) {
			// renewals push the proof height out, publications need a clean start
			if err := c.freshContract(); err != nil {
				return err
			}
		}
		if err := c.ensureSize(0); err != nil {
			return err
		}
		c.boundary()
		for _, cs := range seq {
			// frees of a sequence were generated against the planned size; skip
			// those that the actual size (after unknown roots / aborts) cannot take
			if cs.Kind == "free" && !validFree(len(c.model), cs.Indices) {
				continue
			}
			if err := c.attempt(cs, false); err != nil {
				return err
			}
			if c.broken {
				break
			}
		}
	}
	return nil
}
