package rhphost

import (
	"bytes"
	"encoding/json"
	"errors"
	"fmt"
	"math"
	"math/rand/v2"
	"os"
	"slices"
	"strings"
	"sync"
	"time"

	proto4 "go.sia.tech/core/rhp/v4"
	"go.sia.tech/core/types"
	rhp "go.sia.tech/coreutils/rhp/v4"

	"verif/harness/lab/rhplab"
	"verif/harness/mon"
	"verif/harness/vcli"
)

func init() { vcli.Register("C08", "fault_enumeration", runC08) }

// c08Step is one RPC of a sequence: well-formed (Bad == "") or with exactly
// one field corrupted / replayed as named by Bad.
type c08Step struct {
	RPC string `json:"rpc"` // fund | replenish-accounts | replenish-pools | append | free | roots | latest | renew | refresh-full | refresh-partial
	Bad string `json:"bad,omitempty"`

	Amounts  []uint64 `json:"amounts,omitempty"`  // fund: deposit per account (hastings)
	Accounts []int    `json:"accounts,omitempty"` // fund / replenish: indices into the account pool
	Target   uint64   `json:"target,omitempty"`   // replenish
	Indices  []uint64 `json:"indices,omitempty"`  // free
	Batch    []string `json:"batch,omitempty"`    // append
	Offset   uint64   `json:"offset,omitempty"`   // roots; select: 0 current contract, k>0 the k-th latest renewed-away one
	Length   uint64   `json:"length,omitempty"`   // roots; mine: blocks; form: duration
	Fresh    bool     `json:"fresh,omitempty"`    // mine: fetch a new price table afterwards
	Fault    bool     `json:"fault,omitempty"`    // the host's store fails the persisting call of this (well-formed) RPC
}

// Pseudo-steps (no RPC under judgement): "mine" advances the chain, "form"
// forms a contract of the given duration, "select" points the following steps
// at the current contract or at one that has been renewed away from.
// Bad == "not-revisable" marks a request with correct signatures against a
// contract consensus would no longer accept a revision of (proof window open,
// expired, or renewed): the host must refuse and change nothing.

type c08Seq struct {
	Worker uint64    `json:"worker"`
	Steps  []c08Step `json:"steps"`
}

// what can be wrong with each RPC
var c08Bad = map[string][]string{
	"free": {"chal-random", "chal-wrongkey", "chal-stale", "chal-future", "chal-other-contract", "chal-replay",
		"prices-expired", "prices-foreign", "prices-edited", "prices-unsigned", "idx-out-of-range", "idx-duplicate", "idx-huge", "unknown-contract",
		"sig-random", "sig-wrongkey", "sig-other-number", "sig-other-payout", "sig-stale-base", "sig-replay"},
	"append": {"chal-random", "chal-wrongkey", "chal-stale", "chal-future", "chal-other-contract", "chal-replay",
		"prices-expired", "prices-foreign", "prices-edited", "prices-unsigned", "empty-batch", "unknown-contract",
		"sig-random", "sig-wrongkey", "sig-other-number", "sig-other-payout", "sig-stale-base", "sig-replay"},
	"roots": {"sig-random", "sig-wrongkey", "sig-other-number", "sig-other-payout", "sig-stale-base", "sig-replay", "replay-request",
		"prices-expired", "prices-foreign", "prices-edited", "prices-unsigned",
		"range-zero-length", "range-offset-at-end", "range-beyond-end", "range-overflow", "range-too-long", "unknown-contract"},
	"fund": {"sig-random", "sig-wrongkey", "sig-other-number", "sig-other-amount", "sig-stale-base", "sig-replay", "replay-request",
		"zero-contract-id", "empty-deposits", "zero-amount", "zero-account", "amount-exceeds-payout", "unknown-contract",
		// totals that are not representable or just above what the renter has left;
		// the renter signs the revision that wrap-around arithmetic produces
		"overflow-mid", "overflow-last", "overflow-halves", "overflow-single-max", "sum-exceeds-payout", "sum-exceeds-payout-split"},
	"replenish-accounts": {"chal-random", "chal-wrongkey", "chal-stale", "chal-future", "chal-other-target", "chal-other-accounts", "replay-request",
		"target-zero", "empty-accounts", "zero-account", "unknown-contract",
		"overflow-target", "overflow-target-max", "target-exceeds-payout", "targets-exceed-payout-split",
		"sig-random", "sig-wrongkey", "sig-other-number", "sig-other-payout", "sig-stale-base", "sig-replay"},
	"renew": {"chal-random", "chal-stale", "prices-expired", "prices-foreign", "prices-edited", "proof-height-not-higher", "allowance-zero", "minerfee-zero", "basis-zero",
		"renewal-sig-random", "contract-sig-random", "sigs-swapped"},
	"refresh-full":    {"chal-random", "chal-stale", "prices-expired", "prices-foreign", "allowance-zero", "minerfee-zero", "renewal-sig-random", "contract-sig-random"},
	"refresh-partial": {"chal-random", "chal-stale", "prices-expired", "prices-foreign", "allowance-zero", "minerfee-zero", "renewal-sig-random", "contract-sig-random"},
	"latest":          {"unknown-contract"},
	// contract formation through the raw renter
	"form-contract": {"prices-expired", "prices-foreign", "allowance-zero", "minerfee-zero", "contract-sig-random"},
}

// c08PoolBad are renter contributions that pass every check the host makes
// itself and make the assembled transaction fail only in the host's own
// transaction pool (consensus validation). They apply to every
// contract-creating RPC.
var c08PoolBad = []string{
	"pool-policy-sig",      // one byte of the renter input's policy signature flipped
	"pool-spent-in-pool",   // renter input double-spent by a pooled transaction while the host waits for the signatures
	"pool-spent-on-chain",  // ... and that transaction mined meanwhile
	"pool-parent-conflict", // renter parent conflicts with a pooled transaction
	"pool-bad-proof",       // renter input element with a corrupted Merkle proof for the claimed basis
	"pool-immature",        // renter input is an immature miner payout
}

func init() {
	for _, rpc := range []string{"form-contract", "renew", "refresh-full", "refresh-partial"} {
		c08Bad[rpc] = append(slices.Clone(c08Bad[rpc]), c08PoolBad...)
	}
}

func init() { c08Bad["replenish-pools"] = c08Bad["replenish-accounts"] }

// c08 is one sequential worker.
type c08 struct {
	*env
	worker uint64
	aud    *auditor
	rng    *rand.Rand
	keys   []types.PrivateKey // account / pool keys
	accts  []proto4.Account
	stored []*rhplab.TestSector
	isStor map[types.Hash256]bool
	model  []types.Hash256

	steps []c08Step // since the lab was created (witness)
	cur   *c08Step

	// material for replays: taken from earlier *successful* exchanges
	oldRevs      []types.V2FileContract // earlier committed revisions of the current contract (stale bases)
	oldSigs      []types.Signature      // earlier renter revision signatures
	oldChal      []types.Signature      // earlier challenge signatures (free/append)
	oldRoots     *proto4.RPCSectorRootsRequest
	oldFund      *proto4.RPCFundAccountsRequest
	oldRepl      map[bool]*proto4.RPCReplenishAccountsRequest
	foreign      types.PrivateKey
	unknownID    types.FileContractID
	prevIDs      []types.FileContractID // contracts renewed away from
	prev         []rhp.ContractRevision // ... with their last revision
	active       *rhp.ContractRevision  // the current contract while an old one is selected
	staleRev     *types.V2FileContract  // an earlier doubly signed revision of the current contract (requests built on a stale base)
	afterChain   string                 // the running step follows this chain event
	formedAt     uint64                 // height at which the current contract confirmed
	stale        string                 // the host's current prices differ by this factor from the signed table in use
	afterFault   string                 // the running step follows a store fault of this label
	afterRefusal string                 // the running step follows a refused request of this label
	following    bool
	injected     map[types.TransactionID]bool // transactions the renter itself put into the pool during the running step
	fresh        []proto4.Account             // accounts allocated for the running overflow step
	nfresh       int
	baseAccts    int
}

func (c *c08) report(sig, what string, ev *rhplab.Event, detail map[string]any) {
	if detail == nil {
		detail = map[string]any{}
	}
	if ev != nil {
		detail["event"] = map[string]any{"kind": ev.Kind, "stream": ev.Stream, "seq": ev.Seq, "contract": ev.ContractID, "revision_number": ev.Revision.RevisionNumber, "contractor_error": ev.Err}
	}
	detail["step"] = c.cur
	c.r.Violation(sig, what, c08Seq{Worker: c.worker, Steps: slices.Clone(c.steps)}, detail)
}

func newC08(r *mon.Run, worker uint64) (*c08, error) {
	e, err := newEnv(r, envOptions{seed: uint64(r.Seed)*1000 + 500 + worker})
	if err != nil {
		return nil, err
	}
	c := &c08{env: e, worker: worker, rng: r.RNG(0x0800 + worker), isStor: map[types.Hash256]bool{}, oldRepl: map[bool]*proto4.RPCReplenishAccountsRequest{}}
	c.aud = newAuditor(e.lab, c.report, r.Count)
	c.foreign = rhplab.KeyFromSeed(4242, 3)
	c.unknownID = types.FileContractID{0xde, 0xad, 1}
	for i := 0; i < 4; i++ {
		k := rhplab.KeyFromSeed(uint64(r.Seed)*1000+500+worker, byte(40+i))
		c.keys = append(c.keys, k)
		c.accts = append(c.accts, proto4.Account(k.PublicKey()))
	}
	e.accounts, e.pools = c.accts, c.accts
	c.baseAccts = len(c.accts)
	for i := 0; i < 10; i++ {
		s := e.lab.StoreDirect(i)
		c.stored = append(c.stored, s)
		c.isStor[s.Root] = true
	}
	if err := c.newContract(); err != nil {
		e.close()
		return nil, err
	}
	return c, nil
}

func (c *c08) newContract() error { return c.newContractFor(400) }

func (c *c08) newContractFor(duration uint64) error {
	c.active = nil
	if err := c.formContract(types.Siacoins(500), types.Siacoins(200), duration); err != nil {
		return err
	}
	c.aud.cs = c.cs
	c.aud.audit() // picks up AddV2Contract
	if c.aud.tracks[c.contract.ID] == nil {
		return inconclusive("formation not seen by the recording contractor")
	}
	c.model = nil
	c.oldRevs, c.oldSigs, c.oldChal, c.oldRoots, c.oldFund = nil, nil, nil, nil, nil
	c.oldRepl = map[bool]*proto4.RPCReplenishAccountsRequest{}
	c.staleRev, c.formedAt = nil, c.lab.CM.Tip().Height
	c.r.Count("contracts_formed", 1)
	return nil
}

// ---------------------------------------------------------------------------
// executing one step

type c08Result struct {
	err     error
	success bool
	harness error // the harness could not build the request at all
	// fund: the deposits as sent and the balances the host answered
	deposits []proto4.AccountDeposit
	reported []types.Currency
}

func isInc(err error) bool {
	var inc errInconclusive
	return errors.As(err, &inc)
}

// corruptProof flips one bit in the Merkle proof of the first renter input.
func corruptProof(inputs []types.SiacoinElement) {
	for i := range inputs {
		if p := inputs[i].StateElement.MerkleProof; len(p) > 0 {
			p[len(p)/2][3] ^= 0x10
			return
		}
	}
}

// sabotage arranges the renter's contribution to a contract-creating RPC so
// that the host's own checks pass and only its transaction pool objects.
func (c *c08) sabotage(bad string, call *rhplab.RenewCall) error {
	lab := c.lab
	w := lab.RenterWallet
	tip := lab.CM.Tip()
	// the biggest confirmed, mature, unreserved output of the renter
	pick := func() (types.SiacoinElement, error) {
		els, err := w.SpendableOutputs()
		if err != nil || len(els) == 0 {
			return types.SiacoinElement{}, inconclusive("renter has no spendable output: %v", err)
		}
		best := els[0]
		for _, el := range els[1:] {
			if el.SiacoinOutput.Value.Cmp(best.SiacoinOutput.Value) > 0 {
				best = el
			}
		}
		return best, nil
	}
	// spend builds and signs a transaction moving el to addr
	spend := func(el types.SiacoinElement, addr types.Address, fee uint64) types.V2Transaction {
		f := types.Siacoins(1).Div64(100).Mul64(fee)
		txn := types.V2Transaction{
			MinerFee:       f,
			SiacoinInputs:  []types.V2SiacoinInput{{Parent: el.Copy()}},
			SiacoinOutputs: []types.SiacoinOutput{{Address: addr, Value: el.SiacoinOutput.Value.Sub(f)}},
		}
		w.SignV2Inputs(&txn, []int{0})
		return txn
	}
	inject := func(txn types.V2Transaction) error {
		if _, err := lab.CM.AddV2PoolTransactions(tip, []types.V2Transaction{txn}); err != nil {
			return inconclusive("renter's own conflicting transaction refused by the pool: %v", err)
		}
		c.injected[txn.ID()] = true
		return nil
	}
	switch bad {
	case "pool-policy-sig":
		call.MutPolicies = func(ps []types.SatisfiedPolicy) {
			if len(ps) > 0 && len(ps[0].Signatures) > 0 {
				ps[0].Signatures[0][7] ^= 0x01
			}
		}
	case "pool-bad-proof":
		// applied to the request by the mutators
	case "pool-spent-in-pool", "pool-spent-on-chain":
		el, err := pick()
		if err != nil {
			return err
		}
		call.Funding = &rhplab.Funding{Basis: tip, Inputs: []types.SiacoinElement{el}}
		call.BeforeRound2 = func() {
			if err := inject(spend(el, w.Address(), 3)); err != nil {
				c.r.Inconclusive(err.Error())
				return
			}
			if bad == "pool-spent-on-chain" {
				if err := lab.Mine(types.VoidAddress, 1); err != nil {
					c.r.Inconclusive("mine double spend: " + err.Error())
				}
			}
		}
	case "pool-parent-conflict":
		el, err := pick()
		if err != nil {
			return err
		}
		parent := spend(el, w.Address(), 1)
		if err := inject(spend(el, w.Address(), 2)); err != nil {
			return err
		}
		call.Funding = &rhplab.Funding{Basis: tip, Inputs: []types.SiacoinElement{parent.EphemeralSiacoinOutput(0)}, Parents: []types.V2Transaction{parent}}
	case "pool-immature":
		if err := lab.Mine(w.Address(), 1); err != nil {
			return inconclusive("mine: %v", err)
		}
		tip = lab.CM.Tip()
		utip, els := lab.RenterUTXOs()
		for _, el := range els {
			if el.MaturityHeight > tip.Height+1 && utip == tip {
				call.Funding = &rhplab.Funding{Basis: tip, Inputs: []types.SiacoinElement{el}}
				return nil
			}
		}
		return inconclusive("no immature renter output found")
	default:
		return inconclusive("unknown sabotage %q", bad)
	}
	return nil
}

func (c *c08) randSig() (s types.Signature) {
	for i := range s {
		s[i] = byte(c.rng.Uint32())
	}
	return
}

// badPrices returns the corrupted price table for a prices-* corruption.
func (c *c08) badPrices(bad string) (proto4.HostPrices, bool) {
	p := c.prices
	switch bad {
	case "prices-expired":
		p.ValidUntil = time.Now().Add(-3 * time.Hour)
		return rhplab.SignPrices(p, c.lab.HostKey), true
	case "prices-foreign":
		return rhplab.SignPrices(p, c.foreign), true
	case "prices-edited":
		p.FreeSectorPrice = types.ZeroCurrency
		p.StoragePrice = types.ZeroCurrency
		p.EgressPrice = types.ZeroCurrency
		p.ContractPrice = types.ZeroCurrency
		return p, true
	case "prices-unsigned":
		p.Signature = types.Signature{}
		return p, true
	}
	return p, false
}

// round2 builds the second-message corruption for sig-* variants.
func (c *c08) round2(bad string) rhplab.Round2 {
	switch bad {
	case "sig-random":
		return func(types.V2FileContract, types.Hash256) (types.Signature, bool) { return c.randSig(), true }
	case "sig-wrongkey":
		return func(_ types.V2FileContract, h types.Hash256) (types.Signature, bool) {
			return c.foreign.SignHash(h), true
		}
	case "sig-other-number":
		return func(rev types.V2FileContract, _ types.Hash256) (types.Signature, bool) {
			rev.RevisionNumber++
			return c.lab.RenterKey.SignHash(c.cs.ContractSigHash(rev)), true
		}
	case "sig-other-payout", "sig-other-amount":
		// the renter signs a revision in which it pays one hasting less
		return func(rev types.V2FileContract, _ types.Hash256) (types.Signature, bool) {
			rev.RenterOutput.Value = rev.RenterOutput.Value.Add(types.NewCurrency64(1))
			if !rev.HostOutput.Value.IsZero() {
				rev.HostOutput.Value = rev.HostOutput.Value.Sub(types.NewCurrency64(1))
			}
			return c.lab.RenterKey.SignHash(c.cs.ContractSigHash(rev)), true
		}
	case "sig-stale-base":
		// a valid signature over the revision derived from an older base
		return func(rev types.V2FileContract, _ types.Hash256) (types.Signature, bool) {
			if len(c.oldRevs) > 0 {
				old := c.oldRevs[c.rng.IntN(len(c.oldRevs))]
				old.RevisionNumber++
				old.FileMerkleRoot, old.Filesize, old.Capacity = rev.FileMerkleRoot, rev.Filesize, rev.Capacity
				return c.lab.RenterKey.SignHash(c.cs.ContractSigHash(old)), true
			}
			rev.RevisionNumber--
			return c.lab.RenterKey.SignHash(c.cs.ContractSigHash(rev)), true
		}
	case "sig-replay":
		return func(types.V2FileContract, types.Hash256) (types.Signature, bool) {
			if len(c.oldSigs) > 0 {
				return c.oldSigs[c.rng.IntN(len(c.oldSigs))], true
			}
			return c.randSig(), true
		}
	}
	return nil
}

// badChallenge returns a corrupted challenge signature; hash computes the
// challenge hash for a (contract id, revision number) pair of this request.
func (c *c08) badChallenge(bad string, expected uint64, hash func(types.FileContractID, uint64) types.Hash256) (types.Signature, bool) {
	id := c.contract.ID
	switch bad {
	case "chal-random":
		return c.randSig(), true
	case "chal-wrongkey":
		return c.foreign.SignHash(hash(id, expected)), true
	case "chal-stale":
		return c.lab.RenterKey.SignHash(hash(id, expected-1)), true
	case "chal-future":
		return c.lab.RenterKey.SignHash(hash(id, expected+1)), true
	case "chal-other-contract":
		return c.lab.RenterKey.SignHash(hash(c.unknownID, expected)), true
	case "chal-replay":
		if len(c.oldChal) > 0 {
			return c.oldChal[c.rng.IntN(len(c.oldChal))], true
		}
		return c.lab.RenterKey.SignHash(hash(id, expected-1)), true
	}
	return types.Signature{}, false
}

// freshAccounts allocates n never-used accounts and tracks their balances (as
// accounts and as pools) in every later snapshot.
func (c *c08) freshAccounts(n int) []proto4.Account {
	var out []proto4.Account
	for i := 0; i < n; i++ {
		k := rhplab.KeyFromSeed(uint64(c.r.Seed)*1_000_000+c.worker*10_000+uint64(c.nfresh), 0xF5)
		c.nfresh++
		out = append(out, proto4.Account(k.PublicKey()))
	}
	// keep the tracked set bounded: the four base accounts plus the latest fresh ones
	keep := c.accounts
	if len(keep) > c.baseAccts+30 {
		keep = append(slices.Clone(keep[:c.baseAccts]), keep[len(keep)-27:]...)
	}
	c.accounts = append(slices.Clone(keep), out...)
	c.pools = c.accounts
	return out
}

func (c *c08) accountsOf(st c08Step) []proto4.Account {
	var out []proto4.Account
	for _, i := range st.Accounts {
		if i >= len(c.accts) && len(c.fresh) > 0 {
			out = append(out, c.fresh[(i-len(c.accts))%len(c.fresh)]) // never used before this step
			continue
		}
		out = append(out, c.accts[i%len(c.accts)])
	}
	return out
}

func (c *c08) batchRoots(batch []string) []types.Hash256 {
	var out []types.Hash256
	nu := 0
	for i, b := range batch {
		switch b {
		case "unk":
			out = append(out, rhplab.UnknownRoot(nu))
			nu++
		case "dup":
			if len(c.model) > 0 {
				out = append(out, c.model[0])
				continue
			}
			fallthrough
		default:
			out = append(out, c.stored[(len(c.model)+i)%len(c.stored)].Root)
		}
	}
	return out
}

func (c *c08) do(st c08Step) (res c08Result) {
	bad := st.Bad
	contract := c.contract
	if bad == "unknown-contract" {
		contract.ID = c.unknownID
	}
	if bad == "built-on-stale-revision" && c.staleRev != nil {
		contract.Revision = *c.staleRev // correctly signed, but for a revision the host has moved past
	}
	var chal types.Signature
	done := func(stage rhplab.Stage, err error) {
		res.err = err
		res.success = err == nil && stage == rhplab.StageComplete
	}
	switch st.RPC {
	case "latest":
		id := contract.ID
		if bad == "" && len(c.prevIDs) > 0 && c.rng.IntN(2) == 0 {
			id = c.prevIDs[c.rng.IntN(len(c.prevIDs))] // a contract that has been renewed since
		}
		resp, err := c.raw.LatestRevision(id)
		res.err, res.success = err, err == nil
		if err == nil {
			if hs, serr := c.lab.State(id); serr == nil && (resp.Contract != hs.Revision || resp.Revisable != hs.Revisable || resp.Renewed != hs.Renewed) {
				c.report("latest-revision-wrong", "RPCLatestRevision does not return the host's committed revision and flags", nil, map[string]any{"rpc": resp, "host": hs})
			} else if serr == nil {
				c.r.Count("latest_revision_checked", 1)
			}
		}
	case "free":
		call := rhplab.FreeCall{Contract: contract, Prices: c.prices, Indices: st.Indices, Round2: c.round2(bad), SkipProof: true}
		if p, ok := c.badPrices(bad); ok {
			call.Prices = p
		}
		n := uint64(len(c.model))
		switch bad {
		case "idx-out-of-range":
			call.Indices = append(slices.Clone(st.Indices), n)
		case "idx-duplicate":
			call.Indices = append(slices.Clone(st.Indices), st.Indices[0])
		case "idx-huge":
			call.Indices = []uint64{math.MaxUint64}
		}
		call.MutReq = func(req *proto4.RPCFreeSectorsRequest) {
			if sig, ok := c.badChallenge(bad, contract.Revision.RevisionNumber+1, func(id types.FileContractID, n uint64) types.Hash256 {
				q := *req
				q.ContractID = id
				return q.ChallengeSigHash(n)
			}); ok {
				req.ChallengeSignature = sig
			}
			chal = req.ChallengeSignature
		}
		r := c.raw.Free(c.cs, call)
		done(r.Stage, r.Err)
		if res.success {
			c.oldSigs = append(c.oldSigs, r.Revision.RenterSignature)
			c.oldChal = append(c.oldChal, chal)
		}
	case "append":
		roots := c.batchRoots(st.Batch)
		if bad == "empty-batch" {
			roots = nil
		}
		call := rhplab.AppendCall{Contract: contract, Prices: c.prices, Roots: roots, Round2: c.round2(bad)}
		if p, ok := c.badPrices(bad); ok {
			call.Prices = p
		}
		call.MutReq = func(req *proto4.RPCAppendSectorsRequest) {
			if sig, ok := c.badChallenge(bad, contract.Revision.RevisionNumber+1, func(id types.FileContractID, n uint64) types.Hash256 {
				q := *req
				q.ContractID = id
				return q.ChallengeSigHash(n)
			}); ok {
				req.ChallengeSignature = sig
			}
			chal = req.ChallengeSignature
		}
		r := c.raw.Append(c.cs, call)
		done(r.Stage, r.Err)
		if res.success {
			c.oldSigs = append(c.oldSigs, r.Revision.RenterSignature)
			c.oldChal = append(c.oldChal, chal)
		}
	case "roots":
		call := rhplab.RootsCall{Contract: contract, Prices: c.prices, Offset: st.Offset, Length: st.Length}
		if p, ok := c.badPrices(bad); ok {
			call.Prices = p
		}
		n := uint64(len(c.model))
		switch bad {
		case "range-zero-length":
			call.Length = 0
		case "range-offset-at-end":
			call.Offset, call.Length = n, 1
		case "range-beyond-end":
			call.Offset, call.Length = n-min(n, 1), 2
		case "range-overflow":
			call.Offset, call.Length = math.MaxUint64-1, 3
		case "range-too-long":
			call.Offset, call.Length = 0, n+1
		}
		r2 := c.round2(bad)
		var sentRoots proto4.RPCSectorRootsRequest
		call.MutReq = func(req *proto4.RPCSectorRootsRequest, honest types.V2FileContract) {
			if r2 != nil {
				req.RenterSignature, _ = r2(honest, c.cs.ContractSigHash(honest))
			}
			if bad == "replay-request" && c.oldRoots != nil {
				*req = *c.oldRoots
			}
			sentRoots = *req
		}
		if bad == "replay-request" && c.oldRoots == nil {
			call.MutReq = func(req *proto4.RPCSectorRootsRequest, _ types.V2FileContract) { req.RenterSignature = c.randSig() }
		}
		r := c.raw.Roots(c.cs, call)
		res.err, res.success = r.Err, r.Err == nil
		if res.success {
			cp := sentRoots
			c.oldRoots = &cp
			c.oldSigs = append(c.oldSigs, r.Revision.RenterSignature)
			if !slices.Equal(r.Resp.Roots, c.model[st.Offset:st.Offset+st.Length]) {
				c.report("listing-mismatch", "sector roots RPC returned other roots than the contract holds", nil, nil)
			}
		}
	case "fund":
		accts := c.accountsOf(st)
		var deps []proto4.AccountDeposit
		for i, a := range accts {
			deps = append(deps, proto4.AccountDeposit{Account: a, Amount: types.NewCurrency64(st.Amounts[i%len(st.Amounts)])})
		}
		switch bad {
		case "empty-deposits":
			deps = nil
		case "zero-amount":
			deps[0].Amount = types.ZeroCurrency
		case "zero-account":
			deps[0].Account = proto4.Account{}
		case "amount-exceeds-payout":
			deps[0].Amount = contract.Revision.RenterOutput.Value.Add(types.NewCurrency64(1))
		}
		payout := contract.Revision.RenterOutput.Value
		one, half := types.NewCurrency64(1), types.NewCurrency(0, 1<<63)
		mk := func(amounts ...types.Currency) {
			deps = nil
			for i, a := range amounts {
				deps = append(deps, proto4.AccountDeposit{Account: c.fresh[i], Amount: a})
			}
		}
		switch bad {
		case "overflow-mid":
			mk(types.MaxCurrency, one, one)
		case "overflow-last":
			mk(one, types.MaxCurrency)
		case "overflow-halves":
			mk(half, half.Add(types.NewCurrency64(5)))
		case "overflow-single-max":
			mk(types.MaxCurrency)
		case "sum-exceeds-payout":
			mk(payout, one)
		case "sum-exceeds-payout-split":
			h := payout.Div64(2).Add(one)
			mk(h, h)
		}
		call := rhplab.FundCall{Contract: contract, Deposits: deps}
		r2 := c.round2(bad)
		var sentFund proto4.RPCFundAccountsRequest
		call.MutReq = func(req *proto4.RPCFundAccountsRequest, honest types.V2FileContract) {
			switch {
			case r2 != nil:
				req.RenterSignature, _ = r2(honest, c.cs.ContractSigHash(honest))
			case bad == "zero-contract-id":
				req.ContractID = types.FileContractID{}
			case bad == "amount-exceeds-payout":
				req.RenterSignature = c.randSig() // the renter cannot even build the revision
			case req.RenterSignature == (types.Signature{}):
				// core refuses to build the revision: sign what wrap-around arithmetic gives
				req.RenterSignature = c.lab.RenterKey.SignHash(c.cs.ContractSigHash(honest))
			case bad == "replay-request" && c.oldFund != nil:
				*req = *c.oldFund
			case bad == "replay-request":
				req.RenterSignature = c.randSig()
			}
			sentFund = *req
			sentFund.Deposits = slices.Clone(req.Deposits)
		}
		r := c.raw.Fund(c.cs, call)
		res.err, res.success = r.Err, r.Err == nil
		if res.success {
			res.deposits, res.reported = slices.Clone(sentFund.Deposits), slices.Clone(r.Resp.Balances)
			cp := sentFund
			c.oldFund = &cp
			c.oldSigs = append(c.oldSigs, r.Revision.RenterSignature)
		}
	case "replenish-accounts", "replenish-pools":
		pools := st.RPC == "replenish-pools"
		call := rhplab.ReplenishCall{Pools: pools, Contract: contract, Accounts: c.accountsOf(st), Target: types.NewCurrency64(st.Target), Round2: c.round2(bad)}
		if call.Round2 != nil {
			// a round-2 corruption needs a round 2: aim above every listed balance
			acc, pool := c.lab.Balances(call.Accounts, call.Accounts)
			if pools {
				acc = pool
			}
			for _, b := range acc {
				if b.Cmp(call.Target) >= 0 {
					call.Target = b.Add(types.NewCurrency64(st.Target))
				}
			}
		}
		payout := contract.Revision.RenterOutput.Value
		switch bad {
		case "overflow-target":
			// two empty accounts, target 2^127+1: the deposits sum to 2^128+2, i.e. 2 after wrap-around
			call.Accounts, call.Target = c.fresh[:2], types.NewCurrency(1, 1<<63)
		case "overflow-target-max":
			call.Accounts, call.Target = c.fresh[:3], types.MaxCurrency
		case "target-exceeds-payout":
			call.Accounts, call.Target = c.fresh[:1], payout.Add(types.NewCurrency64(1))
		case "targets-exceed-payout-split":
			call.Accounts, call.Target = c.fresh[:2], payout.Div64(2).Add(types.NewCurrency64(1))
		}
		if len(bad) > 6 && (bad[:6] == "overfl" || bad[:6] == "target") && bad != "target-zero" && call.Round2 == nil {
			// sign whatever wrap-around arithmetic yields, even where core refuses
			call.Round2 = func(rev types.V2FileContract, h types.Hash256) (types.Signature, bool) {
				return c.lab.RenterKey.SignHash(h), true
			}
		}
		switch bad {
		case "target-zero":
			call.Target = types.ZeroCurrency
		case "empty-accounts":
			call.Accounts = nil
		case "zero-account":
			call.Accounts = append(slices.Clone(call.Accounts), proto4.Account{})
		}
		var sentRepl proto4.RPCReplenishAccountsRequest
		call.MutReq = func(req *proto4.RPCReplenishAccountsRequest) {
			if sig, ok := c.badChallenge(bad, contract.Revision.RevisionNumber, func(id types.FileContractID, n uint64) types.Hash256 {
				q := *req
				q.ContractID = id
				return q.ChallengeSigHash(n)
			}); ok {
				req.ChallengeSignature = sig
			}
			switch bad {
			case "chal-other-target":
				q := *req
				q.Target = q.Target.Add(types.NewCurrency64(1))
				req.ChallengeSignature = c.lab.RenterKey.SignHash(q.ChallengeSigHash(contract.Revision.RevisionNumber))
			case "chal-other-accounts":
				q := *req
				q.Accounts = append([]proto4.Account{c.accts[3]}, q.Accounts...)
				req.ChallengeSignature = c.lab.RenterKey.SignHash(q.ChallengeSigHash(contract.Revision.RevisionNumber))
			case "replay-request":
				if old := c.oldRepl[pools]; old != nil {
					*req = *old
				} else {
					req.ChallengeSignature = c.randSig()
				}
			}
			sentRepl = *req
			sentRepl.Accounts = slices.Clone(req.Accounts)
		}
		r := c.raw.Replenish(c.cs, call)
		done(r.Stage, r.Err)
		if res.success && !r.NoCost {
			cp := sentRepl
			c.oldRepl[pools] = &cp
			c.oldSigs = append(c.oldSigs, r.Revision.RenterSignature)
		}
	case "renew", "refresh-full", "refresh-partial", "form-contract":
		kind := map[string]rhplab.RenewKind{"renew": rhplab.KindRenew, "refresh-full": rhplab.KindRefreshFull, "refresh-partial": rhplab.KindRefreshPartial, "form-contract": rhplab.KindForm}[st.RPC]
		call := rhplab.RenewCall{Kind: kind, Existing: contract, Prices: c.prices, Allowance: types.Siacoins(300), Collateral: types.Siacoins(100), ProofHeight: contract.Revision.ProofHeight + 200}
		if kind == rhplab.KindForm {
			call.ProofHeight = c.lab.CM.Tip().Height + 300
		}
		if len(bad) > 5 && bad[:5] == "pool-" {
			if err := c.sabotage(bad, &call); err != nil {
				res.err = err
				return
			}
		}
		if p, ok := c.badPrices(bad); ok {
			call.Prices = p
		}
		switch bad {
		case "proof-height-not-higher":
			call.ProofHeight = contract.Revision.ProofHeight
		case "allowance-zero":
			call.Allowance = types.ZeroCurrency
		}
		number := contract.Revision.RevisionNumber
		call.MutRenew = func(q *proto4.RPCRenewContractRequest) {
			switch bad {
			case "chal-random":
				q.ChallengeSignature = c.randSig()
			case "chal-stale":
				q.ChallengeSignature = c.lab.RenterKey.SignHash(q.ChallengeSigHash(number - 1))
			case "minerfee-zero":
				q.MinerFee = types.ZeroCurrency
			case "basis-zero":
				q.Basis = types.ChainIndex{}
			case "pool-bad-proof":
				corruptProof(q.RenterInputs)
			}
		}
		call.MutRefresh = func(q *proto4.RPCRefreshContractRequest) {
			switch bad {
			case "chal-random":
				q.ChallengeSignature = c.randSig()
			case "chal-stale":
				q.ChallengeSignature = c.lab.RenterKey.SignHash(q.ChallengeSigHash(number - 1))
			case "minerfee-zero":
				q.MinerFee = types.ZeroCurrency
			case "pool-bad-proof":
				corruptProof(q.RenterInputs)
			}
		}
		call.MutForm = func(q *proto4.RPCFormContractRequest) {
			switch bad {
			case "minerfee-zero":
				q.MinerFee = types.ZeroCurrency
			case "pool-bad-proof":
				corruptProof(q.RenterInputs)
			}
		}
		call.Round2 = func(renewalSig, contractSig *types.Signature) bool {
			switch bad {
			case "renewal-sig-random":
				*renewalSig = c.randSig()
			case "contract-sig-random":
				*contractSig = c.randSig()
			case "sigs-swapped":
				*renewalSig, *contractSig = *contractSig, *renewalSig
			}
			return true
		}
		r := c.raw.Renew(c.cs, call)
		done(r.Stage, r.Err)
		if isInc(r.Err) {
			res.harness = r.Err
		} else if r.Err != nil && r.Stage == rhplab.StageDial && strings.HasPrefix(r.Err.Error(), "renter cannot") {
			// the renter's own wallet could not fund the request: nothing was sent
			res.harness = inconclusive("%v", r.Err)
		}
	default:
		res.err = fmt.Errorf("unknown rpc %q", st.RPC)
	}
	return
}

// step executes one step and judges it.
// needsFresh reports whether a corruption works on never-used accounts.
func needsFresh(bad string) bool {
	switch bad {
	case "overflow-mid", "overflow-last", "overflow-halves", "overflow-single-max", "sum-exceeds-payout", "sum-exceeds-payout-split",
		"overflow-target", "overflow-target-max", "target-exceeds-payout", "targets-exceed-payout-split":
		return true
	}
	return false
}

// pseudo executes the steps that only move the scenario along.
func (c *c08) pseudo(st c08Step) (bool, error) {
	switch st.RPC {
	case "mine":
		if err := c.lab.Mine(types.VoidAddress, int(st.Length)); err != nil {
			return true, inconclusive("mine: %v", err)
		}
		c.cs = c.lab.CM.TipState()
		c.aud.cs = c.cs
		if st.Fresh {
			p, err := c.lab.HostPrices(c.cl)
			if err != nil {
				return true, inconclusive("RPCSettings: %v", err)
			}
			c.prices, c.stale = p, ""
		}
		c.r.Count("blocks_mined_in_scenarios", int(st.Length))
		return true, nil
	case "set-prices":
		// the host changes its settings; the signed table in use stays valid
		if len(st.Batch) != 1 {
			return true, inconclusive("set-prices needs a factor")
		}
		if err := c.lab.SetPriceFactor(st.Batch[0]); err != nil {
			return true, inconclusive("%v", err)
		}
		c.stale = st.Batch[0]
		c.r.Count("settings_changes", 1)
		if st.Fresh {
			p, err := c.lab.HostPrices(c.cl)
			if err != nil {
				return true, inconclusive("RPCSettings: %v", err)
			}
			c.prices, c.stale = p, ""
		}
		return true, nil
	case "form":
		return true, c.newContractFor(st.Length)
	case "select":
		if c.active != nil {
			c.contract, c.active = *c.active, nil
		}
		if k := int(st.Offset); k > 0 {
			if k > len(c.prev) {
				return true, inconclusive("select: no renewed-away contract %d", k)
			}
			cur := c.contract
			c.active = &cur
			c.contract = c.prev[len(c.prev)-k]
		}
		return true, nil
	}
	return false, nil
}

func (c *c08) step(st c08Step) error {
	c.steps = append(c.steps, st)
	c.cur = &c.steps[len(c.steps)-1]
	if done, err := c.pseudo(st); done {
		return err
	}
	if st.Fault && st.Bad == "" {
		return c.faultStep(st)
	}
	if st.RPC == "publish" || st.RPC == "reorg" {
		return c.chainStep(st)
	}
	if err := c.quiesce(); err != nil {
		return err
	}
	if needsFresh(st.Bad) || slices.ContainsFunc(st.Accounts, func(i int) bool { return i >= len(c.accts) }) {
		c.fresh = c.freshAccounts(3)
	}
	panics0 := c.lab.HostPanics()
	pre, err := c.snapshot()
	if err != nil {
		return inconclusive("pre-snapshot: %v", err)
	}
	c.contract.Revision = pre.State.Revision
	seq0 := c.lab.Log.Seq()
	c.injected = map[types.TransactionID]bool{}
	spendable0, pool0 := c.lab.HostSpendable(), c.lab.PoolIDs()
	res := c.do(st)
	if err := c.quiesce(); err != nil {
		return err
	}
	if res.harness != nil {
		return res.harness
	}
	// every handler has returned: a contract lock still held now is held for ever
	if held := c.lab.Log.HeldLocks(); len(held) > 0 {
		c.r.Eval()
		c.aud.audit()
		for id := range held {
			c.lab.Log.ForgetLock(id)
		}
		what := "a well-formed RPC"
		if st.Bad != "" {
			what = "a refused request"
			c.r.Count("bad_requests", 1)
		}
		c.report("contract-lock-left-held:"+st.RPC+":"+st.Bad, what+" left the contract locked although its handler has returned: every later RPC on the contract is refused as already locked", nil, map[string]any{"renter_error": errText(res.err), "contracts": len(held)})
		c.lab.Mux.Forget(c.lab.Mux.Streams())
		c.lab.Log.Trim(c.aud.seq)
		return c.newContract()
	}
	post, err := c.snapshot()
	if err != nil {
		return inconclusive("post-snapshot: %v", err)
	}
	c.r.Eval()
	commits := c.aud.audit()
	writes := 0
	for _, ev := range c.lab.Log.Since(seq0) {
		switch ev.Kind {
		case rhplab.EvDebit, rhplab.EvStoreSector, rhplab.EvAttach, rhplab.EvDetach:
			writes++
		}
	}
	label := st.RPC + ":" + st.Bad
	if st.Bad != "" {
		c.r.Count("bad_requests", 1)
		c.r.SetAdd("bad_table", label)
		c.r.Distinct(label)
		if len(c.steps)%37 == 0 {
			c.r.Sample(map[string]any{"worker": c.worker, "step": st, "host_answer": errText(res.err), "persisting_calls": len(commits), "state_unchanged": post.equal(pre)})
		}
		if res.success {
			c.report("bad-request-succeeded:"+label, "a request built to be invalid completed successfully", nil, map[string]any{"pre": pre, "post": post})
		}
		if n := c.lab.HostPanics() - panics0; n > 0 {
			// tolerated as a way of saying no, provided nothing changed (judged below)
			c.r.Count("handler_panics_on_bad_requests", n)
			c.r.SetAdd("panicking_bad_requests", label)
		}
		if st.Bad == "not-revisable" {
			c.r.Count("not_revisable_requests", 1)
			c.r.SetAdd("not_revisable_heights", fmt.Sprintf("%s@%+d", st.RPC, int64(c.lab.CM.Tip().Height)-int64(pre.State.Revision.ProofHeight)))
		}
		for _, ev := range commits {
			if ev.Err == "" && ev.Kind != rhplab.EvRenewContract && ev.Kind != rhplab.EvAddContract {
				// it did commit: the consensus oracle is evaluated at this very tip
				if err := acceptableToConsensus(c.lab, ev.ContractID, ev.Revision); err != nil {
					var inc errInconclusive
					if !errors.As(err, &inc) {
						c.report("consensus-rejects-latest-revision:"+st.RPC, err.Error(), &ev, map[string]any{"tip": c.lab.CM.Tip().Height, "proof_height": ev.Revision.ProofHeight})
					}
				}
				break
			}
		}
		if len(commits) > 0 || writes > 0 {
			c.report("bad-request-persisted:"+label, fmt.Sprintf("a request built to be invalid caused %d persisting calls and %d balance/sector writes", len(commits), writes), nil, nil)
		}
		// a refused request leaves the host's wallet and pool as they were
		// (apart from what the renter itself broadcast meanwhile)
		spendable1, pool1 := c.lab.HostSpendable(), c.lab.PoolIDs()
		// (outputs may be added when a block mined during the step matures an
		// earlier contract payout; none may be lost)
		lost := 0
		for id := range spendable0 {
			if !spendable1[id] {
				lost++
			}
		}
		if lost > 0 {
			c.report("bad-request-changed-host-wallet:"+label, fmt.Sprintf("%d of the host wallet's %d spendable outputs are no longer spendable after a refused request: inputs not released, or spent", lost, len(spendable0)), nil, nil)
		}
		for id := range pool1 {
			if !pool0[id] && !c.injected[id] {
				c.report("bad-request-left-pool-transaction:"+label, "the host's pool holds a transaction that neither was there before the refused request nor was broadcast by the renter", nil, map[string]any{"txid": id})
				break
			}
		}
		if len(st.Bad) > 5 && st.Bad[:5] == "pool-" {
			c.r.Count("pool_rejected_requests", 1)
			c.r.SetAdd("pool_rejections", label)
			if st.RPC != "form-contract" {
				if lr, err := c.raw.LatestRevision(c.contract.ID); err != nil || lr.Contract != pre.State.Revision || lr.Revisable != pre.State.Revisable || lr.Renewed != pre.State.Renewed {
					c.report("latest-revision-changed:"+label, "RPCLatestRevision differs after a request the host's pool rejected", nil, map[string]any{"before": pre.State, "after": lr, "error": errText(err)})
				}
				if err := c.quiesce(); err != nil {
					return err
				}
			}
			// flush whatever the renter broadcast so that later steps start clean
			if err := c.lab.Mine(types.VoidAddress, 1); err != nil {
				return inconclusive("mine: %v", err)
			}
			c.cs = c.lab.CM.TipState()
			c.aud.cs = c.cs
		}
		if !post.equal(pre) {
			c.report("bad-request-changed-state:"+label, "a request built to be invalid changed "+fmt.Sprint(pre.diff(post)), nil, map[string]any{"pre": pre, "post": post, "renter_error": errText(res.err)})
		} else {
			c.r.Count("bad_requests_changed_nothing", 1)
		}
		if re := hostErr(res.err); re != nil {
			c.r.SetAdd("host_error_texts", re.Description)
		}
		if !post.State.Equal(pre.State) {
			// do not let a corrupted contract cascade into later steps
			if err := c.newContract(); err != nil {
				return err
			}
			c.lab.Mux.Forget(c.lab.Mux.Streams())
			c.lab.Log.Trim(c.aud.seq)
			return nil
		}
		if debugAttempts {
			fmt.Printf("bad %-40s -> %v\n", label, res.err)
		}
		if st.Bad != "not-revisable" && c.active == nil && !c.following {
			// a refused request changes nothing: a well-formed RPC on the same
			// contract is served right afterwards
			c.lab.Mux.Forget(c.lab.Mux.Streams())
			c.lab.Log.Trim(c.aud.seq)
			c.following = true
			c.afterRefusal = label
			next := c.genGood(c.rng, "fund")
			if len(c.steps)%3 == 0 {
				next = c08Step{RPC: "append", Batch: []string{"new"}}
			}
			err := c.step(next)
			c.following = false
			return err
		}
	} else {
		c.r.Count("good_requests_"+st.RPC, 1)
		if st.RPC == "fund" && res.success {
			c.fundOracle(st, res, pre, post)
		}
		if n := c.lab.HostPanics() - panics0; n > 0 {
			c.r.Count("handler_panics_on_good_requests", n)
		}
		switch {
		case !res.success && c.afterChain != "":
			c.report("rpc-refused-after-chain-event:"+c.afterChain, "after the chain confirmed or un-confirmed a revision of the contract, a well-formed "+st.RPC+" built on the host's true latest revision is not served: "+errText(res.err), nil, nil)
		case res.success && c.afterChain != "":
			c.r.Count("served_after_chain_event", 1)
		case !res.success && c.afterRefusal != "":
			c.report("rpc-refused-after-refusal:"+c.afterRefusal, "after a refused request a well-formed "+st.RPC+" on the same contract is not served: "+errText(res.err), nil, nil)
		case res.success && c.afterRefusal != "":
			c.r.Count("served_after_refusal", 1)
			c.r.Count("served_after_refusal_"+refusalReason(c.afterRefusal), 1)
			c.r.SetAdd("refusal_reasons_followed_up", c.afterRefusal)
		case !res.success && c.afterFault != "":
			c.report("rpc-after-store-fault-failed:"+c.afterFault, "after an RPC whose persisting call failed, an ordinary RPC on the same contract no longer succeeds from the stored revision: "+errText(res.err), nil, map[string]any{"stored": pre.State.Revision})
		case !res.success && c.stale != "":
			c.report("rpc-refused-under-valid-signed-prices:"+st.RPC, "after the host changed its settings (prices "+c.stale+") a well-formed RPC priced by the still valid host-signed table fails: "+errText(res.err), nil, nil)
		case !res.success:
			c.r.Count("unexpected_failures", 1)
			c.r.Inconclusive(fmt.Sprintf("well-formed %s failed: %v (step %+v)", st.RPC, res.err, st))
		case c.afterFault != "":
			c.r.Count("rpcs_succeeded_after_store_fault", 1)
		}
	}
	if st.Bad == "" && res.success && c.stale != "" && okCommitsOf(commits) > 0 {
		c.r.Count("commits_priced_by_older_signed_table", 1)
		c.r.Distinct("stale-table:" + st.RPC + ":" + c.stale)
	}
	c.afterFault = ""
	c.afterRefusal = ""
	if st.Bad == "" {
		c.afterChain = ""
	}
	// after every commit: host state is the committed revision, and consensus accepts it
	okCommits := 0
	for _, ev := range commits {
		if ev.Err == "" {
			okCommits++
		}
	}
	if okCommits > 0 {
		c.r.Count("commits", okCommits)
		last := commits[len(commits)-1]
		switch last.Kind {
		case rhplab.EvAddContract:
			// a formation next to the current contract: it must confirm
			if err := c.lab.Mine(types.VoidAddress, 1); err != nil {
				return inconclusive("mine formation: %v", err)
			}
			if _, fce, err := c.lab.Contractor.V2FileContractElement(last.ContractID); err != nil {
				c.report("formation-not-confirmable", "the formation transaction the host persisted did not confirm in the next block", &last, nil)
			} else if stripSigs(fce.V2FileContract) != stripSigs(last.Revision) {
				c.report("formation-confirmed-differs", "the confirmed contract differs from the one handed to the Contractor", &last, nil)
			}
			c.cs = c.lab.CM.TipState()
			c.aud.cs = c.cs
			c.r.Count("formations_confirmed", 1)
		case rhplab.EvRenewContract:
			// confirm the renewal, then carry on with the renewed contract
			if err := c.lab.Mine(types.VoidAddress, 1); err != nil {
				return inconclusive("mine renewal: %v", err)
			}
			newID := last.ContractID
			if _, fce, err := c.lab.Contractor.V2FileContractElement(newID); err != nil {
				c.report("renewal-not-confirmable:"+st.RPC, "the renewal transaction the host persisted did not confirm in the next block", &last, nil)
			} else if stripSigs(fce.V2FileContract) != stripSigs(last.Revision) {
				c.report("renewal-confirmed-differs:"+st.RPC, "the confirmed renewed contract differs from the one handed to the Contractor", &last, nil)
			}
			// the successor carries over exactly the predecessor's roots
			if succ, err := c.lab.State(newID); err == nil {
				if !slices.Equal(succ.Roots, pre.State.Roots) {
					c.report("successor-roots-differ:"+st.RPC, fmt.Sprintf("the renewed contract holds %d roots, its predecessor %d", len(succ.Roots), len(pre.State.Roots)), &last, nil)
				} else if err := succ.CheckRoots(); err != nil {
					c.report("roots-vs-revision:"+st.RPC, "the renewed contract's roots do not match its revision: "+err.Error(), &last, nil)
				} else {
					c.r.Count("successor_roots_checked", 1)
				}
			}
			c.staleRev, c.formedAt = nil, c.lab.CM.Tip().Height
			c.prevIDs = append(c.prevIDs, c.contract.ID)
			c.prev = append(c.prev, rhp.ContractRevision{ID: c.contract.ID, Revision: pre.State.Revision})
			c.contract = rhp.ContractRevision{ID: newID, Revision: last.Revision}
			c.cs = c.lab.CM.TipState()
			c.aud.cs = c.cs
			c.oldRevs, c.oldSigs, c.oldChal, c.oldRoots, c.oldFund = nil, nil, nil, nil, nil
			c.oldRepl = map[bool]*proto4.RPCReplenishAccountsRequest{}
			c.r.Count("renewals_confirmed", 1)
		default:
			if tr := c.aud.tracks[c.contract.ID]; tr != nil && tr.rev != post.State.Revision {
				c.report("host-state-not-last-commit", "the host's latest revision is not the last revision it persisted", &last, map[string]any{"host": post.State.Revision, "log": tr.rev})
			}
			if err := acceptableToConsensus(c.lab, c.contract.ID, post.State.Revision); err != nil {
				var inc errInconclusive
				if errors.As(err, &inc) {
					return err
				}
				c.report("consensus-rejects-latest-revision:"+st.RPC, err.Error(), &last, map[string]any{"revision": post.State.Revision})
			} else {
				c.r.Count("revision_txns_validated", 1)
				if d := int64(post.State.Revision.ProofHeight) - int64(c.lab.CM.Tip().Height); d <= 2 {
					c.r.Count("revision_txns_validated_within_2_of_proof_height", 1)
				}
			}
			c.oldRevs = append(c.oldRevs, pre.State.Revision)
			c.model = slices.Clone(post.State.Roots)
			c.contract.Revision = post.State.Revision
		}
	}
	c.lab.Mux.Forget(c.lab.Mux.Streams())
	c.lab.Log.Trim(c.aud.seq)
	return nil
}

// fundOracle: a fund RPC lowers the renter payout by exactly the deposited
// total, and exactly that total arrives on the accounts - per account the sum
// of all deposits naming it, also when one request names an account several
// times; the balances the host answers are the real ones.
func (c *c08) fundOracle(st c08Step, res c08Result, pre, post snap) {
	var total types.Currency
	per := map[proto4.Account]types.Currency{}
	last := map[proto4.Account]types.Currency{}
	repeated := false
	for i, d := range res.deposits {
		total = total.Add(d.Amount)
		if _, seen := per[d.Account]; seen {
			repeated = true
		}
		per[d.Account] = per[d.Account].Add(d.Amount)
		if i < len(res.reported) {
			last[d.Account] = res.reported[i]
		}
	}
	detail := map[string]any{"deposits": res.deposits, "reported": res.reported}
	if paid := pre.State.Revision.RenterOutput.Value.Sub(post.State.Revision.RenterOutput.Value); !paid.Equals(total) {
		c.report("fund-payout-vs-deposits", fmt.Sprintf("the renter payout fell by %v, the deposits sum to %v", paid, total), nil, detail)
	}
	var grew types.Currency
	ok := len(res.reported) == len(res.deposits)
	for i, a := range c.accounts {
		d := post.Acc[i].Sub(min64(pre.Acc[i], post.Acc[i]))
		grew = grew.Add(d)
		if want := per[a]; !d.Equals(want) || post.Acc[i].Cmp(pre.Acc[i]) < 0 {
			ok = false
			detail["account"], detail["credited"], detail["deposited"] = a, d, want
		}
		if rep, named := last[a]; named && !rep.Equals(post.Acc[i]) {
			c.report("fund-response-balances-wrong", fmt.Sprintf("the host answered balance %v for an account that holds %v", rep, post.Acc[i]), nil, detail)
		}
	}
	if !ok || !grew.Equals(total) {
		sig := "fund-credits-differ-from-deposits"
		if repeated {
			sig += ":repeated-account"
		}
		c.report(sig, fmt.Sprintf("accounts grew by %v in total, the deposits (and the renter's payment) sum to %v", grew, total), nil, detail)
	} else {
		c.r.Count("fund_credits_checked", 1)
		if repeated {
			c.r.Count("fund_requests_with_repeated_account", 1)
		}
	}
}

// locksReleased reports a violation if a contract lock is still held at the
// barrier (all handlers have returned) and forgets it.
func (c *c08) locksReleased(label string) bool {
	held := c.lab.Log.HeldLocks()
	if len(held) == 0 {
		return true
	}
	for id := range held {
		c.lab.Log.ForgetLock(id)
	}
	c.report("contract-lock-left-held:"+label, "a contract lock is still held although every handler has returned", nil, map[string]any{"contracts": len(held)})
	return false
}

// refusalReason is the corruption class of a label "rpc:bad" (family before the first dash).
func refusalReason(label string) string {
	if i := strings.IndexByte(label, ':'); i >= 0 {
		label = label[i+1:]
	}
	if i := strings.IndexByte(label, '-'); i >= 0 {
		return label[:i]
	}
	return label
}

func okCommitsOf(commits []rhplab.Event) (n int) {
	for _, ev := range commits {
		if ev.Err == "" {
			n++
		}
	}
	return
}

var persistingKinds = []string{rhplab.EvRevise, rhplab.EvCreditAccounts, rhplab.EvCreditPools, rhplab.EvAddContract, rhplab.EvRenewContract}

// faultStep issues a well-formed RPC while the host's store fails the call
// that would persist its revision. A host signature must never leave the host
// for a revision it did not persist: the renter gets an error, no host message
// of the exchange carries the signature of the revision that was not stored,
// nothing changes, and the next ordinary RPC works from the stored revision.
// (The converse - persisted, but the renter never saw the signature - is fine.)
func (c *c08) faultStep(st c08Step) error {
	if err := c.quiesce(); err != nil {
		return err
	}
	pre, err := c.snapshot()
	if err != nil {
		return inconclusive("pre-snapshot: %v", err)
	}
	c.contract.Revision = pre.State.Revision
	c.injected = map[types.TransactionID]bool{}
	pool0 := c.lab.PoolIDs()
	disarm := c.lab.Log.FailNext(persistingKinds...)
	res := c.do(st)
	// the fault stays armed until the handler has returned: a host that answers
	// first and persists afterwards must still meet it
	if err := c.quiesce(); err != nil {
		disarm()
		return err
	}
	fired := disarm()
	if res.harness != nil {
		return res.harness
	}
	post, err := c.snapshot()
	if err != nil {
		return inconclusive("post-snapshot: %v", err)
	}
	c.r.Eval()
	commits := c.aud.audit()
	label := st.RPC
	if !fired {
		// the RPC never reached a persisting call (e.g. nothing to replenish)
		c.r.Count("store_faults_not_reached", 1)
		c.contract.Revision = post.State.Revision
		c.model = slices.Clone(post.State.Roots)
		return nil
	}
	c.r.Count("store_faults_injected", 1)
	c.r.SetAdd("store_fault_kinds", label)
	c.r.Distinct("store-fault:" + label)
	detail := map[string]any{"renter_result": errText(res.err), "pre": pre.State.Revision.RevisionNumber, "post": post.State.Revision.RevisionNumber}
	for i := range commits {
		ev := &commits[i]
		if !ev.Injected {
			if ev.Err == "" {
				c.report("persisted-despite-store-fault:"+label, "a second persisting call went through in an RPC whose store call failed", ev, detail)
			}
			continue
		}
		// no host message of the exchange may carry a host signature over what was not stored
		sigs := map[string]types.Signature{"revision": ev.Revision.HostSignature}
		if ev.Renewal != nil {
			sigs["renewal"], sigs["renewed contract"] = ev.Renewal.HostSignature, ev.Renewal.NewContract.HostSignature
		}
		if stm := c.lab.Mux.Stream(ev.Stream); stm != nil {
			for _, run := range stm.Runs() {
				if run.Dir != rhplab.DirOut {
					continue
				}
				for what, sig := range sigs {
					if sig != (types.Signature{}) && bytes.Contains(run.Data, sig[:]) {
						c.report("signature-released-for-unpersisted-revision:"+label, "the host sent its signature over the "+what+" although persisting it failed; the host still holds the previous state", ev, detail)
					}
				}
			}
		}
	}
	if res.success {
		c.report("success-after-failed-persist:"+label, "the RPC completed successfully for the renter although the host could not persist its result", nil, detail)
	}
	if !post.equal(pre) {
		c.report("store-fault-changed-state:"+label, "an RPC whose persisting call failed changed "+fmt.Sprint(pre.diff(post)), nil, map[string]any{"pre": pre, "post": post})
	} else {
		c.r.Count("store_faults_changed_nothing", 1)
	}
	creating := st.RPC == "renew" || st.RPC == "refresh-full" || st.RPC == "refresh-partial" || st.RPC == "form-contract"
	if creating {
		// observation only: the handlers add the transaction set to the pool before persisting
		for id := range c.lab.PoolIDs() {
			if !pool0[id] {
				c.r.Count("pool_transactions_left_after_store_fault", 1)
				break
			}
		}
	}
	c.lab.Mux.Forget(c.lab.Mux.Streams())
	c.lab.Log.Trim(c.aud.seq)
	if !post.State.Equal(pre.State) {
		return c.newContract()
	}
	// the next ordinary RPC works from the stored revision
	next := c08Step{RPC: st.RPC, Accounts: st.Accounts, Amounts: st.Amounts, Target: st.Target}
	switch {
	case creating:
		next = c.genGood(c.rng, "fund")
	case st.RPC == "replenish-accounts" || st.RPC == "replenish-pools":
		next.Target = st.Target
	default:
		next = c.genGood(c.rng, st.RPC)
	}
	c.afterFault = label
	if err := c.step(next); err != nil {
		return err
	}
	if creating {
		// the set the host put into its pool before persisting would be mined: move on
		return c.newContract()
	}
	return nil
}

// ---------------------------------------------------------------------------
// sequence generation

func (c *c08) genGood(rng *rand.Rand, rpc string) c08Step {
	st := c08Step{RPC: rpc}
	n := len(c.model)
	if n == 0 && (rpc == "free" || rpc == "roots") {
		return c08Step{RPC: "append", Batch: []string{"new", "new"}}
	}
	switch rpc {
	case "fund":
		k := 1 + rng.IntN(4)
		for i := 0; i < k; i++ {
			st.Accounts = append(st.Accounts, rng.IntN(6)) // 0-3 standing accounts, 4-5 fresh ones; repeats happen
			st.Amounts = append(st.Amounts, 1+rng.Uint64N(5_000_000))
		}
	case "replenish-accounts", "replenish-pools":
		k := 1 + rng.IntN(3)
		st.Accounts = rng.Perm(4)[:k]
		st.Target = 1_000_000 + rng.Uint64N(1<<40)
	case "append":
		st.Batch = make([]string, 1+rng.IntN(3))
		for i := range st.Batch {
			st.Batch[i] = []string{"new", "new", "dup", "unk"}[rng.IntN(4)]
		}
	case "free":
		k := 1 + rng.IntN(min(n, 3))
		st.Indices = u64s(rng.Perm(n)[:k]...)
	case "roots":
		st.Offset = rng.Uint64N(uint64(n))
		st.Length = 1 + rng.Uint64N(uint64(n)-st.Offset)
	}
	return st
}

func (c *c08) pickRPC(rng *rand.Rand) string {
	n := len(c.model)
	for {
		rpc := []string{"fund", "replenish-accounts", "replenish-pools", "append", "append", "free", "roots", "latest"}[rng.IntN(8)]
		if (rpc == "free" || rpc == "roots") && n == 0 {
			continue
		}
		if rpc == "append" && n >= 8 {
			continue
		}
		return rpc
	}
}

func (c *c08) runSequential(nsteps int, table bool) error {
	// (1) the full corruption table, each entry preceded by enough good steps
	// to have replay material and sectors
	if table {
		for _, rpc := range []string{"append", "fund", "replenish-accounts", "replenish-pools", "roots", "free"} {
			for i := 0; i < 3; i++ {
				if err := c.step(c.genGood(c.rng, rpc)); err != nil {
					return err
				}
			}
		}
		for _, rpc := range []string{"free", "append", "roots", "fund", "replenish-accounts", "replenish-pools", "latest"} {
			for _, bad := range c08Bad[rpc] {
				if (rpc == "free" || rpc == "roots") && len(c.model) < 2 {
					if err := c.step(c08Step{RPC: "append", Batch: []string{"new", "new"}}); err != nil {
						return err
					}
				}
				st := c.genGood(c.rng, rpc)
				st.Bad = bad
				if err := c.step(st); err != nil {
					return err
				}
				// a good step of the same kind right after: the failed attempt must not have poisoned anything
				if rpc != "latest" {
					if (rpc == "free" || rpc == "roots") && len(c.model) < 2 {
						if err := c.step(c08Step{RPC: "append", Batch: []string{"new", "new"}}); err != nil {
							return err
						}
					}
					if err := c.step(c.genGood(c.rng, rpc)); err != nil {
						return err
					}
				}
			}
		}
		for _, rpc := range []string{"form-contract", "renew", "refresh-full", "refresh-partial"} {
			for _, bad := range c08Bad[rpc] {
				if err := c.step(c08Step{RPC: rpc, Bad: bad}); err != nil {
					return err
				}
				if len(bad) > 5 && bad[:5] == "pool-" {
					// the contract the pool-rejected request was about is still the live one:
					// ordinary RPCs succeed and yield consensus-valid revisions
					for _, next := range []c08Step{c.genGood(c.rng, "fund"), {RPC: "append", Batch: []string{"new"}}} {
						if err := c.step(next); err != nil {
							return err
						}
					}
				}
			}
			if err := c.step(c08Step{RPC: rpc}); err != nil {
				return err
			}
			if err := c.step(c.genGood(c.rng, "fund")); err != nil {
				return err
			}
		}
	}
	// one fund request naming the same account several times, at every pair of
	// positions, mixed with accounts that never existed before
	if table {
		for _, accs := range [][]int{{0, 0}, {0, 1, 0}, {1, 0, 0}, {0, 0, 1}, {0, 0, 0}, {0, 1, 2, 0}, {0, 1, 0, 1}, {4, 0, 4}, {0, 4, 5, 4}, {4, 4}, {4, 5, 6, 4, 5}, {2, 4, 2, 4, 2}} {
			amounts := make([]uint64, len(accs))
			for i := range amounts {
				amounts[i] = 2 + uint64(i) + c.rng.Uint64N(1000)
			}
			if err := c.step(c08Step{RPC: "fund", Accounts: accs, Amounts: amounts}); err != nil {
				return err
			}
			c.r.Distinct(fmt.Sprintf("fund-shape:%v", accs))
		}
	}
	// store faults: every RPC kind with its persisting call failing
	if table {
		for _, rpc := range []string{"fund", "replenish-accounts", "replenish-pools", "append", "free", "roots", "form-contract", "renew", "refresh-full", "refresh-partial"} {
			for rep := 0; rep < 2; rep++ {
				st := c08Step{RPC: rpc}
				switch rpc {
				case "form-contract", "renew", "refresh-full", "refresh-partial":
				case "replenish-accounts", "replenish-pools":
					st = c08Step{RPC: rpc, Accounts: []int{rep, 2}, Target: 1<<45 + uint64(len(c.steps))<<24}
				default:
					if (rpc == "free" || rpc == "roots") && len(c.model) < 2 {
						if err := c.step(c08Step{RPC: "append", Batch: []string{"new", "new"}}); err != nil {
							return err
						}
					}
					st = c.genGood(c.rng, rpc)
				}
				st.Fault = true
				if err := c.step(st); err != nil {
					return err
				}
			}
		}
	}
	// (2) PRNG sequences
	for i := 0; i < nsteps; i++ {
		if i%17 == 5 {
			f := []string{"x0.5", "x2", "zero", "x1000", "x1"}[c.rng.IntN(5)]
			// now and then the renter also fetches a table with the new prices
			fresh := c.rng.IntN(4) == 0 && f != "x1000"
			if err := c.step(c08Step{RPC: "set-prices", Batch: []string{f}, Fresh: fresh}); err != nil {
				return err
			}
		}
		var st c08Step
		switch {
		case i%40 == 39:
			st = c08Step{RPC: []string{"renew", "refresh-full", "refresh-partial", "form-contract"}[c.rng.IntN(4)]}
		default:
			st = c.genGood(c.rng, c.pickRPC(c.rng))
		}
		if bads := c08Bad[st.RPC]; len(bads) > 0 && c.rng.IntN(3) == 0 {
			st.Bad = bads[c.rng.IntN(len(bads))]
		} else if st.RPC != "latest" && c.rng.IntN(16) == 0 {
			st.Fault = true
		}
		if err := c.step(st); err != nil {
			return err
		}
	}
	return nil
}

// revisingKinds issues one request of every revising RPC kind, well-formed
// and correctly signed; bad marks all of them as requests the host must refuse.
func (c *c08) revisingKinds(bad string, withRenewals bool) error {
	id := c.contract.ID
	kinds := []string{"fund", "replenish-accounts", "replenish-pools", "append", "free", "roots"}
	if withRenewals {
		kinds = append(kinds, "renew", "refresh-full", "refresh-partial")
	}
	for _, rpc := range kinds {
		var st c08Step
		switch rpc {
		case "renew", "refresh-full", "refresh-partial":
			st = c08Step{RPC: rpc}
		case "replenish-accounts", "replenish-pools":
			// always above the balances so that a deposit is due
			st = c08Step{RPC: rpc, Accounts: []int{c.rng.IntN(4)}, Target: 1<<41 + uint64(len(c.steps))<<20}
		default:
			st = c.genGood(c.rng, rpc)
		}
		st.Bad = bad
		if err := c.step(st); err != nil {
			return err
		}
		if c.contract.ID != id {
			return errScenarioOver // the contract had to be replaced: findings are reported, stop here
		}
	}
	return nil
}

var errScenarioOver = errors.New("scenario ended early")

func (c *c08) mineTo(height uint64, fresh bool) error {
	tip := c.lab.CM.Tip().Height
	if height <= tip {
		return nil
	}
	return c.step(c08Step{RPC: "mine", Length: height - tip, Fresh: fresh})
}

// runLifecycle walks one contract through its whole life: revisable until the
// block before its proof height, never again from the proof height on, with
// or without having been renewed / refreshed in between.
//
// Consensus accepts a revision only while the height of the block that would
// contain it is <= ProofHeight, i.e. while tip < ProofHeight.
func (c *c08) runLifecycle(variant string) error {
	err := c.lifecycle(variant)
	if errors.Is(err, errScenarioOver) {
		return nil
	}
	return err
}

func (c *c08) lifecycle(variant string) error {
	if err := c.step(c08Step{RPC: "form", Length: 26}); err != nil {
		return err
	}
	// append, then free some (not all): capacity stays above filesize, which is
	// what a refresh keeps and a renewal drops
	for _, st := range []c08Step{{RPC: "append", Batch: []string{"new", "new", "new", "new", "new"}}, {RPC: "free", Indices: []uint64{1, 3}}, {RPC: "fund", Accounts: []int{0, 1}, Amounts: []uint64{5000}}} {
		if err := c.step(st); err != nil {
			return err
		}
	}
	ph := c.contract.Revision.ProofHeight
	exp := c.contract.Revision.ExpirationHeight
	oldSelected := false
	switch variant {
	case "renew", "refresh-full", "refresh-partial":
		if err := c.step(c08Step{RPC: variant}); err != nil {
			return err
		}
		if len(c.prev) == 0 {
			return inconclusive("lifecycle: %s did not commit", variant)
		}
		// the old id, right after the renewal and long before its proof height
		if err := c.step(c08Step{RPC: "select", Offset: 1}); err != nil {
			return err
		}
		oldSelected = true
		if err := c.revisingKinds("not-revisable", true); err != nil {
			return err
		}
	}
	type stop struct {
		height    uint64
		revisable bool
		fresh     bool
	}
	stops := []stop{{ph - 2, true, true}, {ph - 1, true, true}, {ph, false, true}, {ph + 1, false, true}, {ph + 70, false, false}, {exp - 1, false, false}, {exp, false, false}, {exp + 1, false, false}, {exp + 3, false, false}}
	for _, sp := range stops {
		if err := c.mineTo(sp.height, sp.fresh); err != nil {
			return err
		}
		if oldSelected {
			// the renewed-away contract is refused at every height
			if err := c.revisingKinds("not-revisable", sp.height <= ph+1); err != nil {
				return err
			}
			// ... while its successor lives by its own proof height
			if err := c.step(c08Step{RPC: "select"}); err != nil {
				return err
			}
			nph := c.contract.Revision.ProofHeight
			bad := ""
			if c.lab.CM.Tip().Height >= nph {
				bad = "not-revisable"
			}
			if sp.height <= ph+1 || bad == "" {
				if err := c.revisingKinds(bad, false); err != nil {
					return err
				}
			}
			if err := c.step(c08Step{RPC: "select", Offset: 1}); err != nil {
				return err
			}
			continue
		}
		bad := ""
		if !sp.revisable {
			bad = "not-revisable"
		}
		if err := c.revisingKinds(bad, !sp.revisable && sp.height <= ph+1); err != nil {
			return err
		}
	}
	c.r.Count("lifecycles_completed", 1)
	return c.step(c08Step{RPC: "select"})
}

func runC08(r *mon.Run, replay string) {
	r.Rule("sequences of fund / replenish accounts / replenish pools / append / free / roots / latest-revision / renew / refresh (full, partial) RPCs through the raw renter, each well-formed or with exactly one field corrupted or replayed (table RPC x corruption: challenge random/foreign key/stale/future/other contract/replayed; price table expired/foreign/edited/unsigned; indices, ranges, deposits, targets out of range; round-2 signature random/foreign key/other number/other payout/stale base/replayed; whole earlier request replayed). Every call on the recording Contractor is checked pairwise against the predecessor revision and against core's ReviseFor*/RenewContract/Refresh* applied to the tapped request; corrupted requests must cause zero persisting calls, zero balance/sector writes and leave the snapshot byte-equal; after every commit {on-chain element, latest revision} must pass consensus.ValidateV2Transaction. Concurrent part: 2-8 clients on one contract. A case is non-trivial when the request was corrupted (distinct by RPC x corruption) or when two clients raced (distinct by interleaving signature)")
	r.Assume("EphemeralContractor (reference) behind the recording proxy; core's ReviseFor*, NewContract, RenewContract, Refresh*, ContractSigHash and consensus validation are the trusted base")
	r.Assume("price tables are valid for hours or expired by hours; wall-clock never decides")
	if replay != "" {
		guardRun(r, "replay", func() error { return c08Replay(r, replay) })
		return
	}
	r.Floor("commits", 200)
	r.Floor("bad_requests_changed_nothing", 100)
	r.Floor("revision_txns_validated", 100)
	r.Floor("renewals_confirmed", 3)
	r.Floor("concurrent_commits", 20)
	r.Floor("not_revisable_requests", 60)
	r.Floor("revision_txns_validated_within_2_of_proof_height", 10)
	r.Floor("lifecycles_completed", 3)
	r.Floor("pool_rejected_requests", 40)
	r.Floor("formations_confirmed", 2)
	r.Floor("contender_rounds", 12)
	r.Floor("store_faults_injected", 40)
	r.Floor("older_revisions_confirmed_on_chain", 25)
	r.Floor("reorgs_unconfirming_a_creation", 8)
	r.Floor("reorgs_unconfirming_a_renewal", 4)
	r.Floor("creations_confirmed_again_after_reorg", 6)
	r.Floor("reorgs_unconfirming_a_revision", 4)
	r.Floor("served_after_chain_event", 40)
	r.Floor("stale_based_requests_refused", 25)
	r.Floor("fund_requests_with_repeated_account", 40)
	r.Floor("fund_credits_checked", 150)
	r.Floor("served_after_refusal", 400)
	r.Floor("settings_changes", 60)
	r.Floor("commits_priced_by_older_signed_table", 150)
	r.Floor("store_faults_changed_nothing", 40)
	r.Floor("rpcs_succeeded_after_store_fault", 30)
	workers := r.Pick(8, 16)
	steps := r.Pick(300, 1500)
	var wg sync.WaitGroup
	for w := 0; w < workers; w++ {
		wg.Add(1)
		go func(w int) {
			defer wg.Done()
			guardRun(r, fmt.Sprintf("C08 worker %d", w), func() error {
				c, err := newC08(r, uint64(w))
				if err != nil {
					return err
				}
				defer c.close()
				defer func() { r.Count("handler_panics_recovered", c.lab.HostPanics()) }()
				return c.runSequential(steps, w < r.Pick(2, 4))
			})
		}(w)
	}
	variants := []string{"plain", "renew", "refresh-partial", "refresh-full"}
	for i := 0; i < r.Pick(4, 12); i++ {
		wg.Add(1)
		go func(i int) {
			defer wg.Done()
			guardRun(r, fmt.Sprintf("C08 lifecycle %d", i), func() error {
				c, err := newC08(r, uint64(300+i))
				if err != nil {
					return err
				}
				defer c.close()
				defer func() { r.Count("handler_panics_recovered", c.lab.HostPanics()) }()
				return c.runLifecycle(variants[i%len(variants)])
			})
		}(i)
	}
	wg.Add(1)
	go func() {
		defer wg.Done()
		guardRun(r, "C08 contenders", func() error { return c08Contenders(r) })
	}()
	for w := 0; w < 2; w++ {
		wg.Add(1)
		go func(w int) {
			defer wg.Done()
			guardRun(r, fmt.Sprintf("C08 chain %d", w), func() error { return c08Chain(r, w) })
		}(w)
	}
	for _, k := range []int{2, 3, 4, 8} {
		wg.Add(1)
		go func(k int) {
			defer wg.Done()
			guardRun(r, fmt.Sprintf("C08 concurrent x%d", k), func() error { return c08Concurrent(r, k) })
		}(k)
	}
	wg.Wait()
	r.Extra("bad_table_size", func() int {
		n := 0
		for _, v := range c08Bad {
			n += len(v)
		}
		return n
	}())
}

func c08Replay(r *mon.Run, path string) error {
	buf, err := os.ReadFile(path)
	if err != nil {
		return inconclusive("replay file: %v", err)
	}
	var w struct {
		Case c08Seq `json:"case"`
	}
	if err := json.Unmarshal(buf, &w); err != nil {
		return inconclusive("replay file: %v", err)
	}
	c, err := newC08(r, w.Case.Worker)
	if err != nil {
		return err
	}
	defer c.close()
	for _, st := range w.Case.Steps {
		if (st.RPC == "free" || st.RPC == "roots") && st.Bad == "" {
			n := uint64(len(c.model))
			if !validFree(int(n), st.Indices) || st.Offset+st.Length > n {
				continue
			}
		}
		if err := c.step(st); err != nil {
			return err
		}
	}
	return nil
}
