package rhphost

import (
	"fmt"

	"go.sia.tech/core/consensus"
	"math/rand/v2"
	"slices"

	proto4 "go.sia.tech/core/rhp/v4"
	"go.sia.tech/core/types"
	rhp "go.sia.tech/coreutils/rhp/v4"

	"verif/harness/lab/rhplab"
	"verif/harness/mon"
)

// multiContract is one of several contracts on one host, with its own list model.
type multiContract struct {
	cr    rhp.ContractRevision
	model []types.Hash256
}

// c09MultiOp is an RPC on one of the contracts.
type c09MultiOp struct {
	Contract int      `json:"contract"`
	Kind     string   `json:"kind"` // append | free | roots | fund
	Roots    int      `json:"roots,omitempty"`
	Indices  []uint64 `json:"indices,omitempty"`
}

// c09MultiRound: A is paused by the raw renter between the host's first
// response and the renter's signature; Others run to completion meanwhile on
// other contracts. With Second set, a second RPC on yet another contract is
// paused too and the two complete in the given order.
type c09MultiRound struct {
	A       c09MultiOp   `json:"a"`
	Others  []c09MultiOp `json:"others,omitempty"`
	Second  *c09MultiOp  `json:"second,omitempty"`
	AFirst  bool         `json:"a_completes_first,omitempty"`
	Sizes   []int        `json:"contract_sizes"`
	History []string     `json:"recent_rounds,omitempty"`
}

type c09Multi struct {
	*c09
	ctr     []*multiContract
	rng     *rand.Rand
	history []string
}

// c09MultiContract: state the Contractor lends to the handler of one contract
// must not be disturbed by activity on another contract.
func c09MultiContract(r *mon.Run, worker int) error {
	base, err := newC09(r, fmt.Sprintf("J-multi-contract-%d", worker), uint64(950+worker))
	if err != nil {
		return err
	}
	defer base.close()
	m := &c09Multi{c09: base, rng: r.RNG(0x09E000 + uint64(worker))}
	n := 2 + worker%3
	m.ctr = append(m.ctr, &multiContract{cr: base.contract})
	for i := 1; i < n; i++ {
		if err := base.formContract(c09Allowance, c09Collateral, 3000); err != nil {
			return err
		}
		m.ctr = append(m.ctr, &multiContract{cr: base.contract})
	}
	// different sizes, the later contracts larger
	for i := range m.ctr {
		if err := m.run(c09MultiOp{Contract: i, Kind: "append", Roots: 1 + 2*i}, nil); err != nil {
			return err
		}
	}
	if err := m.checkAll(c09MultiRound{}, "setup"); err != nil {
		return err
	}
	rounds := r.Pick(120, 600)
	for round := 0; round < rounds; round++ {
		rd := m.gen()
		if err := m.round(rd); err != nil {
			return err
		}
	}
	r.Count("handler_panics_recovered", base.lab.HostPanics())
	return nil
}

func (m *c09Multi) sizes() []int {
	out := make([]int, len(m.ctr))
	for i, mc := range m.ctr {
		out[i] = len(mc.model)
	}
	return out
}

// genOp builds a well-formed operation for contract i that keeps its size in 1..7.
func (m *c09Multi) genOp(i int, multiRound bool) c09MultiOp {
	sz := len(m.ctr[i].model)
	kinds := []string{"append", "free", "roots", "fund"}
	if multiRound {
		kinds = kinds[:2]
	}
	k := kinds[m.rng.IntN(len(kinds))]
	if sz <= 1 && k == "free" {
		k = "append"
	}
	if sz >= 7 && k == "append" {
		k = "free"
	}
	op := c09MultiOp{Contract: i, Kind: k}
	switch k {
	case "append":
		op.Roots = 1 + m.rng.IntN(2)
	case "free":
		f := 1 + m.rng.IntN(min(sz-1, 2))
		op.Indices = u64s(m.rng.Perm(sz)[:f]...)
	}
	return op
}

func (m *c09Multi) gen() c09MultiRound {
	n := len(m.ctr)
	a := m.rng.IntN(n)
	rd := c09MultiRound{A: m.genOp(a, true), Sizes: m.sizes()}
	var rest []int
	for i := 0; i < n; i++ {
		if i != a {
			rest = append(rest, i)
		}
	}
	m.rng.Shuffle(len(rest), func(i, j int) { rest[i], rest[j] = rest[j], rest[i] })
	if m.rng.IntN(3) == 0 {
		// two paused RPCs on different contracts
		op := m.genOp(rest[0], true)
		rd.Second, rd.AFirst = &op, m.rng.IntN(2) == 0
		rest = rest[1:]
	}
	for _, i := range rest {
		rd.Others = append(rd.Others, m.genOp(i, false))
	}
	return rd
}

// appendRoots picks roots for an append: stored sectors, repeating if needed.
func (m *c09Multi) appendRoots(i, k int) []types.Hash256 {
	var out []types.Hash256
	for j := 0; j < k; j++ {
		out = append(out, m.stored[(len(m.ctr[i].model)+3*i+j)%len(m.stored)].Root)
	}
	return out
}

// run executes op; for append / free through the raw renter, calling pause
// (if not nil) between the host's first response and the renter's signature.
func (m *c09Multi) run(op c09MultiOp, pause func()) error {
	mc := m.ctr[op.Contract]
	hs, err := m.lab.State(mc.cr.ID)
	if err != nil && pause == nil {
		return inconclusive("state of contract %d: %v", op.Contract, err)
	}
	if err == nil {
		mc.cr.Revision = hs.Revision
	}
	raw := m.lab.NewRaw()
	cl := m.lab.Mux.NewClient()
	// a client returns before the host has released the contract lock: wait for
	// this RPC's own handler (not for the paused ones on other contracts)
	defer func() {
		raw.C.WaitLast(rhplab.Watchdog)
		cl.WaitLast(rhplab.Watchdog)
	}()
	r2 := func(_ types.V2FileContract, h types.Hash256) (types.Signature, bool) {
		if pause != nil {
			pause()
		}
		return m.lab.RenterKey.SignHash(h), true
	}
	switch op.Kind {
	case "append":
		roots := m.appendRoots(op.Contract, op.Roots)
		res := raw.Append(m.cs0(), rhplab.AppendCall{Contract: mc.cr, Prices: m.prices, Roots: roots, Round2: r2})
		if res.Err != nil || res.Stage != rhplab.StageComplete {
			return fmt.Errorf("append on contract %d: %v", op.Contract, res.Err)
		}
		mc.model = append(slices.Clone(mc.model), roots...)
		mc.cr.Revision = res.Revision
	case "free":
		if !validFree(len(mc.model), op.Indices) {
			return nil
		}
		res := raw.Free(m.cs0(), rhplab.FreeCall{Contract: mc.cr, Prices: m.prices, Indices: op.Indices, SkipProof: true, Round2: r2})
		if res.Err != nil || res.Stage != rhplab.StageComplete {
			return fmt.Errorf("free on contract %d: %v", op.Contract, res.Err)
		}
		mc.model = modelFree(mc.model, op.Indices)
		mc.cr.Revision = res.Revision
	case "roots":
		res, err := rhp.RPCSectorRoots(ctxBG(), cl, m.cs0(), m.prices, m.signer(), mc.cr, 0, uint64(len(mc.model)))
		if err != nil {
			return fmt.Errorf("roots on contract %d: %v", op.Contract, err)
		}
		if !slices.Equal(res.Roots, mc.model) {
			m.r.Violation("listing-mismatch:multi-contract", "roots listed for a contract differ from its list model", op, map[string]any{"listed": shortRoots(res.Roots), "model": shortRoots(mc.model)})
		}
		mc.cr.Revision = res.Revision
	case "fund":
		res, err := rhp.RPCFundAccounts(ctxBG(), cl, m.cs0(), m.signer(), mc.cr, []proto4.AccountDeposit{{Account: m.acct, Amount: types.NewCurrency64(1000)}})
		if err != nil {
			return fmt.Errorf("fund on contract %d: %v", op.Contract, err)
		}
		mc.cr.Revision = res.Revision
	}
	return nil
}

func (m *c09Multi) cs0() consensus.State { return m.c09.env.cs }

func (m *c09Multi) round(rd c09MultiRound) error {
	if err := m.quiesce(); err != nil {
		return err
	}
	rd.History = slices.Clone(m.history)
	var inner []error
	var aErr error
	switch {
	case rd.Second == nil:
		aErr = m.run(rd.A, func() {
			for _, op := range rd.Others {
				inner = append(inner, m.run(op, nil))
			}
		})
	case !rd.AFirst:
		// B is paused inside A's pause and completes first
		aErr = m.run(rd.A, func() {
			inner = append(inner, m.run(*rd.Second, func() {
				for _, op := range rd.Others {
					inner = append(inner, m.run(op, nil))
				}
			}))
		})
	default:
		// A completes while B is still paused
		reached, release, done := make(chan struct{}), make(chan struct{}), make(chan error, 1)
		aErr = m.run(rd.A, func() {
			go func() {
				done <- m.run(*rd.Second, func() {
					close(reached)
					<-release
				})
			}()
			select {
			case <-reached:
			case err := <-done:
				done <- err // B ended before it could be paused
			}
			for _, op := range rd.Others {
				inner = append(inner, m.run(op, nil))
			}
		})
		close(release)
		inner = append(inner, <-done)
	}
	if err := m.quiesce(); err != nil {
		return err
	}
	m.r.Eval()
	m.r.Count("multi_contract_rounds", 1)
	if rd.Second != nil {
		m.r.Count("rounds_with_two_paused_rpcs", 1)
	}
	label := rd.A.Kind
	for _, op := range rd.Others {
		label += "|" + op.Kind
	}
	if rd.Second != nil {
		label += "||" + rd.Second.Kind
	}
	m.r.Distinct(fmt.Sprintf("multi:%s:%v", label, rd.Sizes))
	for _, e := range append(inner, aErr) {
		if e != nil {
			m.r.Count("unexpected_failures", 1)
			m.r.Inconclusive(fmt.Sprintf("multi-contract round %+v: %v", rd, e))
			return errScenarioOver
		}
	}
	if err := m.checkAll(rd, label); err != nil {
		return err
	}
	m.history = append(m.history, label)
	if len(m.history) > 6 {
		m.history = m.history[1:]
	}
	m.lab.Mux.Forget(m.lab.Mux.Streams())
	m.lab.Log.Trim(m.lab.Log.Seq())
	return nil
}

// checkAll evaluates the list model and the roots-vs-revision invariant for
// EVERY contract on the host.
func (m *c09Multi) checkAll(rd c09MultiRound, label string) error {
	bad := false
	for i, mc := range m.ctr {
		hs, err := m.lab.State(mc.cr.ID)
		if err != nil {
			return inconclusive("state of contract %d: %v", i, err)
		}
		detail := map[string]any{"contract": i, "host_roots": shortRoots(hs.Roots), "model": shortRoots(mc.model), "host_revision": hs.Revision.RevisionNumber, "renter_revision": mc.cr.Revision.RevisionNumber}
		if err := hs.CheckRoots(); err != nil {
			bad = true
			m.r.Violation("roots-vs-revision:multi-contract", fmt.Sprintf("contract %d: host roots do not match its committed revision after RPCs interleaved with other contracts: %v", i, err), rd, detail)
		}
		if !slices.Equal(hs.Roots, mc.model) {
			bad = true
			sig := "model-mismatch:multi-contract"
			for j, other := range m.ctr {
				if j != i && len(hs.Roots) > 0 && len(other.model) >= len(hs.Roots) && slices.Equal(hs.Roots[:min(len(hs.Roots), len(other.model))], other.model[:min(len(hs.Roots), len(other.model))]) {
					sig = "roots-of-another-contract"
					detail["looks_like_contract"] = j
				}
			}
			m.r.Violation(sig, fmt.Sprintf("contract %d: host roots differ from its list model after RPCs interleaved with other contracts", i), rd, detail)
		}
		if hs.Revision != mc.cr.Revision {
			m.r.Violation("renter-revision-mismatch:multi-contract", fmt.Sprintf("contract %d: the host's revision is not the one its renter holds", i), rd, detail)
		}
		m.r.Count("contracts_checked_at_quiescence", 1)
	}
	if bad {
		return errScenarioOver
	}
	return nil
}
