package rhphost

import (
	"fmt"
	"slices"
	"time"

	"go.sia.tech/core/consensus"
	proto4 "go.sia.tech/core/rhp/v4"
	"go.sia.tech/core/types"

	"verif/harness/lab/rhplab"
)

// track is the monitor's own record of the latest committed revision of one
// contract, advanced only by what the recording Contractor saw.
type track struct {
	rev     types.V2FileContract
	renewed bool
	commits int
}

// An auditor replays the proxy log and checks every persisting call the
// server made pairwise against its predecessor revision (C08), using the
// tapped wire exchange of the same stream to compute what was due.
type auditor struct {
	lab    *rhplab.Lab
	cs     consensus.State
	tracks map[types.FileContractID]*track
	seq    uint64
	// report receives every finding; ev is the offending proxy event
	report func(sig, what string, ev *rhplab.Event, detail map[string]any)
	// count receives observation counters
	count func(name string, n int)
}

func newAuditor(lab *rhplab.Lab, report func(string, string, *rhplab.Event, map[string]any), count func(string, int)) *auditor {
	return &auditor{lab: lab, cs: lab.CM.TipState(), tracks: map[types.FileContractID]*track{}, report: report, count: count}
}

func stripSigs(fc types.V2FileContract) types.V2FileContract {
	fc.RenterSignature, fc.HostSignature = types.Signature{}, types.Signature{}
	return fc
}

// pricesOK reports whether a price table is host-signed and unexpired. Tables
// in the workloads are valid for hours or expired by hours, never borderline.
func (a *auditor) pricesOK(p proto4.HostPrices) bool {
	return a.lab.HostKey.PublicKey().VerifyHash(p.SigHash(), p.Signature) && p.ValidUntil.After(time.Now())
}

// audit processes all proxy events since the last call and returns the
// persisting calls among them (successful or refused by the Contractor).
func (a *auditor) audit() []rhplab.Event {
	// mutual exclusion on the contract lock: a grant while another handler holds it
	for _, lv := range a.lab.Log.TakeLockViolations() {
		a.report("contract-lock-granted-while-held", "the Contractor granted a contract lock although another in-flight RPC still held it", nil, map[string]any{"violation": lv})
	}
	evs := a.lab.Log.Since(a.seq)
	var commits []rhplab.Event
	// balances the Contractor reported to the handler, per stream (replenish)
	balances := map[uint64][]types.Currency{}
	// the revision each handler was shown when it took the contract lock
	type lockKey struct {
		stream uint64
		id     types.FileContractID
	}
	locked := map[lockKey]types.V2FileContract{}
	for i := range evs {
		ev := &evs[i]
		a.seq = ev.Seq
		switch ev.Kind {
		case rhplab.EvLock:
			if ev.Err == "" {
				locked[lockKey{ev.Stream, ev.ContractID}] = ev.Revision
			}
		case rhplab.EvAccountBalances, rhplab.EvPoolBalances:
			if ev.Err == "" {
				balances[ev.Stream] = ev.Balances
			}
		}
		if !ev.Persisting() {
			continue
		}
		commits = append(commits, *ev)
		a.count("persisting_calls_"+ev.Kind, 1)
		var x *rhplab.Exchange
		if ev.Stream != 0 {
			x, _ = rhplab.Parse(a.lab.Mux.Stream(ev.Stream))
		}
		if x == nil || x.Request() == nil {
			a.report("uncorrelated-commit", "a persisting Contractor call could not be tied to a complete tapped request", ev, nil)
			continue
		}
		// whatever is committed must build on the revision the handler saw under
		// its lock, and that must still be the latest committed one
		if ev.Kind != rhplab.EvAddContract {
			id := ev.ContractID
			if ev.Kind == rhplab.EvRenewContract {
				id = ev.ParentID
			}
			seen, ok := locked[lockKey{ev.Stream, id}]
			if tr := a.tracks[id]; !ok {
				a.count("commits_without_lock_event", 1)
			} else if tr != nil && seen != tr.rev {
				a.report("commit-on-stale-lock", "a handler committed although the revision it was shown under the contract lock is no longer the latest committed one (another RPC committed while it held the lock)", ev, map[string]any{"seen_revision_number": seen.RevisionNumber, "latest_revision_number": tr.rev.RevisionNumber})
			} else {
				a.count("commits_on_fresh_lock", 1)
			}
		}
		switch ev.Kind {
		case rhplab.EvAddContract:
			a.checkForm(ev, x)
		case rhplab.EvRenewContract:
			a.checkRenew(ev, x)
		default:
			a.checkRevise(ev, x, balances[ev.Stream])
		}
	}
	return commits
}

func (a *auditor) checkForm(ev *rhplab.Event, x *rhplab.Exchange) {
	req, ok := x.Request().(*proto4.RPCFormContractRequest)
	if !ok {
		a.report("commit-from-wrong-rpc:form", fmt.Sprintf("AddV2Contract reached from RPC %v", x.RPC), ev, nil)
		return
	}
	fc := ev.Revision
	hostAddr := a.lab.Settings.RHP4Settings().WalletAddress
	want, _ := proto4.NewContract(req.Prices, req.Contract, a.lab.HostKey.PublicKey(), hostAddr)
	h := a.cs.ContractSigHash(fc)
	switch {
	case !a.pricesOK(req.Prices):
		a.report("commit-under-invalid-prices:form", "contract formed under a price table that is not host-signed or is expired", ev, nil)
	case stripSigs(fc) != want:
		a.report("revision-differs-from-expected:form", "formed contract differs from core's NewContract for the request", ev, map[string]any{"want": want, "got": fc})
	case !fc.RenterPublicKey.VerifyHash(h, fc.RenterSignature):
		a.report("renter-signature-invalid:form", "formed contract lacks a valid renter signature", ev, nil)
	case !fc.HostPublicKey.VerifyHash(h, fc.HostSignature):
		a.report("host-signature-invalid:form", "formed contract lacks a valid host signature", ev, nil)
	}
	if ev.Err == "" {
		a.tracks[ev.ContractID] = &track{rev: fc}
	}
}

// pairwise is the relation every persisted revision must have to its predecessor.
func (a *auditor) pairwise(rpc string, pred, r types.V2FileContract, ev *rhplab.Event) (ok bool) {
	ok = true
	bad := func(sig, what string) {
		ok = false
		a.report(sig+":"+rpc, what, ev, map[string]any{"predecessor": pred, "revision": r})
	}
	h := a.cs.ContractSigHash(r)
	if r.RevisionNumber <= pred.RevisionNumber {
		bad("revision-number-not-higher", fmt.Sprintf("revision number %d after %d", r.RevisionNumber, pred.RevisionNumber))
	}
	if !pred.RenterPublicKey.VerifyHash(h, r.RenterSignature) {
		bad("renter-signature-invalid", "persisted revision does not carry a valid renter signature over exactly that revision")
	}
	if !pred.HostPublicKey.VerifyHash(h, r.HostSignature) {
		bad("host-signature-invalid", "persisted revision does not carry a valid host signature over exactly that revision")
	}
	if r.RenterPublicKey != pred.RenterPublicKey || r.HostPublicKey != pred.HostPublicKey || r.ProofHeight != pred.ProofHeight || r.ExpirationHeight != pred.ExpirationHeight || r.TotalCollateral != pred.TotalCollateral {
		bad("immutable-field-changed", "keys, heights or total collateral changed")
	}
	if r.RenterOutput.Address != pred.RenterOutput.Address || r.HostOutput.Address != pred.HostOutput.Address {
		bad("payout-address-changed", "a payout address changed")
	}
	if r.RenterOutput.Value.Cmp(pred.RenterOutput.Value) > 0 || r.HostOutput.Value.Cmp(pred.HostOutput.Value) < 0 {
		bad("value-moved-to-renter", "renter payout rose or host payout fell")
	}
	if !r.RenterOutput.Value.Add(r.HostOutput.Value).Equals(pred.RenterOutput.Value.Add(pred.HostOutput.Value)) {
		bad("payout-sum-changed", "sum of the two payouts changed")
	}
	return
}

func (a *auditor) checkRevise(ev *rhplab.Event, x *rhplab.Exchange, reported []types.Currency) {
	tr := a.tracks[ev.ContractID]
	if tr == nil {
		a.report("commit-on-unknown-contract", "revision persisted for a contract the Contractor never added", ev, nil)
		return
	}
	pred, r := tr.rev, ev.Revision
	var (
		rpc      string
		want     types.V2FileContract
		wantErr  error
		chalOK   = true
		priceOK  = true
		wantKind = rhplab.EvRevise
	)
	switch req := x.Request().(type) {
	case *proto4.RPCFreeSectorsRequest:
		rpc = "free"
		chalOK, priceOK = req.ValidChallengeSignature(pred), a.pricesOK(req.Prices)
		resp, _ := msgObj[*proto4.RPCFreeSectorsResponse](x.Out(0))
		if resp == nil {
			a.report("uncorrelated-commit", "free committed without a tapped host response", ev, nil)
			return
		}
		want, _, wantErr = proto4.ReviseForFreeSectors(pred, req.Prices, resp.NewMerkleRoot, len(req.Indices))
	case *proto4.RPCAppendSectorsRequest:
		rpc = "append"
		chalOK, priceOK = req.ValidChallengeSignature(pred), a.pricesOK(req.Prices)
		resp, _ := msgObj[*proto4.RPCAppendSectorsResponse](x.Out(0))
		if resp == nil {
			a.report("uncorrelated-commit", "append committed without a tapped host response", ev, nil)
			return
		}
		var n uint64
		for _, ok := range resp.Accepted {
			if ok {
				n++
			}
		}
		want, _, wantErr = proto4.ReviseForAppendSectors(pred, req.Prices, resp.NewMerkleRoot, n)
		if uint64(len(ev.Roots))*proto4.SectorSize != r.Filesize || proto4.MetaRoot(ev.Roots) != r.FileMerkleRoot {
			a.report("roots-vs-revision:append", "roots handed to the Contractor do not match the persisted revision", ev, nil)
		}
	case *proto4.RPCSectorRootsRequest:
		rpc = "roots"
		priceOK = a.pricesOK(req.Prices)
		want, _, wantErr = proto4.ReviseForSectorRoots(pred, req.Prices, req.Length)
	case *proto4.RPCFundAccountsRequest:
		rpc, wantKind = "fund", rhplab.EvCreditAccounts
		total, wrapped := rhplab.WrapSum(req.Deposits)
		if wrapped {
			a.report("commit-despite-overflow:fund", "deposits whose sum exceeds 2^128-1 were persisted (the amount due is not representable)", ev, map[string]any{"deposits": req.Deposits, "wrapped_total": total})
			total = types.MaxCurrency
		}
		want, _, wantErr = proto4.ReviseForFundAccounts(pred, total)
		if !slices.Equal(ev.Deposits, req.Deposits) {
			a.report("credited-other-than-requested:fund", "deposits credited differ from the deposits of the request", ev, map[string]any{"requested": req.Deposits, "credited": ev.Deposits})
		}
	case *proto4.RPCReplenishAccountsRequest:
		rpc, wantKind = "replenish-accounts", rhplab.EvCreditAccounts
		if x.RPC == proto4.RPCReplenishPoolsID {
			rpc, wantKind = "replenish-pools", rhplab.EvCreditPools
		}
		chalOK = req.ValidChallengeSignature(pred)
		if len(reported) != len(req.Accounts) {
			a.report("uncorrelated-commit", "replenish committed without a balance query of matching length", ev, nil)
			return
		}
		deps := make([]proto4.AccountDeposit, len(req.Accounts))
		for i, acc := range req.Accounts {
			deps[i].Account = acc
			if reported[i].Cmp(req.Target) < 0 {
				deps[i].Amount = req.Target.Sub(reported[i])
			}
		}
		total, wrapped := rhplab.WrapSum(deps)
		if wrapped {
			a.report("commit-despite-overflow:"+rpc, "deposits whose sum exceeds 2^128-1 were persisted (the amount due is not representable)", ev, map[string]any{"due": deps, "wrapped_total": total})
			total = types.MaxCurrency
		}
		want, _, wantErr = proto4.ReviseForReplenish(pred, total)
		if !slices.Equal(ev.Deposits, deps) {
			a.report("credited-other-than-due:"+rpc, "deposits credited differ from max(target-balance,0) per account", ev, map[string]any{"due": deps, "credited": ev.Deposits})
		}
	default:
		a.report("commit-from-wrong-rpc", fmt.Sprintf("revision persisted from RPC %v", x.RPC), ev, nil)
		return
	}
	if ev.Kind != wantKind {
		a.report("commit-from-wrong-rpc:"+rpc, fmt.Sprintf("%s reached from RPC %s", ev.Kind, rpc), ev, nil)
	}
	if !chalOK {
		a.report("commit-with-invalid-challenge:"+rpc, "revision persisted although the request's challenge signature does not verify against the predecessor", ev, nil)
	}
	if !priceOK {
		a.report("commit-under-invalid-prices:"+rpc, "revision persisted under a price table that is not host-signed or is expired", ev, nil)
	}
	a.pairwise(rpc, pred, r, ev)
	if wantErr != nil {
		a.report("commit-despite-insufficient-funds:"+rpc, "revision persisted although core cannot build it: "+wantErr.Error(), ev, nil)
	} else {
		due := pred.RenterOutput.Value.Sub(want.RenterOutput.Value)
		if r.RenterOutput.Value.Cmp(pred.RenterOutput.Value) <= 0 {
			if paid := pred.RenterOutput.Value.Sub(r.RenterOutput.Value); !paid.Equals(due) {
				a.report("wrong-amount:"+rpc, fmt.Sprintf("renter payout lowered by %v, due %v", paid, due), ev, map[string]any{"predecessor": pred, "revision": r})
			}
		}
		if stripSigs(r) != want {
			a.report("revision-differs-from-expected:"+rpc, "persisted revision differs from core's ReviseFor* applied to the predecessor and the tapped request", ev, map[string]any{"want": want, "got": stripSigs(r)})
		}
	}
	if ev.Err == "" {
		tr.rev = r
		tr.commits++
	} else {
		a.count("persisting_calls_refused", 1)
	}
}

func (a *auditor) checkRenew(ev *rhplab.Event, x *rhplab.Exchange) {
	if ev.Renewal == nil {
		a.report("renewal-malformed", "RenewV2Contract without a renewal resolution", ev, nil)
		return
	}
	tr := a.tracks[ev.ParentID]
	if tr == nil {
		a.report("commit-on-unknown-contract", "renewal persisted for a contract the Contractor never added", ev, nil)
		return
	}
	pred, rn := tr.rev, *ev.Renewal
	hostAddr := a.lab.Settings.RHP4Settings().WalletAddress
	var want types.V2FileContractRenewal
	var rpc string
	var chalOK, priceOK bool
	switch req := x.Request().(type) {
	case *proto4.RPCRenewContractRequest:
		rpc = "renew"
		chalOK, priceOK = req.ValidChallengeSignature(pred), a.pricesOK(req.Prices)
		want, _ = proto4.RenewContract(pred, req.Prices, hostAddr, req.Renewal)
	case *proto4.RPCRefreshContractRequest:
		chalOK, priceOK = req.ValidChallengeSignature(pred), a.pricesOK(req.Prices)
		if x.RPC == proto4.RPCRefreshPartialID {
			rpc = "refresh-partial"
			want, _ = proto4.RefreshContractPartialRollover(pred, req.Prices, hostAddr, req.Refresh)
		} else {
			rpc = "refresh-full"
			want, _ = proto4.RefreshContractFullRollover(pred, req.Prices, hostAddr, req.Refresh)
		}
	default:
		a.report("commit-from-wrong-rpc:renew", fmt.Sprintf("RenewV2Contract reached from RPC %v", x.RPC), ev, nil)
		return
	}
	if !chalOK {
		a.report("commit-with-invalid-challenge:"+rpc, "renewal persisted although the challenge signature does not verify against the predecessor", ev, nil)
	}
	if !priceOK {
		a.report("commit-under-invalid-prices:"+rpc, "renewal persisted under a price table that is not host-signed or is expired", ev, nil)
	}
	got := rn
	got.RenterSignature, got.HostSignature = types.Signature{}, types.Signature{}
	got.NewContract = stripSigs(got.NewContract)
	if got != want {
		a.report("revision-differs-from-expected:"+rpc, "persisted renewal differs from core's construction for the predecessor and the tapped request", ev, map[string]any{"want": want, "got": got})
	}
	rh, ch := a.cs.RenewalSigHash(rn), a.cs.ContractSigHash(rn.NewContract)
	switch {
	case !pred.RenterPublicKey.VerifyHash(rh, rn.RenterSignature) || !pred.RenterPublicKey.VerifyHash(ch, rn.NewContract.RenterSignature):
		a.report("renter-signature-invalid:"+rpc, "renewal or renewed contract lacks a valid renter signature", ev, nil)
	case !pred.HostPublicKey.VerifyHash(rh, rn.HostSignature) || !pred.HostPublicKey.VerifyHash(ch, rn.NewContract.HostSignature):
		a.report("host-signature-invalid:"+rpc, "renewal or renewed contract lacks a valid host signature", ev, nil)
	}
	if rn.NewContract.RenterPublicKey != pred.RenterPublicKey || rn.NewContract.HostPublicKey != pred.HostPublicKey {
		a.report("immutable-field-changed:"+rpc, "renewed contract changes the keys", ev, nil)
	}
	// the old contract's value is fully accounted for: final outputs + rollovers
	if !rn.FinalRenterOutput.Value.Add(rn.RenterRollover).Equals(pred.RenterOutput.Value) || !rn.FinalHostOutput.Value.Add(rn.HostRollover).Equals(pred.HostOutput.Value) {
		a.report("value-moved-to-renter:"+rpc, "final outputs plus rollovers do not equal the last revision's payouts", ev, map[string]any{"predecessor": pred, "renewal": rn})
	}
	if ev.Err == "" {
		tr.renewed = true
		a.tracks[ev.ContractID] = &track{rev: rn.NewContract}
	}
}

func msgObj[T proto4.Object](m *rhplab.Msg) (T, bool) {
	var zero T
	if m == nil || m.Obj == nil {
		return zero, false
	}
	v, ok := m.Obj.(T)
	return v, ok
}

// acceptableToConsensus builds {element, latest revision} and validates it at the tip.
func acceptableToConsensus(lab *rhplab.Lab, id types.FileContractID, latest types.V2FileContract) error {
	if err := lab.Sync(); err != nil {
		return inconclusive("%v", err)
	}
	// the lab's own copy of the on-chain element (proof kept current across reorgs)
	_, fce, ok := lab.Element(id)
	if !ok {
		return nil // the contract's creation is not (or no longer) confirmed: nothing to revise on chain yet
	}
	if latest.RevisionNumber == fce.V2FileContract.RevisionNumber {
		return nil // nothing to broadcast
	}
	txn := types.V2Transaction{FileContractRevisions: []types.V2FileContractRevision{{Parent: fce, Revision: latest}}}
	ms := consensus.NewMidState(lab.CM.TipState())
	if err := consensus.ValidateV2Transaction(ms, txn); err != nil {
		return fmt.Errorf("consensus rejects the revision transaction: %w", err)
	}
	return nil
}
