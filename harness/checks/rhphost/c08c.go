package rhphost

import (
	"errors"
	"fmt"

	proto4 "go.sia.tech/core/rhp/v4"
	"go.sia.tech/core/types"
	rhp "go.sia.tech/coreutils/rhp/v4"

	"verif/harness/lab/rhplab"
	"verif/harness/mon"
)

// c08Contender is one round of the refused-contender pattern.
type c08Contender struct {
	A string `json:"a"` // multi-round RPC stalled by the raw renter while it holds the contract lock
	B string `json:"b"` // attempted meanwhile: must be refused
	C string `json:"c"` // attempted after B was refused, A still in flight: must be refused as well
}

// c08Contenders: RPC A takes the contract lock and is stalled by the raw
// renter after the host's first message; B and then C are attempted on the
// same contract and must both be refused while A is in flight; then A is
// completed and whatever it commits must build on the revision A was shown.
// Value is accounted for over tracked accounts/pools plus contract payouts.
func c08Contenders(r *mon.Run) error {
	c, err := newC08(r, 400)
	if err != nil {
		return err
	}
	defer c.close()
	defer func() { r.Count("handler_panics_recovered", c.lab.HostPanics()) }()
	for _, st := range []c08Step{{RPC: "append", Batch: []string{"new", "new", "new"}}, {RPC: "fund", Accounts: []int{0, 1}, Amounts: []uint64{1000}}} {
		if err := c.step(st); err != nil {
			return err
		}
	}
	rounds := []c08Contender{
		{"renew", "fund", "fund"}, {"renew", "fund", "renew"}, {"renew", "append", "fund"},
		{"refresh-partial", "append", "append"}, {"refresh-full", "append", "refresh-full"}, {"refresh-partial", "fund", "refresh-partial"},
		{"append", "refresh-partial", "append"}, {"append", "refresh-full", "fund"}, {"append", "fund", "renew"},
		{"free", "fund", "append"}, {"replenish-accounts", "fund", "fund"}, {"replenish-pools", "renew", "fund"},
	}
	reps := r.Pick(2, 4)
	for rep := 0; rep < reps; rep++ {
		for _, cd := range rounds {
			if err := c.contenderRound(cd); err != nil {
				return err
			}
		}
	}
	return nil
}

// contend issues one well-formed RPC of the given kind through its own raw
// client while another RPC holds the lock; it reports how it ended.
func (c *c08) contend(kind string, base rhp.ContractRevision) (stream uint64, err error) {
	raw := c.lab.NewRaw()
	switch kind {
	case "fund":
		res := raw.Fund(c.cs, rhplab.FundCall{Contract: base, Deposits: []proto4.AccountDeposit{{Account: c.accts[2], Amount: types.NewCurrency64(777)}}})
		err = res.Err
	case "append":
		res := raw.Append(c.cs, rhplab.AppendCall{Contract: base, Prices: c.prices, Roots: []types.Hash256{c.stored[len(c.model)%len(c.stored)].Root}})
		err = res.Err
		if err == nil && res.Stage != rhplab.StageComplete {
			err = errors.New("incomplete")
		}
	default:
		k := map[string]rhplab.RenewKind{"renew": rhplab.KindRenew, "refresh-full": rhplab.KindRefreshFull, "refresh-partial": rhplab.KindRefreshPartial}[kind]
		res := raw.Renew(c.cs, rhplab.RenewCall{Kind: k, Existing: base, Prices: c.prices, Allowance: types.Siacoins(300), Collateral: types.Siacoins(100), ProofHeight: base.Revision.ProofHeight + 200})
		err = res.Err
		if err == nil && res.Stage != rhplab.StageComplete {
			err = errors.New("incomplete")
		}
	}
	return raw.C.LastStream(), err
}

func (c *c08) contenderRound(cd c08Contender) error {
	r := c.r
	c.steps = []c08Step{{RPC: fmt.Sprintf("contenders A=%s B=%s C=%s", cd.A, cd.B, cd.C)}}
	c.cur = &c.steps[0]
	if err := c.quiesce(); err != nil {
		return err
	}
	pre, err := c.snapshot()
	if err != nil {
		return inconclusive("pre-snapshot: %v", err)
	}
	c.contract.Revision = pre.State.Revision
	base := c.contract
	oldID := base.ID

	var bErr, cErr error
	var bStream, cStream uint64
	ran := false
	meanwhile := func() {
		ran = true
		bStream, bErr = c.contend(cd.B, base)
		cStream, cErr = c.contend(cd.C, base)
	}
	// A, stalled after the host's first message
	var aErr error
	var aStage rhplab.Stage
	switch cd.A {
	case "append":
		res := c.raw.Append(c.cs, rhplab.AppendCall{Contract: base, Prices: c.prices, Roots: []types.Hash256{c.stored[(len(c.model)+3)%len(c.stored)].Root},
			Round2: func(_ types.V2FileContract, h types.Hash256) (types.Signature, bool) {
				meanwhile()
				return c.lab.RenterKey.SignHash(h), true
			}})
		aErr, aStage = res.Err, res.Stage
	case "free":
		res := c.raw.Free(c.cs, rhplab.FreeCall{Contract: base, Prices: c.prices, Indices: []uint64{0}, SkipProof: true,
			Round2: func(_ types.V2FileContract, h types.Hash256) (types.Signature, bool) {
				meanwhile()
				return c.lab.RenterKey.SignHash(h), true
			}})
		aErr, aStage = res.Err, res.Stage
	case "replenish-accounts", "replenish-pools":
		acc, pool := c.lab.Balances(c.accts[:2], c.accts[:2])
		if cd.A == "replenish-pools" {
			acc = pool
		}
		target := types.NewCurrency64(1 << 30)
		for _, b := range acc {
			if b.Cmp(target) >= 0 {
				target = b.Add(types.NewCurrency64(1 << 20))
			}
		}
		res := c.raw.Replenish(c.cs, rhplab.ReplenishCall{Pools: cd.A == "replenish-pools", Contract: base, Accounts: c.accts[:2], Target: target,
			Round2: func(_ types.V2FileContract, h types.Hash256) (types.Signature, bool) {
				meanwhile()
				return c.lab.RenterKey.SignHash(h), true
			}})
		aErr, aStage = res.Err, res.Stage
	default:
		k := map[string]rhplab.RenewKind{"renew": rhplab.KindRenew, "refresh-full": rhplab.KindRefreshFull, "refresh-partial": rhplab.KindRefreshPartial}[cd.A]
		res := c.raw.Renew(c.cs, rhplab.RenewCall{Kind: k, Existing: base, Prices: c.prices, Allowance: types.Siacoins(300), Collateral: types.Siacoins(100), ProofHeight: base.Revision.ProofHeight + 200,
			BeforeRound2: meanwhile})
		aErr, aStage = res.Err, res.Stage
	}
	if err := c.quiesce(); err != nil {
		return err
	}
	r.Eval()
	if !c.locksReleased("contenders:" + cd.A) {
		return c.newContract()
	}
	if !ran {
		return inconclusive("contender round %+v: A never reached its second round (%v)", cd, aErr)
	}
	r.Count("contender_rounds", 1)
	r.Distinct(fmt.Sprintf("contenders:%s/%s/%s", cd.A, cd.B, cd.C))
	commits := c.aud.audit() // pairwise oracle, commit-on-stale-lock, credits vs requests
	byStream := map[uint64]int{}
	var credited types.Currency
	var last *rhplab.Event
	for i, ev := range commits {
		if ev.Err == "" {
			byStream[ev.Stream]++
			last = &commits[i]
			for _, d := range ev.Deposits {
				credited = credited.Add(d.Amount)
			}
		}
	}
	detail := map[string]any{"round": cd, "a_error": errText(aErr), "b_error": errText(bErr), "c_error": errText(cErr), "commits": len(commits)}
	for _, x := range []struct {
		name   string
		kind   string
		err    error
		stream uint64
	}{{"B", cd.B, bErr, bStream}, {"C", cd.C, cErr, cStream}} {
		if x.err == nil || byStream[x.stream] > 0 {
			c.report(fmt.Sprintf("contender-not-refused:%s:%s-while-%s", x.name, x.kind, cd.A), fmt.Sprintf("RPC %s (%s) went through on a contract whose lock was held by an in-flight %s", x.name, x.kind, cd.A), nil, detail)
		} else {
			r.Count("contenders_refused", 1)
		}
	}
	if aErr != nil || aStage != rhplab.StageComplete {
		r.Count("unexpected_failures", 1)
		r.Inconclusive(fmt.Sprintf("contender round %+v: the stalled RPC A did not complete: %v", cd, aErr))
	}

	// the host's state and the value it accounts for
	switch cd.A {
	case "renew", "refresh-full", "refresh-partial":
		if last == nil || last.Kind != rhplab.EvRenewContract {
			break
		}
		if err := c.lab.Mine(types.VoidAddress, 1); err != nil {
			return inconclusive("mine renewal: %v", err)
		}
		if _, _, err := c.lab.Contractor.V2FileContractElement(last.ContractID); err != nil {
			c.report("renewal-not-confirmable:"+cd.A, "the renewal the stalled RPC committed did not confirm in the next block", last, detail)
		} else {
			r.Count("renewals_confirmed", 1)
		}
		old, err := c.lab.State(oldID)
		if err == nil && (old.Revision != pre.State.Revision || !old.Renewed) {
			c.report("renewed-contract-state-wrong", "after the renewal the old contract is not the revision the renewal was built on, marked renewed", last, detail)
		}
		c.prevIDs = append(c.prevIDs, oldID)
		c.prev = append(c.prev, rhp.ContractRevision{ID: oldID, Revision: pre.State.Revision})
		c.contract = rhp.ContractRevision{ID: last.ContractID, Revision: last.Revision}
		c.cs = c.lab.CM.TipState()
		c.aud.cs = c.cs
	}
	post, err := c.snapshot()
	if err != nil {
		return inconclusive("post-snapshot: %v", err)
	}
	if c.contract.ID == oldID {
		// payouts only move renter -> host, by what was credited plus the RPC's own price
		p0, p1 := pre.State.Revision, post.State.Revision
		if !p0.RenterOutput.Value.Add(p0.HostOutput.Value).Equals(p1.RenterOutput.Value.Add(p1.HostOutput.Value)) || p1.RenterOutput.Value.Cmp(p0.RenterOutput.Value) > 0 {
			c.report("payouts-not-conserved:contenders", "renter + host payout changed, or the renter payout rose", nil, detail)
		}
		if paid := p0.RenterOutput.Value.Sub(p1.RenterOutput.Value); paid.Cmp(credited) < 0 {
			c.report("credits-exceed-payment:contenders", fmt.Sprintf("accounts were credited %v but the renter payout fell by only %v", credited, paid), nil, detail)
		}
		if err := acceptableToConsensus(c.lab, c.contract.ID, post.State.Revision); err != nil && !isInc(err) {
			c.report("consensus-rejects-latest-revision:contenders", err.Error(), nil, detail)
		}
	}
	// accounts and pools grew by exactly what the committed credits say
	var grew types.Currency
	for i := range post.Acc {
		grew = grew.Add(post.Acc[i].Sub(min64(pre.Acc[i], post.Acc[i])))
	}
	for i := range post.Pool {
		grew = grew.Add(post.Pool[i].Sub(min64(pre.Pool[i], post.Pool[i])))
	}
	if !grew.Equals(credited) {
		c.report("balances-vs-credits:contenders", fmt.Sprintf("tracked balances grew by %v, committed credits say %v", grew, credited), nil, detail)
	}
	c.model = post.State.Roots
	c.contract.Revision = post.State.Revision
	c.lab.Mux.Forget(c.lab.Mux.Streams())
	c.lab.Log.Trim(c.aud.seq)
	return nil
}

func min64(a, b types.Currency) types.Currency {
	if a.Cmp(b) < 0 {
		return a
	}
	return b
}
