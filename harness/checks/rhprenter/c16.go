package rhprenter

import (
	"context"
	"encoding/json"
	"fmt"
	"os"
	"strings"
	"sync"
	"time"

	"go.sia.tech/core/consensus"
	rhp4 "go.sia.tech/core/rhp/v4"
	"go.sia.tech/core/types"
	rhp "go.sia.tech/coreutils/rhp/v4"

	"verif/harness/lab/rhpmitm"
	"verif/harness/mon"
	"verif/harness/vcli"
)

// c16Case is the fully expanded case written to replay files.
type c16Case struct {
	RPC    string    `json:"rpc"`
	Fault  mutation  `json:"fault"`            // Op "none": clean attempt; "dial-fail": stream cannot be opened
	Fault2 *mutation `json:"fault2,omitempty"` // thorough: a second, PRNG-chosen corruption
	Basis  string    `json:"basis"`            // same | behind:k | fork:k | fork-known:k
	Inputs string    `json:"inputs"`           // confirmed | unconfirmed
	Phase  string    `json:"phase"`            // abort | corrupt | storm | clean-after-storm | inject | clean-after-inject | contract-state
	// Contract is the state of the contract to renew / refresh: "" (confirmed),
	// unconfirmed (formation still pooled), unknown, renewed, expired
	Contract string `json:"contract,omitempty"`
	// Mid moves the chain DURING the exchange: "<point>:<blocks>:<relay>:<poke>"
	// with point in R0|H0|sign|R1|H1 (before that message is forwarded / inside
	// the renter's signer callback), 1..3 blocks mined on the host's node,
	// relay host|both (also fed to the renter's node at once), poke yes|no (the
	// first block carries a bystander transaction that changes the accumulator)
	Mid string `json:"mid,omitempty"`
	// NoDeadline: the caller's context has no deadline (context.Background())
	NoDeadline bool `json:"no_deadline,omitempty"`
}

func (c c16Case) sig() string {
	f := c.Fault.String()
	if c.Fault2 != nil {
		f += "+" + c.Fault2.String()
	}
	if c.Contract != "" {
		f += "/contract-" + c.Contract
	}
	if c.Mid != "" {
		f += "/mid-" + c.Mid
	}
	if c.NoDeadline {
		f += "/ctx-without-deadline"
	}
	return fmt.Sprintf("%s/%s/%s/%s/%s", c.RPC, c.Phase, f, c.Basis, c.Inputs)
}

// faultPoint is the short stable name of a fault location used in violation
// signatures (no field paths: those go into the replay case).
func (c c16Case) faultPoint() string {
	switch {
	case c.Fault2 != nil:
		return "double-corruption"
	case c.Fault.Op == "none" || c.Fault.Op == "dial-fail":
		return c.Fault.Op
	case strings.HasPrefix(c.Fault.Op, "inject:"):
		m := strings.TrimPrefix(c.Fault.Op, "inject:")
		if i := strings.IndexByte(m, '#'); i >= 0 {
			m = m[:i]
		}
		return "inject-" + m
	case strings.HasPrefix(c.Fault.Op, "signer:"):
		return c.Fault.Op
	case c.Fault.Path != "":
		return fmt.Sprintf("corrupt-%s%d", c.Fault.Dir, c.Fault.Msg)
	default:
		return fmt.Sprintf("%s-%s%d", c.Fault.Op, c.Fault.Dir, c.Fault.Msg)
	}
}

// cause is the last component of a violation signature: the basis relation
// if there is one (the same root cause shows at every fault point then), the
// renter-supplied basis if that is what was corrupted, else the fault point.
// For a double corruption the more specific of the two faults decides.
func (c c16Case) cause() string {
	if c.Fault.Op == "dial-fail" {
		return "dial-fail"
	}
	if c.Mid != "" {
		return "block-mid-rpc"
	}
	if c.Contract != "" {
		return "contract-" + c.Contract
	}
	if strings.HasPrefix(c.Fault.Op, "inject:") || strings.HasPrefix(c.Fault.Op, "signer:") {
		return c.faultPoint()
	}
	faults := []mutation{c.Fault}
	if c.Fault2 != nil {
		faults = append(faults, *c.Fault2)
	}
	for _, f := range faults {
		if f.Dir == "R" && f.Msg == 0 && strings.HasPrefix(f.Path, "Basis") {
			return "renter-basis-unusable-for-host"
		}
	}
	switch {
	case strings.HasPrefix(c.Basis, "fork"):
		return "renter-basis-unusable-for-host"
	case strings.HasPrefix(c.Basis, "behind"):
		return "renter-basis-behind"
	}
	if c.Fault2 != nil {
		for _, f := range faults {
			if f.Dir == "H" && f.Msg == 1 {
				return "corrupt-H1"
			}
		}
		return c16Case{Fault: c.Fault}.faultPoint()
	}
	return c.faultPoint()
}

// c16Lab is one two-node lab dedicated to one RPC.
type c16Lab struct {
	r    *mon.Run
	l    *rhpmitm.Lab
	rpc  string
	pool *sparePool // contracts to renew / refresh
	kit  renewalKit
	dead bool
	only *c16Case
	k    int
	last string
	// lastCounts are the interface calls of the last attempt (method -> count)
	lastCounts map[string]int
	midHook    func(m *rhpmitm.Msg)
}

type econ struct{ host, renter types.Currency }

// econSnap is the total wealth (confirmed + immature) of both wallets; only
// meaningful while both pools are empty.
func (x *c16Lab) econSnap() (econ, error) {
	hb, err := x.l.HostWallet.W.Balance()
	if err != nil {
		return econ{}, err
	}
	rb, err := x.l.RentWallet.W.Balance()
	if err != nil {
		return econ{}, err
	}
	return econ{hb.Confirmed.Add(hb.Immature), rb.Confirmed.Add(rb.Immature)}, nil
}

func (x *c16Lab) fail(where string, err error) {
	harnessFail(x.r, "C16 "+x.rpc+" "+where+" (previous case "+x.last+")", err)
	x.dead = true
}

// sweep moves every spendable renter output into one unconfirmed output, so
// that the next funding has to use an unconfirmed input with a parent.
func (x *c16Lab) sweep() (types.Currency, error) { return x.sweepInto(1) }

// sweepInto moves every spendable renter output into n equal unconfirmed outputs.
func (x *c16Lab) sweepInto(n int) (types.Currency, error) {
	w := x.l.RentWallet.W
	outs, err := w.SpendableOutputs()
	if err != nil {
		return types.ZeroCurrency, err
	}
	var sum types.Currency
	for _, o := range outs {
		sum = sum.Add(o.SiacoinOutput.Value)
	}
	fee := w.RecommendedFee().Mul64(2000)
	if len(outs) == 0 || sum.Cmp(fee) <= 0 {
		return types.ZeroCurrency, fmt.Errorf("%w: nothing to sweep", rhpmitm.ErrHarness)
	}
	txn := types.V2Transaction{MinerFee: fee}
	part := sum.Sub(fee).Div64(uint64(n))
	for i := 0; i < n; i++ {
		v := part
		if i == n-1 {
			v = sum.Sub(fee).Sub(part.Mul64(uint64(n - 1)))
		}
		txn.SiacoinOutputs = append(txn.SiacoinOutputs, types.SiacoinOutput{Address: w.Address(), Value: v})
	}
	basis, toSign, err := w.FundV2Transaction(&txn, sum, false)
	if err != nil {
		return types.ZeroCurrency, fmt.Errorf("%w: sweep funding: %v", rhpmitm.ErrHarness, err)
	}
	w.SignV2Inputs(&txn, toSign)
	if _, err := x.l.RenterNode.CM.AddV2PoolTransactions(basis, []types.V2Transaction{txn}); err != nil {
		w.ReleaseInputs(nil, []types.V2Transaction{txn})
		return types.ZeroCurrency, fmt.Errorf("%w: sweep rejected: %v", rhpmitm.ErrHarness, err)
	}
	return fee, nil
}

// poolSpent returns the outputs spent by the transactions in a node's pool.
func poolSpent(n *rhpmitm.Node) map[types.SiacoinOutputID]bool {
	out := make(map[types.SiacoinOutputID]bool)
	for _, txn := range n.CM.V2PoolTransactions() {
		for _, in := range txn.SiacoinInputs {
			out[in.Parent.ID] = true
		}
	}
	return out
}

// pooledContractIDs lists the contracts that transactions in the node's pool
// would create or resolve (the pooled formation of a still-unconfirmed
// existing contract excepted).
func pooledContractIDs(n *rhpmitm.Node, existing *rhp.ContractRevision, existingPooled bool) []types.FileContractID {
	var ids []types.FileContractID
	for _, txn := range n.CM.V2PoolTransactions() {
		txid := txn.ID()
		for i := range txn.FileContracts {
			id := txn.V2FileContractID(txid, i)
			if existingPooled && existing != nil && id == existing.ID {
				continue
			}
			ids = append(ids, id)
		}
		for _, res := range txn.FileContractResolutions {
			ids = append(ids, res.Parent.ID)
		}
	}
	return ids
}

// contractInState hands out a contract to renew / refresh in the given state.
func (x *c16Lab) contractInState(state string) (rhp.ContractRevision, error) {
	l := x.l
	switch state {
	case "":
		return x.pool.take()
	case "unconfirmed":
		// formed, the host knows it and can lock it, but the formation is still
		// in the pool: the host has no state element for it yet
		res, err := l.Form(l.FormParams(types.Siacoins(100), types.Siacoins(200), 400))
		if err != nil {
			return rhp.ContractRevision{}, fmt.Errorf("%w: honest formation failed: %v", rhpmitm.ErrHarness, err)
		}
		if l.RenterNode != l.HostNode {
			if _, err := l.RenterNode.CM.AddV2PoolTransactions(res.FormationSet.Basis, res.FormationSet.Transactions); err != nil {
				return rhp.ContractRevision{}, fmt.Errorf("%w: renter pool rejects formation set: %v", rhpmitm.ErrHarness, err)
			}
		}
		return res.Contract, l.Barrier()
	case "just-confirmed":
		// confirmed in the LATEST block: every further block changes its proof
		cs, err := l.FormConfirmed(1, types.Siacoins(100), types.Siacoins(200), 400)
		if err != nil {
			return rhp.ContractRevision{}, err
		}
		return cs[0], nil
	case "unknown":
		c, err := x.pool.take()
		if err != nil {
			return c, err
		}
		x.pool.giveBack(c)
		c.ID[0] ^= 0xff
		c.ID[31] ^= byte(x.k + 1)
		return c, nil
	case "renewed":
		c, err := x.pool.take()
		if err != nil {
			return c, err
		}
		ctx, cancel := rhpmitm.Ctx()
		_, set, err := x.kit.call(ctx, l, c, 0)
		cancel()
		if err != nil {
			return c, fmt.Errorf("%w: honest %s failed: %v", rhpmitm.ErrHarness, x.rpc, err)
		}
		if err := l.Barrier(); err != nil {
			return c, err
		}
		if l.RenterNode != l.HostNode {
			l.RenterNode.CM.AddV2PoolTransactions(set.Basis, set.Transactions)
		}
		return c, l.Mine(types.VoidAddress, 1)
	case "expired":
		cs, err := l.FormConfirmed(1, types.Siacoins(100), types.Siacoins(200), 20)
		if err != nil {
			return rhp.ContractRevision{}, err
		}
		return cs[0], l.Mine(types.VoidAddress, 21)
	}
	return rhp.ContractRevision{}, fmt.Errorf("%w: unknown contract state %q", rhpmitm.ErrHarness, state)
}

// attemptResult is what one monitored formation / renewal returned.
type attemptResult struct {
	Contract rhp.ContractRevision
	Set      rhp.TransactionSet
}

// expectation is what the renter computes locally for the attempt.
type expectation struct {
	contract   types.V2FileContract // without signatures
	id         func(res attemptResult) types.FileContractID
	costs      func(cs consensus.State, fee types.Currency) (renter, host types.Currency)
	finalRent  types.Currency // paid out to the renter by the renewal
	finalHost  types.Currency
	existingID *types.FileContractID
}

func (x *c16Lab) prepareCall(existing *rhp.ContractRevision) (func(ctx context.Context) (any, error), expectation) {
	l := x.l
	x.k++
	k := x.k % 7
	if x.rpc == "form" {
		params := formationParams(l, k)
		fc, _ := rhp4.NewContract(l.Prices, params, l.HostKey.PublicKey(), l.HostAddr)
		exp := expectation{contract: fc,
			costs: func(cs consensus.State, fee types.Currency) (types.Currency, types.Currency) {
				return rhp4.ContractCost(cs, fc, fee)
			}}
		return func(ctx context.Context) (any, error) {
			res, err := rhp.RPCFormContract(ctx, l.T, l.RentPool, l.Signer, l.RenterNode.CM.TipState(), l.Prices, l.HostKey.PublicKey(), l.HostAddr, params)
			return attemptResult{res.Contract, res.FormationSet}, err
		}, exp
	}
	renewal := x.kit.local(l, *existing, k)
	exp := expectation{contract: renewal.NewContract, finalRent: renewal.FinalRenterOutput.Value, finalHost: renewal.FinalHostOutput.Value, existingID: &existing.ID}
	if x.rpc == "renew" {
		exp.costs = func(cs consensus.State, fee types.Currency) (types.Currency, types.Currency) {
			return rhp4.RenewalCost(cs, renewal, fee)
		}
	} else {
		exp.costs = func(cs consensus.State, fee types.Currency) (types.Currency, types.Currency) {
			return rhp4.RefreshCost(cs, l.Prices, renewal, fee)
		}
	}
	ex := *existing
	return func(ctx context.Context) (any, error) {
		c, set, err := x.kit.call(ctx, l, ex, k)
		return attemptResult{c, set}, err
	}, exp
}

// reservedNotReleased lists the inputs a wallet funded during the attempt and
// did not release afterwards, according to the recording proxy.
func reservedNotReleased(w *rhpmitm.Wallet) []types.SiacoinOutputID {
	held := map[types.SiacoinOutputID]bool{}
	var order []types.SiacoinOutputID
	for _, c := range w.Calls() {
		switch c.Op {
		case "FundV2Transaction":
			if c.Err == "" {
				for _, id := range c.Inputs {
					if !held[id] {
						order = append(order, id)
					}
					held[id] = true
				}
			}
		case "ReleaseInputs":
			for _, id := range c.Inputs {
				held[id] = false
			}
		}
	}
	var out []types.SiacoinOutputID
	for _, id := range order {
		if held[id] {
			out = append(out, id)
		}
	}
	return out
}

func forceRelease(w *rhpmitm.Wallet, ids []types.SiacoinOutputID) {
	if len(ids) == 0 {
		return
	}
	var txn types.V2Transaction
	for _, id := range ids {
		txn.SiacoinInputs = append(txn.SiacoinInputs, types.V2SiacoinInput{Parent: types.SiacoinElement{ID: id}})
	}
	w.W.ReleaseInputs(nil, []types.V2Transaction{txn})
}

// chainDiffs collects the v2 contract element diffs of the blocks applied on
// the host node after index.
func chainDiffs(l *rhpmitm.Lab, since types.ChainIndex) (map[types.FileContractID][]consensus.V2FileContractElementDiff, error) {
	out := make(map[types.FileContractID][]consensus.V2FileContractElementDiff)
	for {
		reverted, applied, err := l.HostNode.CM.UpdatesSince(since, 100)
		if err != nil {
			return nil, err
		}
		if len(reverted) > 0 {
			return nil, fmt.Errorf("%w: unexpected revert while confirming", rhpmitm.ErrHarness)
		}
		if len(applied) == 0 {
			return out, nil
		}
		for _, cau := range applied {
			for _, d := range cau.V2FileContractElementDiffs() {
				out[d.V2FileContractElement.ID] = append(out[d.V2FileContractElement.ID], d)
			}
			since = cau.State.Index
		}
	}
}

// attempt runs one case end to end. noCleanup skips the confirming block (used
// inside abort storms, where nothing may be left to confirm anyway).
func (x *c16Lab) attempt(cse c16Case, noCleanup bool) (succeeded bool) {
	if x.dead {
		return false
	}
	if x.only != nil && x.only.sig() != cse.sig() {
		return false
	}
	l, r := x.l, x.r
	defer func() { x.last = cse.sig() }()
	// signature = class : rpc : cause, where the cause is the basis relation if
	// there is one (the same root cause shows at every fault point then) and the
	// fault point otherwise
	cause := cse.cause()
	viol := func(class, what string, detail any) {
		r.Violation(fmt.Sprintf("%s:%s:%s", class, x.rpc, cause), what, cse, detail)
	}

	if err := l.RefreshPrices(); err != nil {
		x.fail("settings", err)
		return
	}
	var existing *rhp.ContractRevision
	skipEcon := false
	if x.rpc != "form" {
		c, err := x.contractInState(cse.Contract)
		if err != nil {
			x.fail("contract in state '"+cse.Contract+"'", err)
			return
		}
		existing = &c
		skipEcon = cse.Contract == "unconfirmed" // its formation is still pooled
		if cse.Contract != "" {
			r.Count("contract_state:"+cse.Contract, 1)
		}
	}
	e0, err := x.econSnap()
	if err != nil {
		x.fail("econ", err)
		return
	}

	// ---- basis relation ----
	var hostOnly, fork []types.Block
	kind, depth := cse.Basis, 0
	if i := strings.IndexByte(cse.Basis, ':'); i >= 0 {
		kind = cse.Basis[:i]
		fmt.Sscanf(cse.Basis[i+1:], "%d", &depth)
	}
	switch kind {
	case "behind":
		if hostOnly, err = l.HostNode.MineTo(types.VoidAddress, depth); err != nil {
			x.fail("mine", err)
			return
		}
	case "fork", "fork-known":
		if fork, err = l.RenterNode.MineTo(types.VoidAddress, depth); err != nil {
			x.fail("mine fork", err)
			return
		}
		if hostOnly, err = l.HostNode.MineTo(types.VoidAddress, depth+1); err != nil {
			x.fail("mine", err)
			return
		}
		if kind == "fork-known" {
			if err := l.HostNode.AddBlocks(fork); err != nil {
				x.fail("relay fork to host", err)
				return
			}
		}
	}
	if kind != "same" {
		r.Count("basis_relation:"+kind, 1)
	}

	// ---- renter inputs ----
	sweepFee := types.ZeroCurrency
	if cse.Inputs == "unconfirmed" {
		if sweepFee, err = x.sweep(); err != nil {
			x.fail("sweep", err)
			return
		}
	}

	call, exp := x.prepareCall(existing)

	hostPre, err1 := l.HostWallet.Snapshot()
	rentPre, err2 := l.RentWallet.Snapshot()
	if err1 != nil || err2 != nil {
		x.fail("snapshot", fmt.Errorf("%v %v", err1, err2))
		return
	}
	// what each wallet could fund right now (renter: also from unconfirmed outputs)
	rentFundable := rentPre.Balance.Spendable.Add(rentPre.Balance.Unconfirmed)
	hostFundable := hostPre.Balance.Spendable
	l.HostWallet.ResetCalls()
	l.RentWallet.ResetCalls()
	l.Contractor.ResetEvents()

	// ---- the attempt ----
	ap := &applied{}
	var emittedR1 bool
	var fee types.Currency
	var renterInputsUnconfirmed bool
	var midOnce sync.Once
	var midMu sync.Mutex
	var midBlocks []types.Block
	var midErr error
	midPoint, midRelayBoth := "", false
	if cse.Mid != "" {
		parts := strings.Split(cse.Mid, ":")
		if len(parts) != 4 {
			x.fail("mid spec", fmt.Errorf("bad spec %q", cse.Mid))
			return
		}
		midPoint, midRelayBoth = parts[0], parts[2] == "both"
		depth := 1
		fmt.Sscanf(parts[1], "%d", &depth)
		poke := parts[3] == "poke"
		mineMid := func() {
			midOnce.Do(func() {
				var err error
				if poke {
					err = l.Poke()
				}
				var blocks []types.Block
				if err == nil {
					blocks, err = l.HostNode.MineTo(types.VoidAddress, depth)
				}
				if err == nil {
					err = l.Relay(blocks, midRelayBoth)
				}
				midMu.Lock()
				midBlocks, midErr = blocks, err
				midMu.Unlock()
				r.Count("blocks_mined_mid_rpc", len(blocks))
				r.Count("mid_rpc_points_hit:"+midPoint, 1)
			})
		}
		if midPoint == "sign" {
			l.Signer.OnSign = mineMid
			defer func() { l.Signer.OnSign = nil }()
		}
		x.midHook = func(m *rhpmitm.Msg) {
			if midPoint == fmt.Sprintf("%s%d", m.Dir, m.Index) && !m.Synthetic {
				mineMid()
			}
		}
	} else {
		x.midHook = nil
	}
	hostFinalErr := false
	ap.extraFun = func(m *rhpmitm.Msg) {
		if x.midHook != nil {
			x.midHook(m)
		}
		if m.Dir == rhpmitm.HostToRenter && m.Index == 1 && !m.Synthetic && m.Err != nil && cse.Fault.Op != "rpcerror" {
			ap.mu.Lock()
			hostFinalErr = true
			ap.mu.Unlock()
		}
		if m.Dir != rhpmitm.RenterToHost {
			return
		}
		ap.mu.Lock()
		defer ap.mu.Unlock()
		if m.Index == 1 {
			emittedR1 = true
		}
		if m.Index == 0 {
			switch o := m.Obj.(type) {
			case *rhp4.RPCFormContractRequest:
				fee, renterInputsUnconfirmed = o.MinerFee, len(o.RenterParents) > 0
			case *rhp4.RPCRenewContractRequest:
				fee, renterInputsUnconfirmed = o.MinerFee, len(o.RenterParents) > 0
			case *rhp4.RPCRefreshContractRequest:
				fee, renterInputsUnconfirmed = o.MinerFee, len(o.RenterParents) > 0
			}
		}
	}
	switch {
	case strings.HasPrefix(cse.Fault.Op, "inject:"), strings.HasPrefix(cse.Fault.Op, "signer:"):
		// interface failure / signer behaviour: the wire is left alone (set below)
	case cse.Fault.Op == "none":
		l.T.SetHook(faultHook(nil, nil, nil, ap))
	case cse.Fault.Op == "dial-fail":
		l.T.SetHook(faultHook(nil, nil, nil, ap))
		l.T.FailNextDials(1)
	default:
		muts := []mutation{cse.Fault}
		if cse.Fault2 != nil {
			muts = append(muts, *cse.Fault2)
		}
		l.T.SetHook(faultHook(muts, nil, nil, ap))
	}
	injMethod, injOcc := "", 0
	if m, ok := strings.CutPrefix(cse.Fault.Op, "inject:"); ok {
		injMethod = m
		if i := strings.IndexByte(m, '#'); i >= 0 {
			injMethod = m[:i]
			fmt.Sscanf(m[i+1:], "%d", &injOcc)
		}
		l.T.SetHook(faultHook(nil, nil, nil, ap))
	}
	if cse.Fault.Op == "signer:fee-zero" {
		l.Signer.FeeOverride = &types.ZeroCurrency
		l.T.SetHook(faultHook(nil, nil, nil, ap))
	}
	tipBeforeCall := l.HostNode.CM.Tip()
	l.Inj.Begin(injMethod, injOcc)
	deadline := callDeadline
	if cse.Fault.Op == "silent" {
		deadline = silentDeadline // the peer never answers: the call ends at its context deadline
	}
	var out outcome
	dialsBefore, _ := l.T.Dials()
	if cse.NoDeadline {
		// the caller gives no deadline: the client has to arm one on the stream
		// itself. The lab compresses whatever it arms to 500 ms; a call that is
		// still blocked after 15 s is unblocked by killing its stream.
		l.T.SetDeadlineCap(500 * time.Millisecond)
		out = monitoredCallCtx(15*time.Second, true, l.T.KillLastStream, call)
		l.T.SetDeadlineCap(0)
	} else {
		out = monitoredCall(deadline, call)
	}
	l.T.SetHook(nil)
	l.T.FailNextDials(0)
	l.Signer.FeeOverride = nil
	r.Eval()
	r.Count("attempts:"+x.rpc, 1)
	if cse.NoDeadline {
		r.Count("calls_with_deadline_less_context", 1)
		if dialsAfter, _ := l.T.Dials(); dialsAfter > dialsBefore {
			if !l.T.DeadlineArmed() {
				viol("no-deadline-armed-on-stream", "the caller's context has no deadline and the client armed none on the stream: against a silent host the call blocks for ever with the renter's outputs reserved", map[string]any{"returned_only_after_the_lab_killed_the_stream": out.Unblocked})
			} else {
				r.Count("default_stream_deadline_armed", 1)
				if out.Unblocked {
					viol("hang", "a deadline was armed on the stream but the call did not return when it expired", out.Duration.String())
				}
			}
		}
	}
	if out.Hung {
		viol("hang", "client call did not return within its context deadline plus slack", out.Duration.String())
		x.dead = true
		return
	}
	if err := l.Barrier(); err != nil {
		x.fail("barrier", err)
		return
	}
	midMu.Lock()
	if midErr != nil {
		midMu.Unlock()
		x.fail("mining mid-RPC", midErr)
		return
	}
	if !midRelayBoth {
		hostOnly = append(hostOnly, midBlocks...)
	}
	nMid := len(midBlocks)
	midMu.Unlock()
	if cse.Mid != "" && nMid == 0 {
		r.Count("mid_rpc_point_not_reached", 1)
	}
	counts, _, fired := l.Inj.End()
	x.lastCounts = counts
	if injMethod != "" {
		if fired {
			r.Count("injected_interface_failures", 1)
			r.SetAdd("injected_methods", x.rpc+":"+injMethod)
		} else {
			r.Count("injection_point_not_reached", 1)
		}
	}
	ap.mu.Lock()
	hit, changed := ap.Hit, ap.Changed
	sawR1, feeSeen, unconf := emittedR1, fee, renterInputsUnconfirmed
	ap.mu.Unlock()
	if cse.Mid != "" && nMid == 0 {
		// the exchange ended before the point: nothing moved
	} else if cse.Fault.Op == "none" || cse.Fault.Op == "dial-fail" || changed > 0 || (injMethod != "" && fired) || strings.HasPrefix(cse.Fault.Op, "signer:") {
		r.Distinct(cse.sig())
	} else if hit == 0 {
		r.Count("fault_site_not_reached", 1)
	} else {
		r.Count("faults_without_wire_change", 1)
	}
	r.SetAdd("fault_points", x.rpc+":"+cse.faultPoint())
	if cse.Inputs == "unconfirmed" && unconf {
		r.Count("attempts_funded_with_unconfirmed_parent", 1)
	}
	if out.Panic != nil {
		viol("client-panic", fmt.Sprintf("client call panicked: %v", out.Panic), map[string]any{"panic": fmt.Sprint(out.Panic), "stack": out.Stack})
	}

	var committed *rhpmitm.ContractEvent
	for _, ev := range l.Contractor.Events() {
		if ev.Err == nil {
			ev := ev
			committed = &ev
		}
	}
	res, _ := out.Res.(attemptResult)
	ok := out.Err == nil && out.Panic == nil
	if os.Getenv("VERIF_DEBUG") != "" {
		fmt.Printf("DEBUG %s -> err=%v committed=%v\n", cse.sig(), out.Err, committed != nil)
	}
	hostLeak, rentLeak := reservedNotReleased(l.HostWallet), reservedNotReleased(l.RentWallet)
	residue := false
	if existing != nil && cse.Contract != "unknown" && l.Contractor.Locked(existing.ID) {
		viol("contract-lock-left-held", "after the attempt (behind the quiescence barrier) the host still holds the lock of the existing contract", existing.ID)
		x.dead = true // the lab's contract pool is poisoned
	}
	cs := l.HostNode.CM.TipState()
	sigsValid := func(fc types.V2FileContract) bool {
		h := cs.ContractSigHash(fc)
		return l.HostKey.PublicKey().VerifyHash(h, fc.HostSignature) && l.RenterKey.PublicKey().VerifyHash(h, fc.RenterSignature)
	}

	switch {
	case ok:
		succeeded = true
		r.Count("renter_success", 1)
		r.Count("renter_success:"+kind+":"+cse.Inputs, 1)
		switch {
		case committed == nil:
			viol("success-without-host-contract", "the renter's call succeeded but the host recorded no contract", nil)
		case !sigsValid(res.Contract.Revision):
			viol("success-contract-signatures-invalid", "the contract returned by the successful call is not validly signed by both parties (host stored a different object)", map[string]any{"renter": res.Contract, "host_id": committed.ID, "host": committed.Contract})
		case committed.ID != res.Contract.ID || committed.Contract != res.Contract.Revision:
			viol("success-contract-differs-from-host", "the contract the renter's call returned is not the contract the host stored", map[string]any{"renter": res.Contract, "host_id": committed.ID, "host": committed.Contract})
		case sansSigs(res.Contract.Revision) != sansSigs(exp.contract):
			viol("success-contract-not-as-agreed", "the returned contract differs from the contract the renter asked for", map[string]any{"returned": res.Contract.Revision, "agreed": exp.contract})
		}
		if committed != nil {
			if st, err := l.Contractor.State(committed.ID); err != nil || st.Revision != committed.Contract {
				viol("host-state-differs-from-commit", "the host's contract state differs from what it committed", fmt.Sprint(err))
			}
		}
		if _, err := l.HostNode.CM.AddV2PoolTransactions(res.Set.Basis, res.Set.Transactions); err != nil {
			// two classes: the returned set is a different transaction than the one
			// the host committed and broadcast (ids differ), or it is that
			// transaction with unusable witness data (basis, proofs, signatures)
			sameID := false
			if committed != nil && len(committed.Set.Transactions) > 0 && len(res.Set.Transactions) > 0 {
				a, b := committed.Set.Transactions[len(committed.Set.Transactions)-1], res.Set.Transactions[len(res.Set.Transactions)-1]
				sameID = a.ID() == b.ID()
			}
			d := map[string]any{"basis": res.Set.Basis, "transactions": len(res.Set.Transactions), "pool_error": err.Error()}
			if sameID {
				viol("success-set-witness-rejected-by-pool", "the successful call returned the host's transaction with a basis / proofs / signatures the transaction pool does not accept", d)
			} else {
				viol("success-set-not-the-committed-transaction", "the successful call returned a transaction set that is not the transaction the host committed, and the transaction pool does not accept it", d)
			}
		}
	case committed != nil:
		r.Count("host_committed_but_renter_saw_failure", 1)
		if hostFinalErr && injMethod == "" {
			// nobody made an interface call fail, yet the handler recorded the
			// contract and then FAILED: "fails => no contract recorded" is broken
			viol("host-failed-after-recording-contract", "the host's handler recorded the contract (and pooled the transaction) and then ended with an error: the exchange failed but left a contract behind", map[string]any{"contract": committed.ID, "renter_error": fmt.Sprint(out.Err)})
		}
		if !sawR1 {
			viol("host-commit-without-renter-signatures", "the host recorded a contract although the renter never sent its signatures", committed.ID)
		}
		if !sigsValid(committed.Contract) {
			viol("host-commit-signatures-invalid", "the host recorded a contract that is not validly signed by both parties", committed.Contract)
		}
		if sansSigs(committed.Contract) != sansSigs(exp.contract) {
			viol("host-commit-not-as-agreed", "the host recorded a contract that differs from the one the renter signed", map[string]any{"host": committed.Contract, "agreed": exp.contract})
		}
	default:
		r.Count("failed_without_trace_expected", 1)
		hostPost, err1 := l.HostWallet.Snapshot()
		rentPost, err2 := l.RentWallet.Snapshot()
		if err1 != nil || err2 != nil {
			x.fail("snapshot", fmt.Errorf("%v %v", err1, err2))
			return
		}
		// outputs that are unspendable because a transaction spending them sits in
		// the node's pool are not reservations: they are accounted separately
		hostWant, hostResidue := hostPre.Without(poolSpent(l.HostNode))
		rentWant, rentResidue := rentPre.Without(poolSpent(l.RenterNode))
		if hostResidue+rentResidue > 0 || len(pooledContractIDs(l.HostNode, existing, cse.Contract == "unconfirmed")) > 0 {
			// a fully signed transaction was pooled before the host failed: no
			// contract is recorded and nothing is reserved, but the pooled
			// transaction remains (no handler order can avoid one of the two
			// residues when the step after pooling fails)
			r.Count("pool_residue_after_uncommitted_failure", 1)
			residue = true
			if injMethod == "" {
				viol("pooled-transaction-left-after-failure", "the attempt failed without the host recording a contract, but its transaction sits in the host's pool (nobody made an interface call fail)", map[string]any{"pooled_contracts": pooledContractIDs(l.HostNode, existing, cse.Contract == "unconfirmed")})
			}
		}
		hostPre, rentPre = hostWant, rentWant
		if nMid > 0 {
			// the chain grew during the attempt: immature outputs may have matured
			// meanwhile, so the spendable set may only have grown - everything
			// that was spendable before must still be
			hostPost, rentPost = hostPost.RestrictTo(hostPre), rentPost.RestrictTo(rentPre)
		}
		if !hostPost.EqualModuloUnconfirmed(hostPre) || len(hostLeak) > 0 {
			viol("host-inputs-not-released", "after a failed attempt the host wallet's spendable set differs from before / funded inputs were never released", map[string]any{"before": hostPre, "after": hostPost, "reserved_not_released": hostLeak, "calls": l.HostWallet.Calls()})
		}
		if !rentPost.EqualModuloUnconfirmed(rentPre) || len(rentLeak) > 0 {
			viol("renter-inputs-not-released", "after a failed attempt the renter wallet's spendable set differs from before / funded inputs were never released", map[string]any{"before": rentPre, "after": rentPost, "reserved_not_released": rentLeak, "calls": l.RentWallet.Calls(), "error": fmt.Sprint(out.Err)})
		}
		if len(hostLeak) > 0 || len(rentLeak) > 0 {
			r.Count("reservation_leaks_observed", 1)
		}
		// the semantic form of "released": everything the wallet could fund
		// before the attempt - confirmed AND unconfirmed (ephemeral) outputs - can
		// be funded again right now
		if !residue {
			probe := func(w *rhpmitm.Wallet, amount types.Currency, useUnconfirmed bool, side string) {
				if amount.IsZero() {
					return
				}
				var txn types.V2Transaction
				_, _, err := w.W.FundV2Transaction(&txn, amount, useUnconfirmed)
				if err != nil {
					viol(side+"-funds-not-fundable-again", "after a failed attempt the wallet can no longer fund the amount it could fund before the attempt: "+err.Error(), map[string]any{"amount": amount, "use_unconfirmed": useUnconfirmed, "inputs": cse.Inputs, "calls": w.Calls()})
					return
				}
				w.W.ReleaseInputs(nil, []types.V2Transaction{txn})
				r.Count("refunding_probes", 1)
				if useUnconfirmed && cse.Inputs == "unconfirmed" {
					r.Count("refunding_probes_with_unconfirmed_outputs", 1)
				}
			}
			probe(l.RentWallet, rentFundable, true, "renter")
			probe(l.HostWallet, hostFundable, false, "host")
		}
	}
	if x.rpc != "form" && committed == nil && cse.Contract == "" && !residue {
		x.pool.giveBack(*existing)
	}
	if noCleanup && committed == nil {
		return
	}
	// independent cases: whatever leaked is released by force
	if committed == nil {
		forceRelease(l.HostWallet, hostLeak)
		forceRelease(l.RentWallet, rentLeak)
	}

	// ---- re-converge, confirm, observe the chain ----
	if l.RenterNode != l.HostNode {
		if err := l.RenterNode.AddBlocks(hostOnly); err != nil {
			x.fail("re-converge", err)
			return
		}
		if l.RenterNode.CM.Tip() != l.HostNode.CM.Tip() {
			x.fail("re-converge", fmt.Errorf("tips differ: host %v renter %v", l.HostNode.CM.Tip(), l.RenterNode.CM.Tip()))
			return
		}
		if txns := l.RenterNode.CM.V2PoolTransactions(); len(txns) > 0 {
			l.HostNode.CM.AddV2PoolTransactions(l.RenterNode.CM.Tip(), txns)
		}
	}
	before := tipBeforeCall // blocks mined mid-RPC may already hold the contract
	if l.Observer != nil {
		// (blocks mined mid-RPC were relayed to the observer when they were mined)
		basisBlocks := hostOnly
		if !midRelayBoth && nMid > 0 {
			basisBlocks = hostOnly[:len(hostOnly)-nMid]
		}
		if err := l.Observer.AddBlocks(basisBlocks); err != nil || l.Observer.CM.Tip() != l.HostNode.CM.Tip() {
			x.fail("observer re-converge", fmt.Errorf("%v (observer %v host %v)", err, l.Observer.CM.Tip(), l.HostNode.CM.Tip()))
			return
		}
		if ok {
			// the judge: a pool nobody has touched, at the current tip, that knows
			// every block including the claimed basis
			if _, err := l.Observer.CM.AddV2PoolTransactions(res.Set.Basis, res.Set.Transactions); err != nil {
				viol("success-set-rejected-by-independent-pool", "both sides report success, but an independent pool at the current tip rejects the (basis, transaction set) pair the renter's call returned: "+err.Error(), map[string]any{"returned_basis": res.Set.Basis, "tip": l.Observer.CM.Tip(), "transactions": len(res.Set.Transactions)})
			} else {
				r.Count("sets_accepted_by_independent_pool", 1)
				// ... and it is that pool's copy that gets mined
				blocks, err := l.Observer.MineTo(types.VoidAddress, 1)
				if err == nil {
					err = l.HostNode.AddBlocks(blocks)
				}
				if err == nil && l.RenterNode != l.HostNode {
					err = l.RenterNode.AddBlocks(blocks)
				}
				if err != nil {
					x.fail("confirming from the independent pool", err)
					return
				}
			}
		}
	}
	for i := 0; i < 3 && (i == 0 && (l.Observer == nil || !ok) || len(l.HostNode.CM.V2PoolTransactions()) > 0 || len(l.RenterNode.CM.V2PoolTransactions()) > 0); i++ {
		if err := l.Mine(types.VoidAddress, 1); err != nil {
			x.fail("confirm", err)
			return
		}
	}
	diffs, err := chainDiffs(l, before)
	if err != nil {
		x.fail("chain diffs", err)
		return
	}
	if committed != nil {
		found := false
		for _, d := range diffs[committed.ID] {
			if d.Created && d.V2FileContractElement.V2FileContract == committed.Contract {
				found = true
			}
		}
		if found {
			r.Count("contracts_observed_on_chain", 1)
		} else {
			viol("contract-not-confirmed", "after mining, the chain holds no v2 contract element with the committed id and exactly the committed contract", map[string]any{"id": committed.ID, "diffs": len(diffs[committed.ID])})
		}
		if exp.existingID != nil {
			resolved := false
			for _, d := range diffs[*exp.existingID] {
				if _, ok := d.Resolution.(*types.V2FileContractRenewal); ok {
					resolved = true
				}
			}
			if !resolved {
				viol("renewal-not-confirmed", "after mining, the existing contract was not resolved by a renewal", *exp.existingID)
			}
		}
	} else if residue {
		r.Count("residue_transactions_confirmed_by_lab_mining", 1)
	} else {
		for id, ds := range diffs {
			for _, d := range ds {
				if existing != nil && cse.Contract == "unconfirmed" && id == existing.ID && d.Created && d.Resolution == nil {
					continue // the existing contract's own, honest formation
				}
				if d.Created || d.Resolution != nil {
					viol("contract-on-chain-after-failure", "a contract was created / resolved on chain although the attempt failed without the host recording it", id)
				}
			}
		}
	}
	if len(l.HostNode.CM.V2PoolTransactions()) > 0 || len(l.RenterNode.CM.V2PoolTransactions()) > 0 {
		r.Count("pool_not_drained_after_case", 1)
		return
	}
	defer x.releaseAll()
	if skipEcon || (residue && committed == nil) {
		r.Count("economic_check_not_applicable", 1)
		return
	}
	e1, err := x.econSnap()
	if err != nil {
		x.fail("econ", err)
		return
	}
	wantRent, wantHost := sweepFee, types.ZeroCurrency
	var gainRent, gainHost types.Currency
	if committed != nil {
		rc, hc := exp.costs(cs, feeSeen)
		wantRent, wantHost = wantRent.Add(rc), wantHost.Add(hc)
		gainRent, gainHost = exp.finalRent, exp.finalHost
	}
	// before + gain == after + paid
	if e0.renter.Add(gainRent) != e1.renter.Add(wantRent) {
		viol("renter-paid-wrong-amount", "the renter wallet's wealth changed by an amount different from its computed share", map[string]any{"before": e0.renter, "after": e1.renter, "expected_cost": wantRent, "expected_payout": gainRent})
	}
	if e0.host.Add(gainHost) != e1.host.Add(wantHost) {
		viol("host-paid-wrong-amount", "the host wallet's wealth changed by an amount different from its computed share", map[string]any{"before": e0.host, "after": e1.host, "expected_cost": wantHost, "expected_payout": gainHost})
	}
	r.Count("economic_checks", 1)
	if hb, err := l.HostWallet.W.Balance(); err == nil && hb.Spendable != hb.Confirmed && len(hostLeak) == 0 {
		viol("host-wallet-locked-after-confirmation", "with an empty pool the host wallet still holds reserved outputs", hb)
	}
	return
}

// ---- tables ----

var c16AbortPoints = []mutation{
	{Op: "none"},
	{Op: "dial-fail"},
	{Dir: "R", Msg: 0, Op: "cut"},
	{Dir: "R", Msg: 0, Op: "cut-after"},
	{Dir: "H", Msg: 0, Op: "cut"},
	{Dir: "H", Msg: 0, Op: "cut-after"},
	{Dir: "H", Msg: 0, Op: "rpcerror"},
	{Dir: "R", Msg: 1, Op: "cut"},
	{Dir: "R", Msg: 1, Op: "cut-after"},
	{Dir: "H", Msg: 1, Op: "cut"},
	{Dir: "H", Msg: 1, Op: "cut-after"},
	{Dir: "H", Msg: 1, Op: "rpcerror"},
	{Dir: "H", Msg: 1, Op: "trunc-wire"},
	{Dir: "R", Msg: 0, Op: "trunc-wire"},
	{Dir: "H", Msg: 0, Op: "silent"},
	{Dir: "R", Msg: 1, Op: "silent"},
}

func c16Ops(kind string) []string {
	var out []string
	for _, op := range rhpmitm.OpsFor(kind) {
		if op != "swap" { // no donor exchange in this check
			out = append(out, op)
		}
	}
	return out
}

func (x *c16Lab) corruptTable(inputs string) []mutation {
	// record one clean exchange to learn the message shapes
	rec := newRecorded()
	if inputs == "unconfirmed" {
		if _, err := x.sweep(); err != nil {
			x.fail("sweep", err)
			return nil
		}
	}
	var existing *rhp.ContractRevision
	if x.rpc != "form" {
		c, err := x.pool.take()
		if err != nil {
			x.fail("spare contract", err)
			return nil
		}
		existing = &c
	}
	call, _ := x.prepareCall(existing)
	x.l.T.SetHook(recordHook(rec))
	out := monitoredCall(callDeadline, call)
	x.l.T.SetHook(nil)
	if err := x.l.Barrier(); err != nil || out.Err != nil || out.Hung || out.Panic != nil {
		x.fail("recording exchange", fmt.Errorf("%v %v", err, out.Err))
		return nil
	}
	if x.l.RenterNode != x.l.HostNode {
		if txns := x.l.RenterNode.CM.V2PoolTransactions(); len(txns) > 0 {
			x.l.HostNode.CM.AddV2PoolTransactions(x.l.RenterNode.CM.Tip(), txns)
		}
	}
	if err := x.l.Mine(types.VoidAddress, 1); err != nil {
		x.fail("mine", err)
		return nil
	}
	x.releaseAll()
	var out2 []mutation
	for _, d := range []rhpmitm.Dir{rhpmitm.RenterToHost, rhpmitm.HostToRenter} {
		for i := 0; i < 2; i++ {
			m := rec.get(d, i)
			if m == nil || m.Obj == nil {
				continue
			}
			for _, leaf := range rhpmitm.Enumerate(m.Obj) {
				for _, op := range c16Ops(leaf.Kind) {
					out2 = append(out2, mutation{Dir: d.String(), Msg: i, Path: leaf.Path, Kind: leaf.Kind, Op: op})
				}
			}
			out2 = append(out2, mutation{Dir: d.String(), Msg: i, Op: "extend-wire"})
		}
	}
	return out2
}

func newC16Lab(r *mon.Run, rpc string, stream uint64, only *c16Case, third, second bool) (*c16Lab, error) {
	x := &c16Lab{r: r, rpc: rpc, only: only}
	f := &family{r: r, rng: r.RNG(stream)}
	if rpc == "form" {
		l, err := rhpmitm.NewLab(rhpmitm.Options{TwoNodes: true, HostBlocks: 24, RenterBlocks: 12, Observer: third || second, Bystander: third, SecondHost: second})
		if err != nil {
			return nil, err
		}
		x.l = l
		return x, nil
	}
	pool, err := newSparePoolOpt(f, 6, rhpmitm.Options{TwoNodes: true, HostBlocks: 30, RenterBlocks: 12, Observer: third, Bystander: third})
	if err != nil {
		return nil, err
	}
	x.l, x.pool, x.kit = pool.l, pool, kitFor(rpc)
	return x, nil
}

// storm runs n consecutive aborted attempts at one abort point without
// confirming anything in between, then demands that a clean attempt succeeds.
func (x *c16Lab) storm(point mutation, n int) {
	cse := c16Case{RPC: x.rpc, Fault: mutation{Op: "none"}, Basis: "same", Inputs: "confirmed", Phase: "clean-after-storm:" + point.String()}
	if x.only != nil {
		// a replay of any case of a storm re-runs the whole storm
		if !(x.only.Phase == cse.Phase || (x.only.Phase == "storm" && x.only.Fault == point)) {
			return
		}
		saved := x.only
		x.only = nil
		defer func() { x.only = saved }()
	}
	for i := 0; i < n && !x.dead; i++ {
		x.attempt(c16Case{RPC: x.rpc, Fault: point, Basis: "same", Inputs: "confirmed", Phase: "storm"}, true)
	}
	if x.dead {
		return
	}
	okClean := x.attempt(cse, false)
	x.r.Count("abort_storms", 1)
	if !okClean && !x.dead {
		pt := c16Case{Fault: point}.faultPoint()
		x.r.Violation(fmt.Sprintf("clean-attempt-fails-after-aborts:%s:%s", x.rpc, pt), fmt.Sprintf("after %d consecutive aborted attempts a clean attempt no longer succeeds", n), cse, map[string]any{"renter_calls": x.l.RentWallet.Calls(), "host_calls": x.l.HostWallet.Calls()})
	}
	// release whatever the storm leaked so that later cases are independent
	x.releaseAll()
}

// twoHosts: the renter, funded from unconfirmed outputs, forms a contract
// with host A and - before the returned set is broadcast anywhere (its own
// pool does not learn it) - another one with the independent host B, whose
// pool cannot see what A pooled. Whatever reports success must be usable
// together: pairwise-disjoint inputs, accepted one after the other by one
// fresh pool, both mined into exactly the returned contracts.
func (x *c16Lab) twoHosts(outputs int, bFirst bool) {
	if x.dead {
		return
	}
	l, r := x.l, x.r
	h2 := l.Host2
	order := "A-then-B"
	if bFirst {
		order = "B-then-A"
	}
	cse := c16Case{RPC: "form", Fault: mutation{Op: "none"}, Basis: "same", Inputs: fmt.Sprintf("unconfirmed-x%d", outputs), Phase: "two-hosts:" + order}
	if outputs == 0 {
		cse.Inputs = "confirmed"
	}
	if x.only != nil && x.only.sig() != cse.sig() {
		return
	}
	viol := func(class, what string, detail any) {
		r.Violation(fmt.Sprintf("%s:form:two-hosts", class), what, cse, detail)
	}
	if err := l.RefreshPrices(); err != nil {
		x.fail("settings", err)
		return
	}
	if outputs > 0 {
		if _, err := x.sweepInto(outputs); err != nil {
			x.fail("sweep", err)
			return
		}
	}
	type side struct {
		name string
		call func(ctx context.Context) (any, error)
		t    *rhpmitm.Transport
		cont *rhpmitm.Contractor
	}
	x.k++
	pA := formationParams(l, x.k%7)
	pB := formationParams(l, (x.k+3)%7)
	a := side{"A", func(ctx context.Context) (any, error) {
		res, err := rhp.RPCFormContract(ctx, l.T, l.RentPool, l.Signer, l.RenterNode.CM.TipState(), l.Prices, l.HostKey.PublicKey(), l.HostAddr, pA)
		return attemptResult{res.Contract, res.FormationSet}, err
	}, l.T, l.Contractor}
	b := side{"B", func(ctx context.Context) (any, error) {
		res, err := rhp.RPCFormContract(ctx, h2.T, l.RentPool, l.Signer, l.RenterNode.CM.TipState(), h2.Prices, h2.Key.PublicKey(), h2.Addr, pB)
		return attemptResult{res.Contract, res.FormationSet}, err
	}, h2.T, h2.Contractor}
	sides := []side{a, b}
	if bFirst {
		sides = []side{b, a}
	}
	r.Eval()
	r.Distinct(cse.sig())
	r.Count("two_host_cases", 1)
	before := l.HostNode.CM.Tip()
	var okRes []attemptResult
	var okNames []string
	for _, sd := range sides {
		out := monitoredCall(callDeadline, sd.call)
		if out.Hung || out.Panic != nil {
			viol("client-panic-or-hang", fmt.Sprintf("formation with host %s: hung=%v panic=%v", sd.name, out.Hung, out.Panic), out.Stack)
			x.dead = true
			return
		}
		if !sd.t.WaitQuiescent(rhpmitm.CallTimeout) {
			x.fail("barrier", fmt.Errorf("host %s handlers did not finish", sd.name))
			return
		}
		if out.Err == nil {
			okRes = append(okRes, out.Res.(attemptResult))
			okNames = append(okNames, sd.name)
		} else {
			r.Count("two_host_formation_refused:"+sd.name, 1)
		}
	}
	switch len(okRes) {
	case 2:
		r.Count("two_host_both_succeeded", 1)
	case 1:
		r.Count("two_host_one_succeeded", 1)
	default:
		r.Count("two_host_none_succeeded", 1)
	}
	// pairwise-disjoint inputs over the formation transactions that reported success
	used := map[types.SiacoinOutputID]string{}
	for i, res := range okRes {
		if len(res.Set.Transactions) == 0 {
			continue
		}
		txn := res.Set.Transactions[len(res.Set.Transactions)-1]
		for _, in := range txn.SiacoinInputs {
			if other, dup := used[in.Parent.ID]; dup && other != okNames[i] {
				viol("output-spent-by-two-successful-formations", "two formations that both reported success spend the same output (a reserved, still unconfirmed output was selected twice)", map[string]any{"output": in.Parent.ID, "hosts": []string{other, okNames[i]}, "renter_calls": l.RentWallet.Calls()})
			}
			used[in.Parent.ID] = okNames[i]
		}
	}
	// one fresh pool accepts all of them, one after the other
	for i, res := range okRes {
		if _, err := l.Observer.CM.AddV2PoolTransactions(res.Set.Basis, res.Set.Transactions); err != nil {
			viol("success-sets-not-jointly-accepted", fmt.Sprintf("the set returned by host %s (success) is rejected by a fresh pool that accepted the other successful set before: %v", okNames[i], err), map[string]any{"order": okNames})
		}
	}
	blocks, err := l.Observer.MineTo(types.VoidAddress, 1)
	if err == nil {
		err = l.HostNode.AddBlocks(blocks)
	}
	if err == nil {
		err = l.RenterNode.AddBlocks(blocks)
	}
	if err == nil {
		err = h2.Node.AddBlocks(blocks)
	}
	if err != nil {
		x.fail("confirming from the fresh pool", err)
		return
	}
	diffs, err := chainDiffs(l, before)
	if err != nil {
		x.fail("chain diffs", err)
		return
	}
	for i, res := range okRes {
		found := false
		for _, d := range diffs[res.Contract.ID] {
			found = found || (d.Created && d.V2FileContractElement.V2FileContract == res.Contract.Revision)
		}
		if found {
			r.Count("two_host_contracts_observed_on_chain", 1)
		} else {
			viol("contract-not-confirmed", fmt.Sprintf("the contract host %s returned with success is not on chain after the fresh pool's block", okNames[i]), res.Contract.ID)
		}
	}
	// drain whatever is left (the sweep, refused leftovers) and reset reservations
	for i := 0; i < 3; i++ {
		for _, n := range []*rhpmitm.Node{l.RenterNode, h2.Node} {
			if txns := n.CM.V2PoolTransactions(); len(txns) > 0 {
				l.HostNode.CM.AddV2PoolTransactions(n.CM.Tip(), txns)
			}
		}
		if len(l.HostNode.CM.V2PoolTransactions()) == 0 {
			break
		}
		if err := l.Mine(types.VoidAddress, 1); err != nil {
			x.fail("drain", err)
			return
		}
	}
	x.releaseAll()
	if h2 != nil {
		_, utxos, _ := h2.Wallet.Store.UnspentSiacoinElements()
		var ids []types.SiacoinOutputID
		for _, u := range utxos {
			ids = append(ids, u.ID)
		}
		forceRelease(h2.Wallet, ids)
	}
}

// releaseAll force-releases every output of both wallets.
func (x *c16Lab) releaseAll() {
	for _, w := range []*rhpmitm.Wallet{x.l.HostWallet, x.l.RentWallet} {
		_, utxos, err := w.Store.UnspentSiacoinElements()
		if err != nil {
			continue
		}
		var ids []types.SiacoinOutputID
		for _, u := range utxos {
			ids = append(ids, u.ID)
		}
		forceRelease(w, ids)
	}
}

func runC16(r *mon.Run, replay string) {
	r.Rule("fault table = RPC {form, renew, refresh-full, refresh-partial} x abort point {clean, stream cannot be opened, cut before/after the request, cut before/after the host inputs, injected RPCError, cut before/after the renter signatures, cut before/after / truncated final response, silent host, renter signatures swallowed} x basis relation {same tip, renter 1..3 blocks behind, renter on a stale fork of depth 1..3 unknown to / known by the host} x renter inputs {confirmed, one unconfirmed output with its parent}; plus every field of every message in both directions (reflection walk) x operator {flip low/high bit, zero, max, +1, -1, truncate, extend, duplicate, swap neighbours, nil pointer, other resolution type} at the same tip; plus renew/refresh of a contract that is still unconfirmed / unknown to the host / already renewed / expired; plus interface-failure injection: the k-th call of every error-returning method the client and the handlers invoke on the interfaces they were given (host chain manager V2TransactionSet/AddV2PoolTransactions/UpdateV2TransactionSet, contractor LockV2Contract/V2FileContractElement/AddV2Contract/RenewV2Contract, host wallet FundV2Transaction/BroadcastV2TransactionSet, the wallet's syncer, renter pool V2TransactionSet, renter wallet FundV2Transaction) fails, method x occurrence enumerated from a clean attempt of the same shape (confirmed/unconfirmed inputs x same tip/renter one block behind), each followed by a clean attempt, plus a signer that recommends a zero fee; plus a chain that moves DURING the exchange: before each message is forwarded (R0, H0, R1, H1) or inside the renter's signer callback, 1..3 blocks are mined on the host's node (fed to the renter's node at once or only afterwards), the first one optionally carrying a bystander transaction, and the success oracle is evaluated by an INDEPENDENT third node: its untouched pool must accept the returned (basis, set) pair at the current tip and its block must create exactly the returned contract; plus two formations in a row with two INDEPENDENT hosts (separate chain managers and pools) funded from 1, 2 or 3 unconfirmed outputs or confirmed ones, in both orders, the first returned set withheld from every pool: all formations that report success must have pairwise-disjoint inputs, be accepted one after the other by one fresh pool and be mined into exactly the returned contracts; plus, after every failed attempt, a re-funding probe (the amount each wallet could fund before - the renter also from unconfirmed outputs - must be fundable again at once); plus mid-RPC moves for renew / refresh of a contract confirmed in the LATEST block (and 6-block moves for older ones), with the failure side demanding that a handler that recorded the contract does not then fail and that nothing of a failed attempt stays pooled (unless the lab made an interface call fail); plus callers whose context has NO deadline against a host that goes silent at each message boundary: the client must have armed a deadline on the stream (observed at the transport, compressed to 500 ms), return an error and leave everything fundable again; plus storms of 20 consecutive aborts at one abort point followed by a clean attempt; thorough adds every abort point at every basis relation, the field table for the message shapes with an unconfirmed renter parent, and PRNG double corruptions. Two chain managers (host, renter) are kept in sync by the lab except where the basis relation says otherwise. Enumerated completely; a case is non-trivial when it is a clean/abort case or its corruption changed the wire bytes.")
	r.Assume("core consensus and rhp/v4 cost functions are trusted; the in-repo EphemeralContractor/WalletStore are the host's and wallets' stores")
	r.Assume("a failure seen by the renter after its signatures reached the host may legitimately coincide with a host-side commit (the final response cannot be made atomic); it is then checked as a host-side success")
	r.Extra("exhaustive", true)
	r.Extra("exhaustive_scope", "the enumerated table (RPC x abort point x basis relation x input kind) and (RPC x message x field x operator) for the recorded message shapes")

	var only *c16Case
	if replay != "" {
		buf, err := os.ReadFile(replay)
		if err != nil {
			r.Inconclusive("cannot read replay file: " + err.Error())
			return
		}
		var w struct {
			Case c16Case `json:"case"`
		}
		if err := json.Unmarshal(buf, &w); err != nil || w.Case.RPC == "" {
			r.Inconclusive("cannot parse replay file")
			return
		}
		only = &w.Case
	}

	rpcs := []string{"form", "renew", "refresh-full", "refresh-partial"}
	bases := []string{"same", "behind:1", "behind:2", "behind:3", "fork:1", "fork:2", "fork:3", "fork-known:1", "fork-known:2", "fork-known:3"}
	type job struct {
		rpc  string
		part string
	}
	var jobs []job
	for _, rpc := range rpcs {
		for _, part := range []string{"abort-same", "abort-basis-a", "abort-basis-b", "corrupt-R0", "corrupt-R1", "corrupt-H0", "corrupt-H1a", "corrupt-H1b", "corrupt-R0u", "corrupt-H1u", "corrupt-double", "storm", "inject", "contract-state", "mid-rpc-host", "mid-rpc-both", "two-hosts", "no-deadline"} {
			if only != nil && only.RPC != rpc {
				continue
			}
			if part == "contract-state" && rpc == "form" {
				continue
			}
			if part == "two-hosts" && rpc != "form" {
				continue
			}
			if (part == "corrupt-double" || strings.HasSuffix(part, "u")) && !r.Thorough() {
				continue
			}
			if flt := os.Getenv("VERIF_C16_JOBS"); flt != "" && !strings.Contains(flt, rpc+":"+part) {
				continue // development aid: run a subset of the jobs
			}
			jobs = append(jobs, job{rpc, part})
		}
	}
	vcli.Parallel(len(jobs), func(i int) {
		j := jobs[i]
		t0 := time.Now()
		x, err := newC16Lab(r, j.rpc, uint64(2000+i), only, strings.HasPrefix(j.part, "mid-rpc"), j.part == "two-hosts")
		if err != nil {
			harnessFail(r, "C16 lab "+j.rpc, err)
			return
		}
		defer x.l.Close()
		switch j.part {
		case "abort-same", "abort-basis-a", "abort-basis-b":
			for bi, basis := range bases {
				switch j.part {
				case "abort-same":
					if basis != "same" {
						continue
					}
				case "abort-basis-a":
					if basis == "same" || bi%2 == 0 {
						continue
					}
				case "abort-basis-b":
					if basis == "same" || bi%2 == 1 {
						continue
					}
				}
				for _, inputs := range []string{"confirmed", "unconfirmed"} {
					for _, p := range c16AbortPoints {
						if basis != "same" && !r.Thorough() && (p.Op == "trunc-wire" || p.Op == "silent" || (p.Op == "cut-after" && p.Dir == "H" && p.Msg == 1)) {
							continue
						}
						x.attempt(c16Case{RPC: j.rpc, Fault: p, Basis: basis, Inputs: inputs, Phase: "abort"}, false)
					}
				}
			}
		case "corrupt-R0", "corrupt-R1", "corrupt-H0", "corrupt-H1a", "corrupt-H1b", "corrupt-R0u", "corrupt-H1u":
			dir, msg := j.part[8:9], int(j.part[9]-'0')
			inputs := "confirmed"
			if strings.HasSuffix(j.part, "u") {
				inputs = "unconfirmed" // thorough: the shapes with a renter parent transaction
			}
			n := 0
			for _, mu := range x.corruptTable(inputs) {
				if mu.Dir != dir || mu.Msg != msg {
					continue
				}
				n++
				// the final host message is the largest: its table is split over two labs
				if (strings.HasSuffix(j.part, "a") || strings.HasSuffix(j.part, "b")) && (n%2 == 0) != strings.HasSuffix(j.part, "a") {
					continue
				}
				x.attempt(c16Case{RPC: j.rpc, Fault: mu, Basis: "same", Inputs: inputs, Phase: "corrupt"}, false)
			}
		case "corrupt-double":
			tbl := x.corruptTable("confirmed")
			rng := r.RNG(uint64(3000 + i))
			for k := 0; k < 400 && len(tbl) > 1; k++ {
				a, b := tbl[rng.IntN(len(tbl))], tbl[rng.IntN(len(tbl))]
				if a == b {
					continue
				}
				x.attempt(c16Case{RPC: j.rpc, Fault: a, Fault2: &b, Basis: "same", Inputs: "confirmed", Phase: "corrupt"}, false)
				r.Count("double_corruptions", 1)
			}
		case "no-deadline":
			// the caller's context has no deadline and the host goes silent at a
			// message boundary without closing the stream
			for _, inputs := range []string{"confirmed", "unconfirmed"} {
				for _, p := range []mutation{{Dir: "H", Msg: 0, Op: "silent"}, {Dir: "R", Msg: 1, Op: "silent"}, {Dir: "H", Msg: 1, Op: "silent"}, {Op: "none"}} {
					x.attempt(c16Case{RPC: j.rpc, Fault: p, Basis: "same", Inputs: inputs, Phase: "no-deadline", NoDeadline: true}, false)
				}
			}
		case "two-hosts":
			reps := r.Pick(2, 6)
			for rep := 0; rep < reps; rep++ {
				for _, outputs := range []int{1, 2, 3, 0} {
					x.twoHosts(outputs, false)
					x.twoHosts(outputs, true)
				}
			}
		case "mid-rpc-host", "mid-rpc-both":
			// the chain moves DURING the exchange; nobody corrupts anything. The
			// lab has an independent observer node and a bystander wallet.
			relay := strings.TrimPrefix(j.part, "mid-rpc-")
			for _, inputs := range []string{"confirmed", "unconfirmed"} {
				for _, point := range []string{"R0", "H0", "sign", "R1", "H1"} {
					for depth := 1; depth <= 3; depth++ {
						for _, poke := range []string{"poke", "plain"} {
							if inputs == "unconfirmed" && !r.Thorough() && !(depth == 1 && poke == "poke") {
								continue
							}
							mid := fmt.Sprintf("%s:%d:%s:%s", point, depth, relay, poke)
							x.attempt(c16Case{RPC: j.rpc, Fault: mutation{Op: "none"}, Basis: "same", Inputs: inputs, Phase: "mid-rpc", Mid: mid}, false)
						}
					}
				}
			}
			if j.rpc != "form" {
				// the contract to renew / refresh was confirmed in the latest block
				// (one more block changes its proof), and older contracts with a
				// deep move (6 blocks) - at every step, in particular between the
				// host's funding and its final broadcast
				for _, point := range []string{"R0", "H0", "sign", "R1", "H1"} {
					for _, depth := range []int{1, 2, 6} {
						mid := fmt.Sprintf("%s:%d:%s:poke", point, depth, relay)
						x.attempt(c16Case{RPC: j.rpc, Fault: mutation{Op: "none"}, Basis: "same", Inputs: "confirmed", Phase: "mid-rpc", Mid: mid, Contract: "just-confirmed"}, false)
						if depth == 6 {
							x.attempt(c16Case{RPC: j.rpc, Fault: mutation{Op: "none"}, Basis: "same", Inputs: "confirmed", Phase: "mid-rpc", Mid: mid}, false)
						}
						r.Count("mid_rpc_moves_on_just_confirmed_contracts", 1)
					}
				}
			}
		case "contract-state":
			// renew / refresh of a contract the host cannot (or must not) renew:
			// every such attempt has to fail without a trace on either side
			for _, state := range []string{"unconfirmed", "unknown", "renewed", "expired"} {
				for _, inputs := range []string{"confirmed", "unconfirmed"} {
					if x.attempt(c16Case{RPC: j.rpc, Fault: mutation{Op: "none"}, Basis: "same", Inputs: inputs, Phase: "contract-state", Contract: state}, false) {
						r.Count("unrenewable_contract_renewed", 1)
					}
					// and the lab's ordinary contracts are still renewable afterwards
					cse := c16Case{RPC: j.rpc, Fault: mutation{Op: "none"}, Basis: "same", Inputs: "confirmed", Phase: "clean-after-contract-state:" + state + ":" + inputs}
					if !x.attempt(cse, false) && !x.dead && (x.only == nil || x.only.sig() == cse.sig()) {
						r.Violation(fmt.Sprintf("clean-attempt-fails-after-failure:%s:contract-%s", j.rpc, state), "after a refused attempt a clean attempt no longer succeeds", cse, nil)
					}
				}
			}
		case "inject":
			// every interface call the client and the three handlers make fails
			// once: method x occurrence, learnt from a clean attempt of the same shape
			for _, inputs := range []string{"confirmed", "unconfirmed"} {
				for _, basis := range []string{"same", "behind:1"} {
					saved := x.only
					x.only = nil // the learning attempt always runs
					ok := x.attempt(c16Case{RPC: j.rpc, Fault: mutation{Op: "none"}, Basis: basis, Inputs: inputs, Phase: "inject"}, false)
					x.only = saved
					counts := x.lastCounts
					if !ok || x.dead {
						continue
					}
					for _, m := range rhpmitm.SortedMethods(counts) {
						if strings.Contains(m, "!") && os.Getenv("VERIF_C16_INTERFACE_LEGAL_RESULTS") == "" {
							// results the interface documents but the real chain manager
							// cannot produce for these handlers (an empty set after
							// UpdateV2TransactionSet): reproduced on request only, see
							// the report - the default run enumerates errors
							continue
						}
						for occ := 1; occ <= counts[m]; occ++ {
							op := fmt.Sprintf("inject:%s#%d", m, occ)
							x.attempt(c16Case{RPC: j.rpc, Fault: mutation{Op: op}, Basis: basis, Inputs: inputs, Phase: "inject"}, false)
							cse := c16Case{RPC: j.rpc, Fault: mutation{Op: "none"}, Basis: "same", Inputs: "confirmed", Phase: "clean-after-" + op + ":" + basis + ":" + inputs}
							if !x.attempt(cse, false) && !x.dead && (x.only == nil || x.only.sig() == cse.sig()) {
								r.Violation(fmt.Sprintf("clean-attempt-fails-after-failure:%s:inject-%s", j.rpc, m), "after an interface failure a clean attempt no longer succeeds", cse, nil)
							}
						}
					}
				}
				x.attempt(c16Case{RPC: j.rpc, Fault: mutation{Op: "signer:fee-zero"}, Basis: "same", Inputs: inputs, Phase: "inject"}, false)
			}
		case "storm":
			for _, p := range c16AbortPoints {
				// only abort points at which the renter's signatures cannot
				// have reached the host: the attempt must leave no trace
				if p.Op == "none" || p.Op == "trunc-wire" || p.Op == "silent" || (p.Msg == 1 && !(p.Dir == "R" && p.Op == "cut")) {
					continue
				}
				x.storm(p, 20)
			}
		}
		r.Extra(fmt.Sprintf("job_wall_s:%s:%s", j.rpc, j.part), time.Since(t0).Seconds())
	})
	if only == nil {
		r.Floor("renter_success", 100)
		r.Floor("failed_without_trace_expected", 500)
		r.Floor("host_committed_but_renter_saw_failure", 20)
		r.Floor("contracts_observed_on_chain", 100)
		r.Floor("economic_checks", 500)
		r.Floor("abort_storms", 20)
		r.Floor("attempts_funded_with_unconfirmed_parent", 50)
		r.Floor("basis_relation:behind", 50)
		r.Floor("basis_relation:fork", 50)
		r.Floor("basis_relation:fork-known", 50)
		r.Floor("injected_interface_failures", 150)
		r.Floor("refunding_probes", 1500)
		r.Floor("refunding_probes_with_unconfirmed_outputs", 150)
		r.Floor("two_host_cases", 12)
		r.Floor("calls_with_deadline_less_context", 24)
		r.Floor("default_stream_deadline_armed", 24)
		r.Floor("mid_rpc_moves_on_just_confirmed_contracts", 60)
		r.Floor("two_host_both_succeeded", 4)
		r.Floor("blocks_mined_mid_rpc", 400)
		r.Floor("sets_accepted_by_independent_pool", 150)
		for _, p := range []string{"R0", "H0", "sign", "R1", "H1"} {
			r.Floor("mid_rpc_points_hit:"+p, 40)
		}
		r.Floor("contract_state:unconfirmed", 6)
		r.Floor("contract_state:renewed", 6)
		r.Floor("contract_state:expired", 6)
		r.Floor("contract_state:unknown", 6)
	}
}
