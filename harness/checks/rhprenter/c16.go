package rhprenter

import "verif/harness/mon"

func runC16(r *mon.Run, replay string) {
	r.Inconclusive("not implemented yet")
}
