package rhprenter

import (
	"bytes"
	"context"
	"encoding/json"
	"fmt"
	"math/rand/v2"
	"os"
	"reflect"
	"slices"
	"sort"
	"strings"
	"time"

	rhp4 "go.sia.tech/core/rhp/v4"
	"go.sia.tech/core/types"
	rhp "go.sia.tech/coreutils/rhp/v4"

	"verif/harness/lab/rhpmitm"
	"verif/harness/mon"
	"verif/harness/vcli"
)

// c10Case is the fully expanded case written to replay files.
type c10Case struct {
	RPC     string     `json:"rpc"`
	Variant string     `json:"variant"`
	Muts    []mutation `json:"mutations"`
}

func (c c10Case) sig() string {
	s := make([]string, len(c.Muts))
	for i, m := range c.Muts {
		s[i] = m.String()
	}
	return c.RPC + "/" + c.Variant + "/" + strings.Join(s, "+")
}

// finding is one oracle failure on a successful call.
type finding struct {
	sig    string
	what   string
	detail any
}

// exchange is one prepared client call together with its success oracle.
type exchange struct {
	call      func(ctx context.Context) (any, error)
	oracle    func(res any, seen *recorded) []finding
	custom    customMut
	customOps []mutation
	// forge, if set, computes the revision the renter derives from the delivered
	// (possibly mutated) first host message; the operator "forge-sig" on the
	// final host message then replaces whatever the honest host answered by a
	// signature of the REAL host key over that revision - a coherent malicious
	// host instead of a merely noisy one
	forge func(seen *recorded) (types.V2FileContract, bool)
	// after runs behind the quiescence barrier and re-synchronises the renter's
	// view with the host's committed state
	after func() error
	// unauth marks RPCs whose result the client cannot authenticate by design
	unauth bool
	// answerOK, if set, checks the honest host's recorded answer against the
	// reference model (independently of the client): used when the client
	// rejects an honest exchange, to tell "the client refuses a correct answer"
	// (allowed by the statement: counted, not a harness failure) from a broken lab
	answerOK func(rec *recorded) bool
	// followUp, if set, builds a further RPC on the returned revision and runs
	// it against the honest host; it is used on rows where the host was honest
	// throughout (or the returned revision is the previous one): what the renter
	// holds after a success must be what the host holds
	followUp func(res any) *finding
	// gap: the contract the exchange revises has Capacity > Filesize (it was
	// appended to and then partly freed)
	gap bool
}

// family is a group of RPC scenarios sharing one lab.
type family struct {
	name string
	r    *mon.Run
	lab  *rhpmitm.Lab
	rng  *rand.Rand
	only *c10Case // replay filter

	scenarios []*scenario
	dead      bool
	// foreign is the transport identity of the "foreign peer" (class: host
	// signatures must be checked against the CONTRACT's host key, not against
	// the transport's peer key)
	foreign types.PrivateKey
	// part / parts split the fault table of a scenario over several labs
	// (running in parallel); part p of n takes the table entries i with i%n == p
	part, parts int
}

// scenario is one RPC with its parameter variants.
type scenario struct {
	rpc      string
	variants []string
	nHost    int // number of host->renter messages of the exchange
	prepare  func(variant string) (*exchange, error)
	// lenient lists caller parameter choices (well-formed and ill-formed: out of
	// range, unaligned, duplicated, empty) that are run against a LENIENT
	// hostile host holding the real host key: where the honest server refuses
	// the request, it executes it verbatim (or as plausibly as it can), builds
	// the matching proof with core's builders and countersigns. The exchange's
	// custom operator "lenient" implements that host per RPC. No honest
	// recording is needed (the honest exchange may fail).
	lenient []string
}

func hostSigValid(l *rhpmitm.Lab, fc types.V2FileContract) bool {
	cs := l.HostNode.CM.TipState()
	return l.HostKey.PublicKey().VerifyHash(cs.ContractSigHash(fc), fc.HostSignature)
}

func renterSigValid(l *rhpmitm.Lab, fc types.V2FileContract) bool {
	cs := l.HostNode.CM.TipState()
	return l.RenterKey.PublicKey().VerifyHash(cs.ContractSigHash(fc), fc.RenterSignature)
}

func sansSigs(fc types.V2FileContract) types.V2FileContract {
	fc.RenterSignature, fc.HostSignature = types.Signature{}, types.Signature{}
	return fc
}

// checkRevision is the common part of the revision oracle: the returned
// revision must be the locally computable successor (want, signatures
// ignored) and carry a host signature that verifies over the returned object.
func checkRevision(l *rhpmitm.Lab, rpc string, got, want types.V2FileContract, prev types.V2FileContract) (fs []finding) {
	if !hostSigValid(l, got) {
		fs = append(fs, finding{rpc + ":returned-revision-host-sig-invalid", "the returned revision's host signature does not verify over the returned object", map[string]any{"returned": got}})
	}
	if !renterSigValid(l, got) {
		fs = append(fs, finding{rpc + ":returned-revision-renter-sig-invalid", "the returned revision's renter signature does not verify over the returned object", map[string]any{"returned": got}})
	}
	if sansSigs(got) != sansSigs(want) {
		fs = append(fs, finding{rpc + ":returned-revision-not-successor", "the returned revision is not the locally computable successor of the previous revision", map[string]any{"returned": got, "expected": want, "previous": prev}})
	}
	return
}

// ---- generic driver ----

func (f *family) buildTable(sc *scenario, rec *recorded, ex *exchange) []mutation {
	var out []mutation
	for i := 0; i < sc.nHost; i++ {
		m := rec.get(rhpmitm.HostToRenter, i)
		if m == nil {
			continue
		}
		if m.Err == nil && m.Obj != nil {
			for _, leaf := range rhpmitm.Enumerate(m.Obj) {
				for _, op := range rhpmitm.OpsFor(leaf.Kind) {
					out = append(out, mutation{Dir: "H", Msg: i, Path: leaf.Path, Kind: leaf.Kind, Op: op})
				}
			}
		}
		for _, op := range []string{"rpcerror", "cut", "cut-after", "trunc-wire", "extend-wire", "replace-donor", "silent"} {
			out = append(out, mutation{Dir: "H", Msg: i, Op: op})
		}
		if len(m.Raw) > 0 {
			for _, op := range []string{"raw-flip0", "raw-flipN", "raw-flipmid", "raw-trunc", "raw-trunc-leaf", "raw-extend", "raw-zero"} {
				out = append(out, mutation{Dir: "H", Msg: i, Op: op})
			}
		}
	}
	out = append(out, ex.customOps...)
	return out
}

func (f *family) honest(sc *scenario, variant string) (*recorded, *exchange) {
	ex, err := sc.prepare(variant)
	if err != nil {
		f.prepareFailed(sc, err)
		return nil, nil
	}
	rec := newRecorded()
	f.lab.T.SetHook(recordHook(rec))
	out := monitoredCall(callDeadline, ex.call)
	f.lab.T.SetHook(nil)
	if err := f.lab.Barrier(); err != nil {
		harnessFail(f.r, "barrier", err)
		f.dead = true
		return nil, nil
	}
	if !out.Hung && out.Panic == nil && clientRejection(out.Err) && ex.answerOK != nil && ex.answerOK(rec) {
		// the honest host answered correctly under the reference model and the
		// client refused it: an error is always acceptable, so this is no
		// violation - and no harness problem either. The variant gets no
		// field table (there is no complete recording), but the forgery /
		// lenient / foreign rows of the scenario still run and decide.
		f.r.Count("honest_answer_rejected_by_client:"+sc.rpc, 1)
		fmt.Printf("NOTE C10 %s/%s: the client rejected a correct honest answer: %v\n", sc.rpc, variant, out.Err)
		if ex.after != nil {
			if err := ex.after(); err != nil {
				harnessFail(f.r, "after honest exchange", err)
				f.dead = true
				return nil, nil
			}
		}
		return nil, ex
	}
	if !out.Hung && out.Panic == nil && out.Err != nil {
		// on the unchanged tree every honest exchange of the table succeeds, so
		// this row cannot pass: the run is INCONCLUSIVE unless a violation is
		// found - but it is not fatal. The variant gets no field table, the
		// forgery / lenient / foreign rows (which need no recording) still run:
		// a client that no longer gets through to the honest host may well be
		// accepted by a lenient one, and that is the violation to find.
		f.r.Inconclusive(fmt.Sprintf("honest %s/%s exchange failed (it succeeds on the unchanged tree): %v", sc.rpc, variant, out.Err))
		f.r.Count("honest_exchange_failed:"+sc.rpc, 1)
		if ex.after != nil {
			if err := ex.after(); err != nil {
				harnessFail(f.r, "after honest exchange", err)
				f.dead = true
				return nil, nil
			}
		}
		return nil, ex
	}
	if out.Hung || out.Panic != nil {
		harnessFail(f.r, fmt.Sprintf("honest %s/%s exchange failed", sc.rpc, variant), fmt.Errorf("hung=%v panic=%v err=%v", out.Hung, out.Panic, out.Err))
		f.dead = true
		return nil, nil
	}
	fs := ex.oracle(out.Res, rec)
	if len(fs) == 0 && ex.followUp != nil {
		if fd := ex.followUp(out.Res); fd != nil {
			fs = append(fs, *fd)
		}
	}
	if len(fs) > 0 {
		// the oracle's clauses are the property's own clauses: a successful call
		// against the HONEST host that breaks one is a violation like any other
		// (witness: the exchange without any fault) - not a harness inconsistency
		cse := c10Case{RPC: sc.rpc, Variant: variant}
		for _, fd := range fs {
			f.r.Violation(fd.sig, fd.what+" (honest host, no fault injected)", cse, fd.detail)
		}
		f.r.Count("honest_exchange_breaks_the_oracle:"+sc.rpc, 1)
		if ex.after != nil {
			if err := ex.after(); err != nil {
				harnessFail(f.r, "after honest exchange", err)
				f.dead = true
				return nil, nil
			}
		}
		return nil, ex
	}
	if ex.after != nil {
		if err := ex.after(); err != nil {
			harnessFail(f.r, "after honest exchange", err)
			f.dead = true
			return nil, nil
		}
	}
	f.r.Count("honest_exchanges", 1)
	return rec, ex
}

// prepareFailed ends the family. If the lab's own honest helper exchange
// (normalising a contract, forming a spare one) was refused by the CLIENT's
// verification, that is the client rejecting correct answers again - counted,
// the rest of this family cannot run, the other families go on; anything else
// is a harness failure.
func (f *family) prepareFailed(sc *scenario, err error) {
	f.dead = true
	if clientRejection(err) {
		f.r.Count("honest_answer_rejected_by_client:helper-exchange", 1)
		f.r.Count("families_stopped_by_client_rejecting_honest_helpers", 1)
		fmt.Printf("NOTE C10 %s/%s: family stopped, the client rejects the lab's honest helper exchange: %v\n", f.name, sc.rpc, err)
		return
	}
	harnessFail(f.r, f.name+"/"+sc.rpc+" prepare", err)
}

func (f *family) runCase(sc *scenario, variant string, muts []mutation, donor *recorded) {
	if f.dead {
		return
	}
	cse := c10Case{RPC: sc.rpc, Variant: variant, Muts: muts}
	if f.only != nil && cse.sig() != f.only.sig() {
		return
	}
	ex, err := sc.prepare(variant)
	if err != nil {
		f.prepareFailed(sc, err)
		return
	}
	ap := &applied{}
	deadline := callDeadline
	for _, m := range muts {
		if m.Op == "silent" {
			deadline = silentDeadline
		}
	}
	custom := func(m *rhpmitm.Msg, mu mutation, seen *recorded) bool {
		if mu.Op == "foreign-peer" {
			// the peer ran the exchange correctly (the honest server did) but
			// countersigns with ITS transport key: every host signature in the
			// message is replaced by a signature of the foreign key over the very
			// object the host signed
			if m.Err != nil || m.Obj == nil {
				return false
			}
			cs := f.lab.HostNode.CM.TipState()
			if r := renewalThird(m); r != nil {
				r.NewContract.HostSignature = f.foreign.SignHash(cs.ContractSigHash(r.NewContract))
				r.HostSignature = f.foreign.SignHash(cs.RenewalSigHash(*r))
				return true
			}
			switch o := m.Obj.(type) {
			case *rhp4.RPCFormContractThirdResponse:
				if n := len(o.TransactionSet); n > 0 && len(o.TransactionSet[n-1].FileContracts) == 1 {
					fc := &o.TransactionSet[n-1].FileContracts[0]
					fc.HostSignature = f.foreign.SignHash(cs.ContractSigHash(*fc))
					return true
				}
				return false
			case *rhp4.RPCLatestRevisionResponse:
				o.Contract.HostSignature = f.foreign.SignHash(cs.ContractSigHash(o.Contract))
				return true
			case *rhp4.RPCSettingsResponse:
				o.Settings.Prices.Signature = f.foreign.SignHash(o.Settings.Prices.SigHash())
				return true
			}
			fv := reflect.ValueOf(m.Obj).Elem().FieldByName("HostSignature")
			_, rev, ok := f.lab.Contractor.LastRevision()
			if !fv.IsValid() || !ok {
				return false
			}
			fv.Set(reflect.ValueOf(f.foreign.SignHash(cs.ContractSigHash(rev))))
			return true
		}
		if mu.Op == "forge-sig" {
			if ex.forge == nil {
				return false
			}
			var rev types.V2FileContract
			ok := false
			// core's currency arithmetic panics on overflow: a forger that cannot
			// compute the revision simply does not answer
			if p := mon.Guard(func() { rev, ok = ex.forge(seen) }); p != nil || !ok {
				return false
			}
			sig := f.lab.HostKey.SignHash(f.lab.HostNode.CM.TipState().ContractSigHash(rev))
			switch m.Name {
			case "append":
				m.Obj = &rhp4.RPCAppendSectorsThirdResponse{HostSignature: sig}
			case "free":
				m.Obj = &rhp4.RPCFreeSectorsThirdResponse{HostSignature: sig}
			case "replenish-accounts", "replenish-pools":
				m.Obj = &rhp4.RPCReplenishAccountsThirdResponse{HostSignature: sig}
			default:
				return false
			}
			m.Err = nil
			return true
		}
		if ex.custom != nil {
			return ex.custom(m, mu, seen)
		}
		return false
	}
	lenientCase := len(muts) > 0 && strings.HasPrefix(muts[0].Op, "lenient")
	foreignCase := len(muts) > 0 && strings.HasPrefix(muts[0].Op, "foreign-")
	if foreignCase {
		f.lab.T.SetPeerKey(f.foreign.PublicKey())
		defer f.lab.T.SetPeerKey(f.lab.HostKey.PublicKey())
	}
	dialsBefore, _ := f.lab.T.Dials()
	f.lab.T.SetHook(faultHook(muts, donor, custom, ap))
	out := monitoredCall(deadline, ex.call)
	f.lab.T.SetHook(nil)
	r := f.r
	r.Eval()
	r.Count("exchanges:"+sc.rpc, 1)
	if ex.gap {
		r.Count("contracts_with_capacity_above_filesize_exercised", 1)
		r.SetAdd("rpcs_on_capacity_above_filesize_contracts", sc.rpc)
	}
	if out.Hung {
		r.Violation("hang:"+sc.rpc, "client call did not return within its context deadline plus slack", cse, map[string]any{"waited": out.Duration.String()})
		f.dead = true
		return
	}
	if err := f.lab.Barrier(); err != nil {
		harnessFail(r, "barrier after "+cse.sig(), err)
		f.dead = true
		return
	}
	ap.mu.Lock()
	hit, changed, miss := ap.Hit, ap.Changed, ap.Miss
	ap.mu.Unlock()
	if lenientCase {
		r.Count("lenient_host_cases:"+sc.rpc, 1)
		dialsAfter, _ := f.lab.T.Dials()
		switch {
		case dialsAfter == dialsBefore:
			// the client refused the parameters itself: nothing went out
			r.Count("lenient_host:client_rejected_parameters_before_dialing", 1)
			r.Distinct(cse.sig())
		case changed > 0:
			r.Count("lenient_host:answered_where_honest_host_differs", 1)
		default:
			r.Count("lenient_host:answer_equals_honest_answer", 1)
		}
		if out.Err == nil && out.Panic == nil {
			r.Count("lenient_host:client_success", 1)
		}
		if os.Getenv("VERIF_DEBUG") != "" {
			fmt.Printf("DEBUG %s %s/%s dialed=%v changed=%d err=%v panic=%v\n", muts[0].Op, sc.rpc, variant, dialsAfter != dialsBefore, changed, out.Err, out.Panic)
		}
	}
	if foreignCase {
		r.Count("foreign_peer_cases:"+sc.rpc, 1)
		r.Distinct(cse.sig())
		r.SetAdd("fault_ops", muts[0].Op)
		if out.Err == nil && out.Panic == nil {
			r.Count("foreign_peer:client_success", 1)
			if muts[0].Op == "foreign-peer" && changed > 0 {
				r.Count("foreign_peer:success_with_foreign_signature_delivered", 1)
			}
		} else {
			r.Count("foreign_peer:client_error", 1)
		}
	}
	switch {
	case lenientCase && hit == 0:
	case foreignCase && changed == 0:
	case hit == 0:
		r.Count("fault_site_not_reached", 1)
	case changed > 0:
		r.Count("faults_that_changed_the_wire", 1)
		r.Distinct(cse.sig())
		if lenientCase {
			r.SetAdd("fault_ops", "lenient")
		} else if strings.HasPrefix(muts[0].Op, "alt-") {
			r.Count("coherent_alternative_responses:"+sc.rpc, 1)
			r.SetAdd("fault_ops", muts[0].Op[:strings.IndexByte(muts[0].Op, ':')])
		} else {
			r.SetAdd("fault_ops", muts[0].Op)
		}
		r.SetAdd("rpc_message_sites", fmt.Sprintf("%s:H%d:%s", sc.rpc, muts[0].Msg, muts[0].Path))
	default:
		r.Count("faults_without_wire_change", 1)
	}
	if miss > 0 {
		r.Count("fault_without_effect_on_object", 1)
	}
	switch {
	case out.Panic != nil:
		r.Violation("client-panic:"+sc.rpc, fmt.Sprintf("client call panicked instead of returning an error: %v", out.Panic), cse, map[string]any{"panic": fmt.Sprint(out.Panic), "stack": out.Stack})
	case out.Err != nil:
		r.Count("client_returned_error", 1)
		if out.Duration >= deadline*9/10 {
			// the stream is closed by the context watcher, so the error is a
			// closed-connection error rather than context.DeadlineExceeded
			if deadline == silentDeadline {
				r.Count("returned_at_context_deadline_silent_host", 1)
			} else {
				r.Count("returned_at_context_deadline_other", 1)
			}
		}
		if out.Duration > deadline+hangSlack/2 {
			r.Count("slow_returns", 1)
		}
	default:
		r.Count("client_returned_success", 1)
		if changed > 0 {
			r.Count("success_despite_changed_wire:"+sc.rpc, 1)
			if ex.unauth {
				r.Count("unauthenticated_by_design_success:"+sc.rpc, 1)
			}
		}
		fds := ex.oracle(out.Res, ap.seen)
		if len(fds) == 0 && ex.followUp != nil && changed == 0 && !foreignCase {
			if fd := ex.followUp(out.Res); fd != nil {
				fds = append(fds, *fd)
			}
		}
		for _, fd := range fds {
			r.Violation(fd.sig, fd.what, cse, fd.detail)
		}
		r.Count("success_oracle_evaluations", 1)
	}
	if ex.after != nil {
		if err := ex.after(); err != nil {
			harnessFail(r, "resync after "+cse.sig(), err)
			f.dead = true
		}
	}
	if len(muts) == 1 || lenientCase {
		r.Sample(cse)
	}
}

func (f *family) run() {
	r := f.r
	for _, sc := range f.scenarios {
		if f.dead {
			return
		}
		if f.only != nil && f.only.RPC != sc.rpc {
			continue
		}
		recs := make([]*recorded, len(sc.variants))
		tables := make([][]mutation, len(sc.variants))
		forgeable := make([]bool, len(sc.variants))
		for i, v := range sc.variants {
			rec, ex := f.honest(sc, v)
			if f.dead {
				return
			}
			recs[i] = rec
			if rec == nil {
				// honest answer rejected by the client: custom rows only
				tables[i] = append([]mutation(nil), ex.customOps...)
				forgeable[i] = ex.forge != nil
				continue
			}
			tables[i] = f.buildTable(sc, rec, ex)
			forgeable[i] = ex.forge != nil && rec.get(rhpmitm.HostToRenter, 1) != nil
		}
		for i, v := range sc.variants {
			var donor *recorded
			for k := 1; k <= len(recs) && donor == nil; k++ {
				donor = recs[(i+k)%len(recs)]
			}
			tbl := tables[i]
			// every variant gets the message-level and custom faults; the full
			// field x operator table is run on the first variant in the quick
			// tier and on every variant in the thorough tier, the other
			// variants get the cross-exchange operators (swap / replace)
			for ti, mu := range tbl {
				if f.parts > 1 && ti%f.parts != f.part {
					continue
				}
				if i > 0 && !r.Thorough() && mu.Path != "" && mu.Op != "swap" {
					continue
				}
				f.runCase(sc, v, []mutation{mu}, donor)
				if forgeable[i] && mu.Msg == 0 && (mu.Path != "" || strings.HasPrefix(mu.Op, "alt-")) {
					f.runCase(sc, v, []mutation{mu, {Dir: "H", Msg: 1, Op: "forge-sig"}}, donor)
					r.Count("coherent_forgery_cases", 1)
				}
			}
			if f.part == 0 {
				r.Count("table_size:"+sc.rpc, len(tbl))
			}
			if r.Thorough() && len(tbl) > 1 {
				n := 150
				if f.parts > 1 {
					n /= f.parts
				}
				for k := 0; k < n; k++ {
					a, b := tbl[f.rng.IntN(len(tbl))], tbl[f.rng.IntN(len(tbl))]
					if a == b || a.Op == "silent" || b.Op == "silent" {
						continue
					}
					f.runCase(sc, v, []mutation{a, b}, donor)
					r.Count("double_mutations", 1)
				}
			}
		}
		f.runLenient(sc)
		f.runForeignPeer(sc)
	}
}

// runForeignPeer runs every variant of the scenario over a transport whose
// PeerKey() is NOT the host key of the contract: once with a peer that
// countersigns everything with that transport key ("foreign-peer"), once with
// the genuine host signatures ("foreign-transport").
func (f *family) runForeignPeer(sc *scenario) {
	if f.part != 0 {
		return
	}
	for _, v := range sc.variants {
		for _, op := range []string{"foreign-peer", "foreign-transport"} {
			if f.dead {
				return
			}
			var muts []mutation
			for i := 0; i < sc.nHost; i++ {
				muts = append(muts, mutation{Dir: "H", Msg: i, Op: op})
			}
			f.runCase(sc, v, muts, nil)
		}
	}
}

// runLenient runs the scenario's caller-parameter variants against the
// lenient hostile host.
func (f *family) runLenient(sc *scenario) {
	if f.part != 0 {
		return
	}
	for _, v := range sc.lenient {
		if f.dead {
			return
		}
		// "variant|mode": the host deviates from the verbatim execution in the
		// given way when it builds its first answer (a proof for another index
		// set / range than the requested one, a hash too few or too many, ...)
		variant, mode, _ := strings.Cut(v, "|")
		var muts []mutation
		for i := 0; i < sc.nHost; i++ {
			op := "lenient"
			if i == 0 && mode != "" {
				op = "lenient:" + mode
			}
			muts = append(muts, mutation{Dir: "H", Msg: i, Op: op})
		}
		if mode != "" {
			f.r.Count("lenient_host:answers_built_for_another_request", 1)
		}
		f.runCase(sc, variant, muts, nil)
	}
}

// ---- C10 entry ----

func runC10(r *mon.Run, replay string) {
	r.Rule("fault table = RPC x host->renter message x field (reflection walk of the typed message: every byte array, currency, integer, bool, string, time, slice (first and last element), pointer, resolution type) x operator {flip low/high bit, zero, max, +1, -1, truncate, extend, duplicate, swap neighbours, swap with the same field of another recorded exchange} plus message-level faults {RPCError injection, cut before/after, half-sent message, trailing garbage, whole message of another exchange, silent host, raw sector data flip/truncate/extend/zero} plus re-signing with the real host key after altering the signed object; plus coherent alternatives built by the man-in-the-middle with core's proof builders (valid proof for another range / leaf / root set, alone and with a forged final signature); plus a LENIENT hostile host holding the real host key: for caller parameters that are well-formed and ill-formed (free index lists with duplicates in every position pattern, out of order, out of range, empty; sector-roots ranges on an empty contract, at and beyond the end, zero length, overflowing; reads with unaligned offset / unaligned end / zero length / beyond the sector; writes of unaligned or zero length; empty / repeated / unknown append lists) it executes the request exactly as received where the honest server refuses it, builds the matching proof and countersigns, and - per request - also answers with a proof built for ANOTHER index set / range than the requested one (an in-range substitute for an out-of-range index or range, one appended root more or fewer) or with one subtree hash / leaf hash / root / accepted flag too few or too many; for free and append its final answer COUNTERSIGNS WHICHEVER REVISION THE RENTER ACTUALLY SIGNED (it tries every deletion / append count until the renter's signature verifies, then signs that with its real key), so a client whose signed revision disagrees with its own request and proof (duplicate indices counted twice, ...) is refused by the honest host and accepted by this one; every client call is guarded, a panic is the violation client-panic:<rpc>; zero-cost replenish rows (all at target, a single account at target, mixed, the second of two identical calls, a lenient host answering all-zero deposits): the returned revision must be byte-equal to the previous one with both signatures valid, and a follow-up RPC built on the revision a replenish call returned must be served by the honest host; a successful exchange with the HONEST host that breaks an oracle clause is a violation (witness without fault), not a harness inconsistency; an honest exchange that fails makes the run INCONCLUSIVE (it succeeds on the unchanged tree) but is not fatal: the rows that need no recording still run and a violation found there decides; reads also cover zero-tailed, zero-headed and all-zero sectors (whole and partial), answered truncated at every 64-byte-aligned class (one leaf, inside the data, at and just behind the data/zero boundary, deep inside the zeros, one leaf short) with an empty proof, the honest proof of the shorter range, or the proof of the requested range; plus HISTORIES append -> free (some) -> append / free / roots / fund / replenish / renew / refresh, so that contracts with Capacity > Filesize go through every revision-returning RPC, and forgers that recompute the append answer consistently for a WRONG old leaf count (capacity-shaped tree, file size +-1, +2, double, half, zero: subtree roots, new root and final signature) and the free answer over the halved view of the tree (same root, ceil(n/2) leaves); when the client rejects an honest, model-correct answer the variant is counted (honest_answer_rejected_by_client:<rpc>), gets no field table, and the forgery rows still decide; plus a FOREIGN PEER: every variant of every RPC is run over a transport whose PeerKey() is not the host key of the contract, once with a peer that runs the exchange correctly (the honest server does) but countersigns every revision / contract / renewal / price table with its transport key, once with the genuine host signatures - success must still carry a host signature valid under the CONTRACT's host key - the oracle then compares the result with a reference model of the CALLER's parameters (set semantics for free, the renter-known roots for sector roots, the stored bytes for read), independent of the client's own arithmetic; the table is enumerated completely (exhaustive over the table), thorough adds PRNG double mutations; a case is non-trivial when the fault changed the bytes the renter received; oracle only when the client call returned success")
	r.Assume("core (rhp/v4 merkle, sighash, Revise* functions) is the trusted base for computing expected roots and successor revisions")
	r.Assume("the in-repo server, EphemeralContractor and EphemeralSectorStore are the honest peer behind the man-in-the-middle; transports' own framing (siamux/quic) is not mutated")
	r.Extra("exhaustive", true)
	r.Extra("exhaustive_scope", "the enumerated fault table (RPC x host message x field x operator) for the recorded message shapes")

	var only *c10Case
	if replay != "" {
		buf, err := os.ReadFile(replay)
		if err != nil {
			r.Inconclusive("cannot read replay file: " + err.Error())
			return
		}
		var w struct {
			Case c10Case `json:"case"`
		}
		if err := json.Unmarshal(buf, &w); err != nil || w.Case.RPC == "" {
			r.Inconclusive("cannot parse replay file")
			return
		}
		only = &w.Case
	}

	type job struct {
		build       func(*family) error
		part, parts int
	}
	jobs := []job{
		{buildSectorFamily, 0, 1},
		{buildSectorZeroFamily, 0, 1},
		{buildRootsFamily, 0, 1},
		{buildAppendFreeFamily, 0, 1},
		{buildAccountFamily, 0, 1},
		{buildPlainFamily, 0, 1},
	}
	// the contract-forming RPCs have the largest tables and the most expensive
	// cases (a fresh confirmed contract per committed exchange): three labs each
	for p := 0; p < 3; p++ {
		jobs = append(jobs,
			job{func(f *family) error { return buildRenewalFamily(f, "renew") }, p, 3},
			job{func(f *family) error { return buildRenewalFamily(f, "refresh-full") }, p, 3},
			job{func(f *family) error { return buildRenewalFamily(f, "refresh-partial") }, p, 3},
			job{buildFormFamily, p, 3})
	}
	vcli.Parallel(len(jobs), func(i int) {
		f := &family{r: r, rng: r.RNG(uint64(1000 + i)), only: only, part: jobs[i].part, parts: jobs[i].parts, foreign: types.GeneratePrivateKey()}
		if only != nil {
			// a replayed case runs on one lab only
			f.parts = 1
			if jobs[i].part != 0 {
				return
			}
		}
		if err := jobs[i].build(f); err != nil {
			harnessFail(r, "building family "+f.name, err)
			return
		}
		defer f.lab.Close()
		if only != nil {
			found := false
			for _, sc := range f.scenarios {
				found = found || sc.rpc == only.RPC
			}
			if !found {
				return
			}
		}
		t0 := time.Now()
		f.run()
		r.Extra(fmt.Sprintf("family_wall_s:%s:%d", f.name, f.part), time.Since(t0).Seconds())
	})
	if only == nil {
		r.Floor("faults_that_changed_the_wire", int64(r.Pick(2000, 5000)))
		r.Floor("client_returned_success", 20)
		r.Floor("success_oracle_evaluations", 20)
		r.Floor("returned_at_context_deadline_silent_host", 5)
		r.Floor("foreign_peer:client_success", 20)
		r.Floor("foreign_peer:client_error", 20)
		stopped := r.Counter("families_stopped_by_client_rejecting_honest_helpers") > 0
		for _, rpc := range []string{"fund", "replenish-accounts", "replenish-pools", "append", "free", "roots", "form", "renew", "refresh-full", "refresh-partial", "latest-revision"} {
			if !stopped {
				r.Floor("foreign_peer_cases:"+rpc, 4)
			}
		}
		// a scenario whose honest exchange the client refused (a correct answer
		// rejected: allowed, counted) has no field table; its per-RPC floors
		// would then be missed for a reason that is no coverage problem
		floorUnlessRejected := func(rpc, counter string, min int64) {
			if r.Counter("honest_answer_rejected_by_client:"+rpc) == 0 && r.Counter("families_stopped_by_client_rejecting_honest_helpers") == 0 {
				r.Floor(counter, min)
			}
		}
		floorUnlessRejected("append", "coherent_alternative_responses:append", 40)
		floorUnlessRejected("free", "coherent_alternative_responses:free", 30)
		floorUnlessRejected("free", "lenient_host_cases:free", 100)
		floorUnlessRejected("roots", "lenient_host_cases:roots", 60)
		r.Floor("contracts_with_capacity_above_filesize_exercised", 200)
		if !stopped {
			r.Floor("lenient_host:answers_built_for_another_request", 150)
		}
		r.Floor("lenient_host_cases:read", 8)
		r.Floor("reads_answered_truncated", 150)
		r.Floor("full_sector_reads_of_zero_tailed_sectors_answered_truncated", 30)
		floorUnlessRejected("append", "lenient_host_cases:append", 35)
		r.Floor("lenient_host_cases:write", 4)
		r.Floor("follow_up_rpcs_on_returned_revision", 30)
		r.Floor("lenient_host:client_success", 10)
		r.Floor("lenient_host:countersigned_what_the_honest_host_refused:free", 50)
		r.Floor("lenient_host:answered_where_honest_host_differs", 3)
		r.Floor("lenient_host:client_rejected_parameters_before_dialing", 10)
	}
}

// ---- shared lab state helpers ----

// contractState tracks the renter's view of one contract, re-synchronised from
// the host's committed state behind the barrier.
type contractState struct {
	lab   *rhpmitm.Lab
	cur   rhp.ContractRevision
	roots []types.Hash256
}

func (c *contractState) resync() error {
	// the client side of an exchange returns as soon as it has read the host's
	// last message; the handler's deferred unlock runs after that, so the
	// contract may still be locked for a moment: wait for the handlers first
	if err := c.lab.Barrier(); err != nil {
		return err
	}
	st, err := c.lab.Contractor.State(c.cur.ID)
	if err != nil {
		return fmt.Errorf("%w: host lost contract %v: %v", rhpmitm.ErrHarness, c.cur.ID, err)
	}
	c.cur.Revision = st.Revision
	c.roots = st.Roots
	return nil
}

func newLabWithContract(opt rhpmitm.Options, allowance, collateral types.Currency) (*rhpmitm.Lab, *contractState, error) {
	l, err := rhpmitm.NewLab(opt)
	if err != nil {
		return nil, nil, err
	}
	cs, err := l.FormConfirmed(1, allowance, collateral, 400)
	if err != nil {
		l.Close()
		return nil, nil, err
	}
	c := &contractState{lab: l, cur: cs[0]}
	return l, c, nil
}

func randomSector(rng *rand.Rand) *[rhp4.SectorSize]byte {
	var s [rhp4.SectorSize]byte
	for i := 0; i < len(s); i += 8 {
		x := rng.Uint64()
		for j := 0; j < 8; j++ {
			s[i+j] = byte(x >> (8 * j))
		}
	}
	return &s
}

// ---- family: read / write / verify ----

func buildSectorFamily(f *family) error { return buildSectorFamilyPart(f, false) }

// buildSectorZeroFamily is the read scenario over the zero-tailed /
// zero-headed / all-zero sectors, on a lab of its own (whole-sector reads
// are the most expensive exchanges of the check).
func buildSectorZeroFamily(f *family) error { return buildSectorFamilyPart(f, true) }

func buildSectorFamilyPart(f *family, zeroPart bool) error {
	f.name = "sector"
	if zeroPart {
		f.name = "sector-zero"
	}
	l, c, err := newLabWithContract(rhpmitm.Options{}, types.Siacoins(200), types.Siacoins(100))
	if err != nil {
		return err
	}
	f.lab = l
	if err := l.FundAccount(&c.cur, l.Account(), types.Siacoins(50)); err != nil {
		return err
	}
	sectors := map[string]*[rhp4.SectorSize]byte{"A": randomSector(f.rng), "B": randomSector(f.rng)}
	// what an upload of less than a full sector looks like (the renter pads with
	// zeros): Z has 4160 bytes of data and a zero TAIL, Y the mirror image (zero
	// HEAD, data in the last 4160 bytes), 0 is all zeros
	const dataLen = 4160
	zt, zh := new([rhp4.SectorSize]byte), new([rhp4.SectorSize]byte)
	copy(zt[:dataLen], sectors["A"][:dataLen])
	copy(zh[rhp4.SectorSize-dataLen:], sectors["B"][:dataLen])
	sectors["Z"], sectors["Y"], sectors["0"] = zt, zh, new([rhp4.SectorSize]byte)
	roots := map[string]types.Hash256{}
	for _, k := range []string{"A", "B", "Z", "Y", "0"} {
		root, err := l.WriteSector(sectors[k][:])
		if err != nil {
			return err
		}
		if root != rhp4.SectorRoot(sectors[k]) {
			return fmt.Errorf("%w: honest write returned a wrong root", rhpmitm.ErrHarness)
		}
		roots[k] = root
	}
	if err := l.Barrier(); err != nil {
		return err
	}

	type rv struct {
		sec      string
		off, len uint64
	}
	readVariants := map[string]rv{
		"A:0+64":       {"A", 0, 64},
		"A:192+128":    {"A", 192, 128},
		"B:0+64":       {"B", 0, 64},
		"A:4096+4096":  {"A", 4096, 4096},
		"A:last64":     {"A", rhp4.SectorSize - 64, 64},
		"B:whole":      {"B", 0, rhp4.SectorSize},
		"A:65536+8192": {"A", 65536, 8192},
		// zero-tailed / zero-headed / all-zero sectors, whole and partial reads
		"Z:whole":     {"Z", 0, rhp4.SectorSize},
		"Z:0+8192":    {"Z", 0, 8192},
		"Z:4096+4096": {"Z", 4096, 4096},
		"Z:8192+4096": {"Z", 8192, 4096},
		"Y:whole":     {"Y", 0, rhp4.SectorSize},
		"Y:0+8192":    {"Y", 0, 8192},
		"0:whole":     {"0", 0, rhp4.SectorSize},
		"0:64+4096":   {"0", 64, 4096},
		// caller parameters for the lenient host: unaligned offset with aligned
		// end (the client's own validation lets these through), unaligned end,
		// zero length, beyond the sector
		"A:32+32":      {"A", 32, 32},
		"A:32+96":      {"A", 32, 96},
		"A:96+32":      {"A", 96, 32},
		"B:4100+60":    {"B", 4100, 60},
		"A:1+4095":     {"A", 1, 4095},
		"A:0+100":      {"A", 0, 100},
		"A:0+0":        {"A", 0, 0},
		"A:end-64+128": {"A", rhp4.SectorSize - 64, 128},
		"A:end+64":     {"A", rhp4.SectorSize, 64},
		"A:64+64":      {"A", 64, 64},
	}
	read := &scenario{rpc: "read", nHost: 1,
		variants: []string{"A:0+64", "A:192+128", "B:0+64", "A:4096+4096", "A:last64", "B:whole", "A:65536+8192",
			"Z:0+8192", "Z:whole", "Z:4096+4096", "Z:8192+4096", "Y:whole", "Y:0+8192", "0:whole", "0:64+4096"},
		lenient: []string{"A:64+64", "A:32+32", "A:32+96", "A:96+32", "B:4100+60", "A:1+4095", "A:0+100", "A:0+0", "A:end-64+128", "A:end+64"}}
	read.prepare = func(variant string) (*exchange, error) {
		v := readVariants[variant]
		var buf bytes.Buffer
		// coherent range forgery: the host answers with the bytes and a VALID
		// proof of another range of the same sector, DataLength matching
		var alts []string
		add := func(off, n uint64) {
			if n > 0 && n%64 == 0 && off%64 == 0 && off < rhp4.SectorSize && n <= rhp4.SectorSize-off && !(off == v.off && n == v.len) {
				alts = append(alts, fmt.Sprintf("%d+%d", off, n))
			}
		}
		add(v.off, v.len-64)
		add(v.off, 64)
		add(v.off, v.len/2)
		add(v.off, v.len+64)
		add(v.off, 2*v.len)
		if v.len < 1<<20 {
			add(v.off, min(rhp4.SectorSize-v.off, 1<<16))
		}
		add(v.off+64, v.len)
		add(v.off+64, v.len-64)
		if v.off >= 64 {
			add(v.off-64, v.len)
			add(v.off-64, v.len+64)
		}
		// truncated answers: DataLength a multiple of 64 below the requested
		// length, only that prefix is sent, with an EMPTY proof or with the honest
		// proof of the shorter range. Truncation points: one leaf, inside the
		// data, at the data/zero boundary, just behind it, deep inside the zero
		// part, one leaf short of the end
		var truncs []string
		seenT := map[uint64]bool{}
		for _, n := range []uint64{64, 128, v.len / 4 / 64 * 64, v.len / 2 / 64 * 64, v.len - 64, v.len - 4096} {
			if n > 0 && n < v.len && n%64 == 0 && !seenT[n] {
				seenT[n] = true
				truncs = append(truncs, fmt.Sprint(n))
			}
		}
		for _, edge := range []uint64{dataLen - 64, dataLen, dataLen + 64, dataLen + 4096, rhp4.SectorSize - dataLen, rhp4.SectorSize - dataLen + 64} {
			if edge > v.off {
				if n := edge - v.off; n > 0 && n < v.len && n%64 == 0 && !seenT[n] {
					seenT[n] = true
					truncs = append(truncs, fmt.Sprint(n))
				}
			}
		}
		var truncOps []mutation
		modes := []string{"empty", "honest", "full"}
		whole := v.off == 0 && v.len == rhp4.SectorSize
		if whole && v.sec != "Z" && v.sec != "0" {
			modes = modes[:1] // whole-sector reads are expensive: all modes on the zero-tailed ones
		}
		if whole && strings.ContainsAny(v.sec, "ZY0") {
			alts = nil // other-range answers for whole reads are covered on sector B
		}
		for _, mode := range modes {
			truncOps = append(truncOps, altOps(0, "alt-trunc-"+mode+":", truncs)...)
		}
		zeroTailed := v.sec == "Z" || v.sec == "0"
		return &exchange{
			customOps: append(altOps(0, "alt-range:", alts), truncOps...),
			custom: func(m *rhpmitm.Msg, mu mutation, seen *recorded) bool {
				if rest, ok := strings.CutPrefix(mu.Op, "alt-trunc-"); ok && m.Err == nil {
					mode, arg, _ := strings.Cut(rest, ":")
					var n uint64
					if _, err := fmt.Sscanf(arg, "%d", &n); err != nil || n == 0 || n >= v.len {
						return false
					}
					resp := &rhp4.RPCReadSectorResponse{DataLength: n}
					switch mode {
					case "honest": // the valid proof of the shorter range
						_, resp.Proof = rhpmitm.SectorRangeProof(sectors[v.sec], v.off, n)
					case "full": // the valid proof of the REQUESTED range
						_, resp.Proof = rhpmitm.SectorRangeProof(sectors[v.sec], v.off, v.len)
					}
					m.Obj, m.Raw = resp, append([]byte(nil), sectors[v.sec][v.off:v.off+n]...)
					f.r.Count("reads_answered_truncated", 1)
					if zeroTailed && v.off == 0 && v.len == rhp4.SectorSize {
						f.r.Count("full_sector_reads_of_zero_tailed_sectors_answered_truncated", 1)
					}
					return true
				}
				if mu.Op == "lenient" {
					// the lenient host serves whatever range it is asked for with the
					// whole leaves covering it (a range proof cannot cover less) and
					// a valid proof for exactly those leaves, clamped to the sector
					rq := seen.get(rhpmitm.RenterToHost, 0)
					if rq == nil {
						return false
					}
					req := rq.Obj.(*rhp4.RPCReadSectorRequest)
					var sec *[rhp4.SectorSize]byte
					for k, r := range roots {
						if r == req.Root {
							sec = sectors[k]
						}
					}
					if sec == nil || req.Offset >= rhp4.SectorSize {
						return false
					}
					start := req.Offset / rhp4.LeafSize
					end := min((req.Offset+min(req.Length, rhp4.SectorSize)+rhp4.LeafSize-1)/rhp4.LeafSize, rhp4.LeavesPerSector)
					if end <= start {
						end = start + 1
					}
					data, proof := rhpmitm.SectorRangeProof(sec, start*rhp4.LeafSize, (end-start)*rhp4.LeafSize)
					m.Err, m.Obj, m.Raw = nil, &rhp4.RPCReadSectorResponse{Proof: proof, DataLength: uint64(len(data))}, data
					return true
				}
				arg, ok := strings.CutPrefix(mu.Op, "alt-range:")
				if !ok || m.Err != nil {
					return false
				}
				var off, n uint64
				if _, err := fmt.Sscanf(arg, "%d+%d", &off, &n); err != nil {
					return false
				}
				data, proof := rhpmitm.SectorRangeProof(sectors[v.sec], off, n)
				m.Obj = &rhp4.RPCReadSectorResponse{Proof: proof, DataLength: n}
				m.Raw = data
				return true
			},
			call: func(ctx context.Context) (any, error) {
				buf.Reset()
				_, err := rhp.RPCReadSector(ctx, l.T, l.Prices, l.Token(), &buf, roots[v.sec], v.off, v.len)
				return buf.Bytes(), err
			},
			oracle: func(res any, _ *recorded) []finding {
				got := res.([]byte)
				if v.len == 0 || v.off > rhp4.SectorSize || v.len > rhp4.SectorSize-v.off {
					return []finding{{"read:success-for-range-outside-sector", "read reported success for an empty range / a range that is not inside the sector", map[string]any{"offset": v.off, "length": v.len, "got_len": len(got)}}}
				}
				want := sectors[v.sec][v.off : v.off+v.len]
				if !bytes.Equal(got, want) {
					d := map[string]any{"got_len": len(got), "want_len": len(want), "offset": v.off, "length": v.len}
					// classify by what was observed: the writer holds the whole leaves
					// covering an unaligned request instead of the requested bytes
					ls, le := v.off/64*64, (v.off+v.len+63)/64*64
					if v.off%64 != 0 && le <= rhp4.SectorSize && bytes.Equal(got, sectors[v.sec][ls:le]) {
						d["writer_holds"] = fmt.Sprintf("sector[%d:%d] (the covering leaves)", ls, le)
						return []finding{{"read:unaligned-offset-writes-covering-leaves", "successful read of a range with an unaligned offset wrote the whole covering leaves to the caller's writer, not sector[offset:offset+length]", d}}
					}
					for i := 0; i < len(got) && i < len(want); i++ {
						if got[i] != want[i] {
							d["first_difference_at"] = i
							break
						}
					}
					return []finding{{"read:writer-differs-from-sector-range", "successful read delivered bytes that are not sector[offset:offset+length]", d}}
				}
				return nil
			},
		}, nil
	}

	writeLens := map[string]uint64{"64": 64, "4160": 4160, "whole": rhp4.SectorSize, "100": 100, "1": 1, "0": 0, "4097": 4097}
	wdata := randomSector(f.rng)
	write := &scenario{rpc: "write", nHost: 1, variants: []string{"64", "4160", "whole"},
		lenient: []string{"64", "100", "1", "0", "4097"}}
	write.prepare = func(variant string) (*exchange, error) {
		n := writeLens[variant]
		var padded [rhp4.SectorSize]byte
		copy(padded[:], wdata[:n])
		want := rhp4.SectorRoot(&padded)
		return &exchange{
			custom: func(m *rhpmitm.Msg, mu mutation, seen *recorded) bool {
				// the lenient host stores whatever arrives, zero-padded, and
				// answers with the true root of that
				rq := seen.get(rhpmitm.RenterToHost, 0)
				if mu.Op != "lenient" || rq == nil {
					return false
				}
				var got [rhp4.SectorSize]byte
				copy(got[:], rq.Raw)
				m.Err, m.Obj = nil, &rhp4.RPCWriteSectorResponse{Root: rhp4.SectorRoot(&got)}
				return true
			},
			call: func(ctx context.Context) (any, error) {
				res, err := rhp.RPCWriteSector(ctx, l.T, l.Prices, l.Token(), bytes.NewReader(wdata[:n]), n)
				return res, err
			},
			oracle: func(res any, _ *recorded) []finding {
				if got := res.(rhp.RPCWriteSectorResult).Root; got != want {
					return []finding{{"write:returned-root-not-root-of-sent-bytes", "successful write returned a root that is not the root of the padded bytes sent", map[string]any{"got": got, "want": want}}}
				}
				return nil
			},
		}, nil
	}

	verify := &scenario{rpc: "verify", nHost: 1, variants: []string{"A", "B"}}
	verify.prepare = func(variant string) (*exchange, error) {
		root, sec := roots[variant], sectors[variant]
		return &exchange{
			// a valid leaf proof - for another leaf than the requested one
			customOps: altOps(0, "alt-leaf:", []string{"xor1", "next", "prev", "first", "last", "far"}),
			custom: func(m *rhpmitm.Msg, mu mutation, seen *recorded) bool {
				arg, ok := strings.CutPrefix(mu.Op, "alt-leaf:")
				rq := seen.get(rhpmitm.RenterToHost, 0)
				if !ok || m.Err != nil || rq == nil {
					return false
				}
				idx := rq.Obj.(*rhp4.RPCVerifySectorRequest).LeafIndex
				alt := idx
				switch arg {
				case "xor1":
					alt = idx ^ 1
				case "next":
					alt = (idx + 1) % rhp4.LeavesPerSector
				case "prev":
					alt = (idx + rhp4.LeavesPerSector - 1) % rhp4.LeavesPerSector
				case "first":
					alt = 0
				case "last":
					alt = rhp4.LeavesPerSector - 1
				case "far":
					alt = (idx + rhp4.LeavesPerSector/2) % rhp4.LeavesPerSector
				}
				if alt == idx {
					return false
				}
				leaf, proof := rhpmitm.SectorLeafProof(sec, alt)
				m.Obj = &rhp4.RPCVerifySectorResponse{Proof: proof, Leaf: leaf}
				return true
			},
			call: func(ctx context.Context) (any, error) {
				return rhp.RPCVerifySector(ctx, l.T, l.Prices, l.Token(), root)
			},
			oracle: func(_ any, seen *recorded) []finding {
				rq, rs := seen.get(rhpmitm.RenterToHost, 0), seen.get(rhpmitm.HostToRenter, 0)
				if rq == nil || rs == nil || rs.Err != nil {
					return []finding{{"verify:success-without-response", "verify reported success although no response object was delivered", nil}}
				}
				idx := rq.Obj.(*rhp4.RPCVerifySectorRequest).LeafIndex
				resp := rs.Obj.(*rhp4.RPCVerifySectorResponse)
				var fs []finding
				if !rhp4.VerifyLeafProof(resp.Proof, resp.Leaf, idx, root) {
					fs = append(fs, finding{"verify:delivered-proof-does-not-verify", "verify reported success although the delivered proof does not verify for the requested leaf index and root", map[string]any{"leafIndex": idx}})
				}
				if idx < rhp4.LeavesPerSector && !bytes.Equal(resp.Leaf[:], sec[idx*64:idx*64+64]) {
					fs = append(fs, finding{"verify:delivered-leaf-not-in-sector", "verify reported success for a leaf that is not the requested leaf of the sector", map[string]any{"leafIndex": idx}})
				}
				return fs
			},
		}, nil
	}
	var plain, zero []string
	for _, v := range read.variants {
		if strings.ContainsAny(v[:1], "ZY0") {
			zero = append(zero, v)
		} else {
			plain = append(plain, v)
		}
	}
	if zeroPart {
		read.variants, read.lenient = zero, nil
		f.scenarios = []*scenario{read}
		return nil
	}
	read.variants = plain
	f.scenarios = []*scenario{read, write, verify}
	return nil
}

// ---- family: sector roots ----

// storeBaseRoots uploads n small sectors and returns their roots.
func storeBaseRoots(l *rhpmitm.Lab, rng *rand.Rand, n int) ([]types.Hash256, error) {
	var roots []types.Hash256
	for i := 0; i < n; i++ {
		data := make([]byte, 64)
		for j := range data {
			data[j] = byte(rng.Uint32())
		}
		root, err := l.WriteSector(data)
		if err != nil {
			return nil, err
		}
		roots = append(roots, root)
	}
	return roots, l.Barrier()
}

// normalize brings the contract's roots back to base with honest RPCs.
func normalize(l *rhpmitm.Lab, c *contractState, base []types.Hash256) error {
	if slices.Equal(c.roots, base) {
		return nil
	}
	if len(c.roots) > len(base) && slices.Equal(c.roots[:len(base)], base) {
		var idx []uint64
		for i := len(base); i < len(c.roots); i++ {
			idx = append(idx, uint64(i))
		}
		if err := honestFree(l, c, idx); err != nil {
			return err
		}
		return nil
	}
	if len(c.roots) > 0 {
		var idx []uint64
		for i := range c.roots {
			idx = append(idx, uint64(i))
		}
		if err := honestFree(l, c, idx); err != nil {
			return err
		}
	}
	if err := l.Append(&c.cur, base); err != nil {
		return err
	}
	if err := l.Barrier(); err != nil {
		return err
	}
	if err := c.resync(); err != nil {
		return err
	}
	if !slices.Equal(c.roots, base) {
		return fmt.Errorf("%w: could not normalize roots", rhpmitm.ErrHarness)
	}
	return nil
}

func honestFree(l *rhpmitm.Lab, c *contractState, idx []uint64) error {
	ctx, cancel := rhpmitm.Ctx()
	defer cancel()
	_, err := rhp.RPCFreeSectors(ctx, l.T, l.Signer, l.HostNode.CM.TipState(), l.Prices, c.cur, idx)
	if err != nil {
		return fmt.Errorf("%w: honest free failed: %v", rhpmitm.ErrHarness, err)
	}
	if err := l.Barrier(); err != nil {
		return err
	}
	return c.resync()
}

func parseInts(s string) []uint64 {
	var out []uint64
	for _, p := range strings.Split(s, ",") {
		var x uint64
		fmt.Sscanf(p, "%d", &x)
		out = append(out, x)
	}
	return out
}

func setupRevisionLab(f *family, nBase int) (*rhpmitm.Lab, *contractState, *contractState, []types.Hash256, error) {
	l, c, err := newLabWithContract(rhpmitm.Options{}, types.Siacoins(500), types.Siacoins(500))
	if err != nil {
		return nil, nil, nil, nil, err
	}
	f.lab = l
	if err := l.FundAccount(&c.cur, l.Account(), types.Siacoins(10)); err != nil {
		return nil, nil, nil, nil, err
	}
	base, err := storeBaseRoots(l, f.rng, nBase)
	if err != nil {
		return nil, nil, nil, nil, err
	}
	if err := c.resync(); err != nil {
		return nil, nil, nil, nil, err
	}
	if err := normalize(l, c, base); err != nil {
		return nil, nil, nil, nil, err
	}
	// a second contract with other roots (donor of "other contract" swaps)
	cs2, err := l.FormConfirmed(1, types.Siacoins(500), types.Siacoins(500), 400)
	if err != nil {
		return nil, nil, nil, nil, err
	}
	c2 := &contractState{lab: l, cur: cs2[0]}
	base2 := []types.Hash256{base[2], base[0], base[1]}
	if nBase < 3 {
		base2 = base
	}
	if err := normalize(l, c2, base2); err != nil {
		return nil, nil, nil, nil, err
	}
	return l, c, c2, base, nil
}

func buildRootsFamily(f *family) error {
	f.name = "roots"
	l, c1, c2, base, err := setupRevisionLab(f, 5)
	if err != nil {
		return err
	}
	_ = base
	// an EMPTY contract (file size 0, zero Merkle root): every non-empty range is
	// outside it, and a zero root with zero leaves "verifies" an empty proof
	cs0, err := l.FormConfirmed(1, types.Siacoins(100), types.Siacoins(100), 400)
	if err != nil {
		return err
	}
	c0 := &contractState{lab: l, cur: cs0[0]}
	if err := c0.resync(); err != nil {
		return err
	}
	// a contract with the history append 5 -> free 2: three sectors, capacity five
	cs3, err := l.FormConfirmed(1, types.Siacoins(500), types.Siacoins(500), 400)
	if err != nil {
		return err
	}
	c3 := &contractState{lab: l, cur: cs3[0]}
	if err := normalize(l, c3, base); err != nil {
		return err
	}
	if err := honestFree(l, c3, []uint64{1, 3}); err != nil {
		return err
	}
	sc := &scenario{rpc: "roots", nHost: 1, variants: []string{"1:0,1", "1:1,3", "2:0,2", "1:0,5", "1:4,1", "2:2,1", "3:0,3", "3:1,2", "3:2,1"},
		lenient: []string{"1:1,2", "0:0,1", "0:0,3", "0:1,1", "0:0,0", "1:5,1", "1:3,5", "1:0,6", "1:0,0", "1:18446744073709551615,2", "1:4,18446744073709551615", "2:3,1",
			// inside the CAPACITY of the history contract, outside its file
			"3:0,3", "3:3,1", "3:0,5", "3:2,3", "3:4,1"}}
	for _, v := range []string{"1:1,2", "1:0,5", "0:0,1", "0:0,3", "1:5,1", "1:3,5", "1:0,6", "1:18446744073709551615,2", "3:1,2", "3:3,1", "3:0,5"} {
		for _, md := range []string{"sub-first", "sub-last", "proof-drop", "proof-extra", "proof-none", "roots-drop", "roots-extra", "roots-none"} {
			sc.lenient = append(sc.lenient, v+"|"+md)
		}
	}
	sc.prepare = func(variant string) (*exchange, error) {
		c := c1
		switch variant[0] {
		case '2':
			c = c2
		case '0':
			c = c0
		case '3':
			c = c3
		}
		ol := parseInts(variant[2:])
		off, n := ol[0], ol[1]
		prev := c.cur
		truth := append([]types.Hash256(nil), c.roots...)
		// coherent alternatives: the roots and a VALID proof of another range of
		// the same contract, with the genuine host signature ("alt-roots") or with
		// a real-host-key signature over the revision that pays for the other
		// length ("alt-roots-resign")
		total := uint64(len(truth))
		var alts []string
		add := func(o, k uint64) {
			if k > 0 && o < total && k <= total-o && !(o == off && k == n) {
				alts = append(alts, fmt.Sprintf("%d,%d", o, k))
			}
		}
		inRange := n > 0 && off < total && n <= total-off
		add(off, n-1)
		add(off, n+1)
		add(off, total-off)
		add(off, 1)
		add(off+1, n)
		add(off+1, n-1)
		if off > 0 {
			add(off-1, n)
			add(off-1, n+1)
		}
		resign, resignOps := resignCustom(l, "roots", 0, func(string) (types.V2FileContract, bool) {
			rev, _, err := rhp4.ReviseForSectorRoots(prev.Revision, l.Prices, n)
			return rev, err == nil
		})
		return &exchange{
			customOps: append(append(altOps(0, "alt-roots:", alts), altOps(0, "alt-roots-resign:", alts)...), resignOps...),
			custom: chainCustom(resign, func(m *rhpmitm.Msg, mu mutation, seen *recorded) bool {
				if !strings.HasPrefix(mu.Op, "lenient") {
					return false
				}
				mode := strings.TrimPrefix(strings.TrimPrefix(mu.Op, "lenient"), ":")
				// the lenient host: whatever range is asked for, it returns that many
				// roots (the real ones where the contract has them, made-up ones
				// beyond), the best proof it can build, and its genuine signature
				// over the revision that pays for the requested length
				rq := seen.get(rhpmitm.RenterToHost, 0)
				if rq == nil {
					return false
				}
				req := rq.Obj.(*rhp4.RPCSectorRootsRequest)
				if req.Length > 64 {
					req = &rhp4.RPCSectorRootsRequest{Offset: req.Offset, Length: 64, Prices: req.Prices}
				}
				resp := &rhp4.RPCSectorRootsResponse{}
				for i := uint64(0); i < req.Length; i++ {
					if j := req.Offset + i; j >= req.Offset && j < total {
						resp.Roots = append(resp.Roots, truth[j])
					} else {
						resp.Roots = append(resp.Roots, types.Hash256{0xba, 0xd0, byte(i)})
					}
				}
				if total > 0 && req.Offset < total {
					end := min(total, req.Offset+max(min(req.Length, total), 1))
					if end <= req.Offset {
						end = total
					}
					resp.Proof = rhp4.BuildSectorRootsProof(truth, req.Offset, end)
				}
				// modes: the answer is built for ANOTHER range inside the contract, or
				// carries a hash / a root too few or too many
				switch mode {
				case "sub-first", "sub-last":
					k := min(max(req.Length, 1), total)
					o := uint64(0)
					if mode == "sub-last" {
						o = total - k
					}
					if total > 0 {
						resp.Roots = append([]types.Hash256(nil), truth[o:o+k]...)
						resp.Proof = rhp4.BuildSectorRootsProof(truth, o, o+k)
					}
				case "proof-drop":
					if len(resp.Proof) > 0 {
						resp.Proof = resp.Proof[:len(resp.Proof)-1]
					}
				case "proof-extra":
					resp.Proof = append(resp.Proof, types.Hash256{0xee})
				case "proof-none":
					resp.Proof = nil
				case "roots-drop":
					if len(resp.Roots) > 0 {
						resp.Roots = resp.Roots[:len(resp.Roots)-1]
					}
				case "roots-extra":
					resp.Roots = append(resp.Roots, types.Hash256{0xee})
				case "roots-none":
					resp.Roots = nil
				}
				rev, _, err := rhp4.ReviseForSectorRoots(prev.Revision, req.Prices, rq.Obj.(*rhp4.RPCSectorRootsRequest).Length)
				if err != nil {
					return false
				}
				resp.HostSignature = l.HostKey.SignHash(l.HostNode.CM.TipState().ContractSigHash(rev))
				m.Err, m.Obj = nil, resp
				return true
			}, func(m *rhpmitm.Msg, mu mutation, _ *recorded) bool {
				arg, ok := strings.CutPrefix(mu.Op, "alt-roots:")
				re := false
				if !ok {
					arg, ok = strings.CutPrefix(mu.Op, "alt-roots-resign:")
					re = true
				}
				resp, isResp := m.Obj.(*rhp4.RPCSectorRootsResponse)
				if !ok || m.Err != nil || !isResp {
					return false
				}
				ok2 := parseInts(arg)
				o, k := ok2[0], ok2[1]
				resp.Roots = append([]types.Hash256(nil), truth[o:o+k]...)
				resp.Proof = rhp4.BuildSectorRootsProof(truth, o, o+k)
				if re {
					rev, _, err := rhp4.ReviseForSectorRoots(prev.Revision, l.Prices, k)
					if err != nil {
						return false
					}
					resp.HostSignature = l.HostKey.SignHash(l.HostNode.CM.TipState().ContractSigHash(rev))
				}
				return true
			}),
			gap: prev.Revision.Capacity > prev.Revision.Filesize,
			answerOK: func(rec *recorded) bool {
				h0 := rec.get(rhpmitm.HostToRenter, 0)
				if h0 == nil || h0.Err != nil || !inRange {
					return false
				}
				resp := h0.Obj.(*rhp4.RPCSectorRootsResponse)
				rev, _, err := rhp4.ReviseForSectorRoots(prev.Revision, l.Prices, n)
				return err == nil && slices.Equal(resp.Roots, truth[off:off+n]) &&
					slices.Equal(resp.Proof, rhp4.BuildSectorRootsProof(truth, off, off+n)) &&
					l.HostKey.PublicKey().VerifyHash(l.HostNode.CM.TipState().ContractSigHash(rev), resp.HostSignature)
			},
			call: func(ctx context.Context) (any, error) {
				return rhp.RPCSectorRoots(ctx, l.T, l.HostNode.CM.TipState(), l.Prices, l.Signer, prev, off, n)
			},
			oracle: func(res any, _ *recorded) []finding {
				got := res.(rhp.RPCSectorRootsResult)
				var fs []finding
				if !inRange {
					return []finding{{"roots:renter-accepted-unverifiable-roots", "sector-roots reported success for a range that is not inside the contract (nothing the host returns for it can be verified)", map[string]any{"offset": off, "length": n, "contract_sectors": total, "returned_roots": len(got.Roots)}}}
				}
				if !slices.Equal(got.Roots, truth[off:off+n]) {
					fs = append(fs, finding{"roots:returned-roots-differ-from-contract", "successful sector-roots call returned roots that are not the contract's roots for the requested range", map[string]any{"got": got.Roots, "want": truth[off : off+n]}})
				}
				want, _, err := rhp4.ReviseForSectorRoots(prev.Revision, l.Prices, n)
				if err != nil {
					return append(fs, finding{"roots:success-on-unpayable-revision", "success although the revision cannot be paid", err.Error()})
				}
				return append(fs, checkRevision(l, "roots", got.Revision, want, prev.Revision)...)
			},
			after: c.resync,
		}, nil
	}
	f.scenarios = []*scenario{sc}
	return nil
}

// ---- family: append / free ----

func applyFree(roots []types.Hash256, indices []uint64) []types.Hash256 {
	indices = slices.Clone(indices)
	slices.SortFunc(indices, func(a, b uint64) int {
		switch {
		case a > b:
			return -1
		case a < b:
			return 1
		}
		return 0
	})
	indices = slices.Compact(indices)
	roots = slices.Clone(roots)
	for i, n := range indices {
		roots[n] = roots[len(roots)-i-1]
	}
	return roots[:len(roots)-len(indices)]
}

func isSubsequence(sub, of []types.Hash256) bool {
	j := 0
	for _, h := range of {
		if j < len(sub) && sub[j] == h {
			j++
		}
	}
	return j == len(sub)
}

func buildAppendFreeFamily(f *family) error {
	f.name = "append-free"
	l, c1, c2, base, err := setupRevisionLab(f, 5)
	if err != nil {
		return err
	}
	base2 := append([]types.Hash256(nil), c2.roots...)
	// a contract with the history append 2 -> free index 1: one sector left,
	// capacity two sectors. Sector roots are inner-node hashes, so the leaf
	// count fixes the tree shape: every later proof has to be made for the
	// FILESIZE-shaped tree, not the capacity-shaped one
	cs3, err := l.FormConfirmed(1, types.Siacoins(500), types.Siacoins(500), 400)
	if err != nil {
		return err
	}
	c3 := &contractState{lab: l, cur: cs3[0]}
	base3 := []types.Hash256{base[0]}
	if err := l.Append(&c3.cur, []types.Hash256{base[0], base[1]}); err != nil {
		return err
	}
	if err := l.Barrier(); err != nil {
		return err
	}
	if err := c3.resync(); err != nil {
		return err
	}
	if err := honestFree(l, c3, []uint64{1}); err != nil {
		return err
	}
	pick := func(variant string) (*contractState, []types.Hash256) {
		switch variant[0] {
		case '2':
			return c2, base2
		case '3': // the second contract cut down to two sectors
			return c2, base2[:2]
		case '5': // append 2, free 1: Capacity > Filesize
			return c3, base3
		}
		return c1, base
	}
	missing := types.Hash256{0xde, 0xad}
	appendSets := map[string][]types.Hash256{
		"5:two":          {base[1], base[2]},
		"5:one":          {base[3]},
		"1:one":          {base[0]},
		"1:three-1-miss": {base[1], missing, base[2]},
		"2:two":          {base[3], base[4]},
		"1:empty":        {},
		"1:same-twice":   {base[2], base[2]},
		"1:only-missing": {missing},
	}
	app := &scenario{rpc: "append", nHost: 2, variants: []string{"1:one", "1:three-1-miss", "2:two", "5:two", "5:one"},
		lenient: []string{"1:one", "1:empty", "1:same-twice", "1:only-missing"}}
	for _, v := range []string{"1:one", "1:empty", "1:three-1-miss", "1:only-missing", "2:two"} {
		for _, md := range []string{"other-set", "fewer", "accepted-extra", "accepted-short", "accepted-none", "subtree-drop", "subtree-extra", "subtree-none"} {
			app.lenient = append(app.lenient, v+"|"+md)
		}
	}
	app.prepare = func(variant string) (*exchange, error) {
		c, b := pick(variant)
		if err := normalize(l, c, b); err != nil {
			return nil, err
		}
		prev := c.cur
		prevRoots := append([]types.Hash256(nil), c.roots...)
		req := appendSets[variant]
		ex := &exchange{
			call: func(ctx context.Context) (any, error) {
				return rhp.RPCAppendSectors(ctx, l.T, l.Signer, l.HostNode.CM.TipState(), l.Prices, prev, req)
			},
			oracle: func(res any, _ *recorded) []finding {
				got := res.(rhp.RPCAppendSectorsResult)
				var fs []finding
				if !isSubsequence(got.Sectors, req) {
					fs = append(fs, finding{"append:accepted-not-subset-of-request", "the sectors reported as appended are not a subsequence of the requested roots", got.Sectors})
				}
				model := append(append([]types.Hash256(nil), prevRoots...), got.Sectors...)
				if got.Revision.FileMerkleRoot != rhp4.MetaRoot(model) || got.Revision.Filesize != uint64(len(model))*rhp4.SectorSize {
					fs = append(fs, finding{"append:new-root-or-filesize-not-list-model", "the returned revision's Merkle root / file size is not the requested append applied to the previous roots", map[string]any{"returned_root": got.Revision.FileMerkleRoot, "model_root": rhp4.MetaRoot(model), "returned_filesize": got.Revision.Filesize, "model_sectors": len(model)}})
				}
				want, _, err := rhp4.ReviseForAppendSectors(prev.Revision, l.Prices, rhp4.MetaRoot(model), uint64(len(got.Sectors)))
				if err != nil {
					return append(fs, finding{"append:success-on-unpayable-revision", "success although the revision cannot be paid", err.Error()})
				}
				return append(fs, checkRevision(l, "append", got.Revision, want, prev.Revision)...)
			},
			after: c.resync,
		}
		ex.forge = func(seen *recorded) (types.V2FileContract, bool) {
			h0 := seen.get(rhpmitm.HostToRenter, 0)
			if h0 == nil || h0.Err != nil {
				return types.V2FileContract{}, false
			}
			resp := h0.Obj.(*rhp4.RPCAppendSectorsResponse)
			if len(resp.Accepted) != len(req) {
				return types.V2FileContract{}, false
			}
			n := 0
			for _, a := range resp.Accepted {
				if a {
					n++
				}
			}
			rev, _, err := rhp4.ReviseForAppendSectors(prev.Revision, l.Prices, resp.NewMerkleRoot, uint64(n))
			return rev, err == nil
		}
		lenientAppend := func(m *rhpmitm.Msg, mu mutation, seen *recorded) bool {
			rq := seen.get(rhpmitm.RenterToHost, 0)
			if !strings.HasPrefix(mu.Op, "lenient") || rq == nil {
				return false
			}
			mode := strings.TrimPrefix(strings.TrimPrefix(mu.Op, "lenient"), ":")
			r0 := rq.Obj.(*rhp4.RPCAppendSectorsRequest)
			if m.Index == 1 {
				// countersigns the revision the renter derives from the answer it got
				h0 := seen.get(rhpmitm.HostToRenter, 0)
				if h0 == nil || h0.Err != nil {
					return false
				}
				resp := h0.Obj.(*rhp4.RPCAppendSectorsResponse)
				n := 0
				for i, a := range resp.Accepted {
					if a && i < len(r0.Sectors) {
						n++
					}
				}
				var rev types.V2FileContract
				var err error
				if p := mon.Guard(func() {
					rev, _, err = rhp4.ReviseForAppendSectors(prev.Revision, r0.Prices, resp.NewMerkleRoot, uint64(n))
				}); p != nil || err != nil {
					return false
				}
				// ... or whichever other count the renter's signature verifies for
				waitR1 := time.Duration(0)
				if m.Synthetic {
					waitR1 = 2 * time.Second
				}
				if r1 := seen.wait(rhpmitm.RenterToHost, 1, waitR1, m.RenterClosed); r1 != nil && r1.Err == nil {
					sig := r1.Obj.(*rhp4.RPCAppendSectorsSecondResponse).RenterSignature
					cs := l.HostNode.CM.TipState()
					for k := 0; k <= len(r0.Sectors)+2 && !l.RenterKey.PublicKey().VerifyHash(cs.ContractSigHash(rev), sig); k++ {
						var alt types.V2FileContract
						var aerr error
						if p := mon.Guard(func() {
							alt, _, aerr = rhp4.ReviseForAppendSectors(prev.Revision, r0.Prices, resp.NewMerkleRoot, uint64(k))
						}); p == nil && aerr == nil && l.RenterKey.PublicKey().VerifyHash(cs.ContractSigHash(alt), sig) {
							rev = alt
							f.r.Count("lenient_host:countersigned_a_revision_for_another_count_than_requested", 1)
						}
					}
				}
				m.Err, m.Obj = nil, &rhp4.RPCAppendSectorsThirdResponse{HostSignature: l.HostKey.SignHash(l.HostNode.CM.TipState().ContractSigHash(rev))}
				return true
			}
			// executes the request as received (also an empty one): every root it
			// stores is appended; the modes build the answer for another set or
			// with a count that is off by one
			var app []types.Hash256
			acc := make([]bool, len(r0.Sectors))
			for i, h := range r0.Sectors {
				if ok, _ := l.Sectors.HasSector(h); ok {
					acc[i] = true
					app = append(app, h)
				}
			}
			switch mode {
			case "other-set":
				app = append(app, base[4])
			case "fewer":
				if len(app) > 0 {
					app = app[:len(app)-1]
				}
			}
			sub, root := rhp4.BuildAppendProof(prevRoots, app)
			switch mode {
			case "accepted-extra":
				acc = append(acc, true)
			case "accepted-short":
				if len(acc) > 0 {
					acc = acc[:len(acc)-1]
				}
			case "accepted-none":
				acc = nil
			case "subtree-drop":
				if len(sub) > 0 {
					sub = sub[:len(sub)-1]
				}
			case "subtree-extra":
				sub = append(sub, types.Hash256{0xee})
			case "subtree-none":
				sub = nil
			}
			m.Err, m.Obj = nil, &rhp4.RPCAppendSectorsResponse{Accepted: acc, SubtreeRoots: sub, NewMerkleRoot: root}
			return true
		}
		altAppend := func(m *rhpmitm.Msg, mu mutation, _ *recorded) bool {
			kind, ok := strings.CutPrefix(mu.Op, "alt-append:")
			resp, isResp := m.Obj.(*rhp4.RPCAppendSectorsResponse)
			if !ok || m.Err != nil || !isResp {
				return false
			}
			var genuine []types.Hash256
			for _, h := range req {
				if h != missing {
					genuine = append(genuine, h)
				}
			}
			alt := append([]types.Hash256(nil), genuine...)
			switch kind {
			case "prefix": // claims everything was accepted, appends one sector fewer
				if len(alt) < 2 {
					return false
				}
				alt = alt[:len(alt)-1]
			case "none": // claims acceptance, appends nothing
				alt = nil
			case "other": // appends a foreign root instead of the last one
				alt[len(alt)-1] = types.Hash256{0xf0, 0x0d}
			case "extra": // appends one more than accepted
				alt = append(alt, genuine[0])
			case "reordered":
				if len(alt) < 2 || alt[0] == alt[1] {
					return false
				}
				alt[0], alt[1] = alt[1], alt[0]
			case "declined-last": // a legitimate decline: flags, proof and root agree
				n := 0
				for i := len(resp.Accepted) - 1; i >= 0 && n == 0; i-- {
					if resp.Accepted[i] {
						resp.Accepted[i] = false
						n++
					}
				}
				alt = alt[:len(alt)-1]
			default:
				return false
			}
			resp.SubtreeRoots, resp.NewMerkleRoot = rhp4.BuildAppendProof(prevRoots, alt)
			return true
		}
		altAppendOps := altOps(0, "alt-append:", []string{"prefix", "none", "other", "extra", "reordered", "declined-last"})
		// the answer recomputed CONSISTENTLY for a wrong old leaf count: the
		// capacity-shaped tree, file size +-1, double, half, zero
		nLeaves, capLeaves := uint64(len(prevRoots)), prev.Revision.Capacity/rhp4.SectorSize
		var counts []string
		for _, k := range []uint64{capLeaves, nLeaves - 1, nLeaves + 1, 2 * nLeaves, nLeaves / 2, 0, nLeaves + 2, capLeaves + 1} {
			if k != nLeaves && k < 1<<40 {
				counts = append(counts, fmt.Sprint(k))
			}
		}
		altAppendOps = append(altAppendOps, altOps(0, "alt-append-count:", counts)...)
		altAppendCount := func(m *rhpmitm.Msg, mu mutation, _ *recorded) bool {
			arg, ok := strings.CutPrefix(mu.Op, "alt-append-count:")
			resp, isResp := m.Obj.(*rhp4.RPCAppendSectorsResponse)
			if !ok || m.Err != nil || !isResp {
				return false
			}
			var k uint64
			fmt.Sscanf(arg, "%d", &k)
			var appd []types.Hash256
			for i, a := range resp.Accepted {
				if a && i < len(req) {
					appd = append(appd, req[i])
				}
			}
			sub, root, ok := rhpmitm.AppendAnswerForLeafCount(prevRoots, k, appd)
			if !ok {
				return false
			}
			resp.SubtreeRoots, resp.NewMerkleRoot = sub, root
			return true
		}
		ex.gap = prev.Revision.Capacity > prev.Revision.Filesize
		ex.answerOK = func(rec *recorded) bool {
			h0 := rec.get(rhpmitm.HostToRenter, 0)
			if h0 == nil || h0.Err != nil {
				return false
			}
			resp := h0.Obj.(*rhp4.RPCAppendSectorsResponse)
			if len(resp.Accepted) != len(req) {
				return false
			}
			model := append([]types.Hash256(nil), prevRoots...)
			for i, a := range resp.Accepted {
				if a {
					model = append(model, req[i])
				}
			}
			sub, root := rhp4.BuildAppendProof(prevRoots, model[len(prevRoots):])
			return resp.NewMerkleRoot == root && slices.Equal(resp.SubtreeRoots, sub) && root == rhp4.MetaRoot(model)
		}
		defer func() {
			ex.custom = chainCustom(ex.custom, altAppend, altAppendCount, lenientAppend)
			ex.customOps = append(ex.customOps, altAppendOps...)
		}()
		ex.custom, ex.customOps = resignCustom(l, "append", 1, func(alt string) (types.V2FileContract, bool) {
			// the genuine successor as the honest host computes it
			model := append([]types.Hash256(nil), prevRoots...)
			n := 0
			for _, h := range req {
				if h != missing {
					model = append(model, h)
					n++
				}
			}
			rev, _, err := rhp4.ReviseForAppendSectors(prev.Revision, l.Prices, rhp4.MetaRoot(model), uint64(n))
			return rev, err == nil
		})
		return ex, nil
	}

	freeSets := map[string][]uint64{
		"1:first":   {0},
		"1:two":     {4, 1},
		"1:dup":     {2, 2, 3},
		"1:all":     {0, 1, 2, 3, 4},
		"2:lastone": {2},
		// caller lists for the lenient host: duplicates in every position pattern,
		// out of order, out of range
		"1:nonadj":      {1, 3, 1},
		"1:nonadj4":     {0, 2, 4, 2},
		"1:nonadj-asc":  {1, 2, 3, 1},
		"1:alleq":       {2, 2, 2},
		"1:adjdup":      {3, 3, 1},
		"1:duplast":     {4, 1, 4},
		"1:dupfirst":    {0, 3, 0},
		"1:pairs":       {3, 0, 3, 0},
		"1:unsorted":    {0, 4, 2},
		"1:oob":         {7},
		"1:oob-eq":      {5},
		"1:oob-mixed":   {1, 9},
		"1:empty":       {},
		"2:nonadj":      {0, 2, 0},
		"1:pair":        {2, 2},
		"1:pair-last":   {4, 4},
		"1:aba-last":    {4, 2, 4},
		"1:triple-last": {4, 4, 4},
		"1:all-twice":   {0, 1, 2, 3, 4, 0, 1, 2, 3, 4},
		"2:pair":        {1, 1},
		"5:only-twice":  {0, 0},
		"5:only":        {0},
		"5:cap-index":   {1},
		"3:oob5":        {5},
		"3:oob2":        {2},
		"3:oob-mixed":   {0, 5},
		"3:oob-huge":    {1 << 62},
		"3:inrange":     {1},
		"1:oob-huge":    {1<<64 - 1},
	}
	// every request (in range and out of range, on a 2-sector and a 5-sector
	// contract) against every way the host's proof can be built for another
	// index set or with a hash too few / too many
	freeModes := []string{"sub-mod", "sub-last", "sub-first", "tree-drop", "tree-extra", "tree-none", "leaf-drop", "leaf-extra", "leaf-none", "all-none"}
	var freeLenientModes []string
	for _, v := range []string{"3:oob5", "3:oob2", "3:oob-mixed", "3:oob-huge", "3:inrange", "1:oob", "1:oob-eq", "1:oob-mixed", "1:oob-huge", "1:two", "1:all"} {
		freeLenientModes = append(freeLenientModes, v)
		for _, md := range freeModes {
			if strings.HasPrefix(md, "sub-") && !strings.Contains(v, "oob") {
				continue
			}
			freeLenientModes = append(freeLenientModes, v+"|"+md)
		}
	}
	fr := &scenario{rpc: "free", nHost: 2, variants: []string{"1:first", "1:two", "1:dup", "1:all", "2:lastone", "5:only"},
		lenient: []string{"1:two", "1:nonadj", "1:nonadj4", "1:nonadj-asc", "1:alleq", "1:adjdup", "1:duplast", "1:dupfirst", "1:pairs", "1:unsorted", "1:oob", "1:oob-eq", "1:oob-mixed", "1:empty", "2:nonadj"}}
	fr.lenient = append(fr.lenient, "1:dup", "1:pair", "1:pair-last", "1:aba-last", "1:triple-last", "1:all-twice", "2:pair", "5:only-twice")
	fr.lenient = append(fr.lenient, freeLenientModes...)
	// index 1 is inside the CAPACITY of the history contract, not inside its file
	fr.lenient = append(fr.lenient, "5:only", "5:cap-index", "5:cap-index|sub-last", "5:cap-index|sub-mod")
	app.lenient = append(app.lenient, "5:two", "5:one", "5:two|other-set", "5:two|subtree-extra", "5:two|subtree-none")
	fr.prepare = func(variant string) (*exchange, error) {
		c, b := c1, base
		c, b = pick(variant)
		if err := normalize(l, c, b); err != nil {
			return nil, err
		}
		prev := c.cur
		prevRoots := append([]types.Hash256(nil), c.roots...)
		idx := freeSets[variant]
		// reference model: remove the SET of distinct requested indices by
		// swap-with-tail in descending order; no model if an index is outside
		// the contract
		inRange := true
		for _, i := range idx {
			inRange = inRange && i < uint64(len(prevRoots))
		}
		model := prevRoots
		if inRange {
			model = applyFree(prevRoots, idx)
		}
		ndel := len(prevRoots) - len(model)
		ex := &exchange{
			call: func(ctx context.Context) (any, error) {
				return rhp.RPCFreeSectors(ctx, l.T, l.Signer, l.HostNode.CM.TipState(), l.Prices, prev, idx)
			},
			oracle: func(res any, seen *recorded) []finding {
				got := res.(rhp.RPCFreeSectorsResult)
				var fs []finding
				if !inRange {
					return []finding{{"free:success-for-index-outside-contract", "free-sectors reported success although a requested index is not inside the contract", map[string]any{"indices": idx, "contract_sectors": len(prevRoots)}}}
				}
				// the request the host received must name each sector at most once:
				// a host that executes a repeated index verbatim frees more sectors
				// than the caller asked for, and the renter signs that away
				if rq := seen.get(rhpmitm.RenterToHost, 0); rq != nil {
					sent := rq.Obj.(*rhp4.RPCFreeSectorsRequest).Indices
					dup := map[uint64]bool{}
					for _, i := range sent {
						if dup[i] {
							fs = append(fs, finding{"free:renter-accepted-revision-not-matching-request", "the free-sectors request that went out repeats an index and the call still succeeded: the revision the renter signed frees a different set of sectors than the caller's list", map[string]any{"caller_indices": idx, "sent_indices": sent, "returned_filesize": got.Revision.Filesize, "model_sectors": len(model)}})
							break
						}
						dup[i] = true
					}
				}
				if got.Revision.FileMerkleRoot != rhp4.MetaRoot(model) || got.Revision.Filesize != uint64(len(model))*rhp4.SectorSize {
					fs = append(fs, finding{"free:new-root-or-filesize-not-list-model", "the returned revision's Merkle root / file size is not the requested free applied to the previous roots", map[string]any{"returned_root": got.Revision.FileMerkleRoot, "model_root": rhp4.MetaRoot(model), "returned_filesize": got.Revision.Filesize, "model_sectors": len(model)}})
				}
				want, _, err := rhp4.ReviseForFreeSectors(prev.Revision, l.Prices, rhp4.MetaRoot(model), ndel)
				if err != nil {
					return append(fs, finding{"free:success-on-unpayable-revision", "success although the revision cannot be paid", err.Error()})
				}
				return append(fs, checkRevision(l, "free", got.Revision, want, prev.Revision)...)
			},
			after: c.resync,
		}
		ex.forge = func(seen *recorded) (types.V2FileContract, bool) {
			h0 := seen.get(rhpmitm.HostToRenter, 0)
			if h0 == nil || h0.Err != nil {
				return types.V2FileContract{}, false
			}
			resp := h0.Obj.(*rhp4.RPCFreeSectorsResponse)
			rev, _, err := rhp4.ReviseForFreeSectors(prev.Revision, l.Prices, resp.NewMerkleRoot, ndel)
			return rev, err == nil
		}
		lenientFree := func(m *rhpmitm.Msg, mu mutation, seen *recorded) bool {
			rq := seen.get(rhpmitm.RenterToHost, 0)
			if !strings.HasPrefix(mu.Op, "lenient") || rq == nil {
				return false
			}
			mode := strings.TrimPrefix(strings.TrimPrefix(mu.Op, "lenient"), ":")
			r0 := rq.Obj.(*rhp4.RPCFreeSectorsRequest)
			n := uint64(len(prevRoots))
			if m.Index == 1 {
				// countersigns the revision the renter derives from the answer it got
				h0 := seen.get(rhpmitm.HostToRenter, 0)
				if h0 == nil || h0.Err != nil {
					return false
				}
				root := h0.Obj.(*rhp4.RPCFreeSectorsResponse).NewMerkleRoot
				honestRefused := m.Err != nil || m.Synthetic
				// it countersigns WHICHEVER revision the renter actually signed: it
				// tries every deletion count until the renter's signature verifies
				// (the count of the request first), then signs that with its real key
				cs := l.HostNode.CM.TipState()
				counts := []int{len(r0.Indices)}
				for k := 0; k <= len(prevRoots)+len(idx)+2; k++ {
					counts = append(counts, k)
				}
				var renterSig *types.Signature
				// (a real final message means the renter's signature has passed
				// already; for an invented one it may still be on its way)
				waitR1 := time.Duration(0)
				if m.Synthetic {
					waitR1 = 2 * time.Second
				}
				if r1 := seen.wait(rhpmitm.RenterToHost, 1, waitR1, m.RenterClosed); r1 != nil && r1.Err == nil {
					renterSig = &r1.Obj.(*rhp4.RPCFreeSectorsSecondResponse).RenterSignature
				}
				var chosen *types.V2FileContract
				for _, k := range counts {
					var rev types.V2FileContract
					var err error
					if p := mon.Guard(func() { rev, _, err = rhp4.ReviseForFreeSectors(prev.Revision, r0.Prices, root, k) }); p != nil || err != nil {
						continue
					}
					if chosen == nil {
						chosen = &rev // fallback: the request's count
					}
					if renterSig != nil && l.RenterKey.PublicKey().VerifyHash(cs.ContractSigHash(rev), *renterSig) {
						chosen = &rev
						if k != len(r0.Indices) {
							f.r.Count("lenient_host:countersigned_a_revision_for_another_count_than_requested", 1)
						}
						break
					}
				}
				if chosen == nil {
					return false
				}
				if honestRefused {
					f.r.Count("lenient_host:countersigned_what_the_honest_host_refused:free", 1)
				}
				m.Err, m.Obj = nil, &rhp4.RPCFreeSectorsThirdResponse{HostSignature: l.HostKey.SignHash(cs.ContractSigHash(*chosen))}
				return true
			}
			// the index list the host executes: by default the list exactly as
			// received - duplicates, order and all - with indices outside the
			// contract skipped; the substitution modes map an out-of-range index to
			// one inside the contract instead (a proof for ANOTHER index set)
			var exec []uint64
			for _, i := range r0.Indices {
				switch {
				case i < n:
					exec = append(exec, i)
				case n == 0:
				case mode == "sub-mod":
					exec = append(exec, i%n)
				case mode == "sub-last":
					exec = append(exec, n-1)
				case mode == "sub-first":
					exec = append(exec, 0)
				}
			}
			if uint64(len(exec)) > n {
				exec = exec[:n]
			}
			after := slices.Clone(prevRoots)
			for i, k := range exec {
				after[k] = after[len(after)-i-1]
			}
			after = after[:len(after)-len(exec)]
			var th, lh []types.Hash256
			if p := mon.Guard(func() { th, lh = rhp4.BuildFreeSectorsProof(prevRoots, exec) }); p != nil {
				return false
			}
			switch mode {
			case "tree-drop":
				if len(th) > 0 {
					th = th[:len(th)-1]
				}
			case "tree-extra":
				th = append(th, types.Hash256{0xee})
			case "tree-none":
				th = nil
			case "leaf-drop":
				if len(lh) > 0 {
					lh = lh[:len(lh)-1]
				}
			case "leaf-extra":
				lh = append(lh, types.Hash256{0xee})
			case "leaf-none":
				lh = nil
			case "all-none":
				th, lh = nil, nil
			}
			m.Err, m.Obj = nil, &rhp4.RPCFreeSectorsResponse{OldSubtreeHashes: th, OldLeafHashes: lh, NewMerkleRoot: rhp4.MetaRoot(after)}
			return true
		}
		altFree := func(m *rhpmitm.Msg, mu mutation, _ *recorded) bool {
			kind, ok := strings.CutPrefix(mu.Op, "alt-free:")
			resp, isResp := m.Obj.(*rhp4.RPCFreeSectorsResponse)
			if !ok || m.Err != nil || !isResp {
				return false
			}
			// the request as the client normalises it: descending, no duplicates
			norm := slices.Clone(idx)
			slices.SortFunc(norm, func(a, b uint64) int { return int(int64(b) - int64(a)) })
			norm = slices.Compact(norm)
			n := uint64(len(prevRoots))
			var alt []uint64
			switch kind {
			case "fewer": // frees one sector less than requested
				alt = norm[:len(norm)-1]
			case "more": // frees one sector more
				for i := uint64(0); i < n; i++ {
					if !slices.Contains(norm, i) {
						alt = append(slices.Clone(norm), i)
						break
					}
				}
			case "others": // frees the same number of other sectors
				for _, i := range norm {
					alt = append(alt, (i+1)%n)
				}
			case "nothing":
				alt = []uint64{}
			}
			if alt == nil {
				return false
			}
			alt = slices.Clone(alt)
			slices.SortFunc(alt, func(a, b uint64) int { return int(int64(b) - int64(a)) })
			alt = slices.Compact(alt)
			if slices.Equal(alt, norm) {
				return false
			}
			resp.OldSubtreeHashes, resp.OldLeafHashes = rhp4.BuildFreeSectorsProof(prevRoots, alt)
			resp.NewMerkleRoot = rhp4.MetaRoot(applyFree(prevRoots, alt))
			return true
		}
		altFreeOps := altOps(0, "alt-free:", []string{"fewer", "more", "others", "nothing"})
		// the answer built consistently over a tree with a WRONG leaf count: the
		// halved view (adjacent pairs merged) has the same root with
		// ceil(n/2) leaves
		altFreeOps = append(altFreeOps, altOps(0, "alt-free-count:", []string{"half", "half-clamped"})...)
		altFreeCount := func(m *rhpmitm.Msg, mu mutation, _ *recorded) bool {
			arg, ok := strings.CutPrefix(mu.Op, "alt-free-count:")
			resp, isResp := m.Obj.(*rhp4.RPCFreeSectorsResponse)
			if !ok || m.Err != nil || !isResp || len(prevRoots) < 2 {
				return false
			}
			view := rhpmitm.HalvedView(prevRoots)
			norm := slices.Clone(idx)
			slices.SortFunc(norm, func(a, b uint64) int { return int(int64(b) - int64(a)) })
			norm = slices.Compact(norm)
			var exec []uint64
			for _, i := range norm {
				switch {
				case i < uint64(len(view)):
					exec = append(exec, i)
				case arg == "half-clamped":
					exec = append(exec, uint64(len(view)-1))
				}
			}
			exec = slices.Compact(exec)
			if len(exec) == 0 {
				return false
			}
			var th, lh []types.Hash256
			if p := mon.Guard(func() { th, lh = rhp4.BuildFreeSectorsProof(view, exec) }); p != nil {
				return false
			}
			resp.OldSubtreeHashes, resp.OldLeafHashes = th, lh
			resp.NewMerkleRoot = rhp4.MetaRoot(applyFree(view, exec))
			return true
		}
		ex.gap = prev.Revision.Capacity > prev.Revision.Filesize
		ex.answerOK = func(rec *recorded) bool {
			h0 := rec.get(rhpmitm.HostToRenter, 0)
			if h0 == nil || h0.Err != nil || !inRange {
				return false
			}
			resp := h0.Obj.(*rhp4.RPCFreeSectorsResponse)
			norm := slices.Clone(idx)
			slices.SortFunc(norm, func(a, b uint64) int { return int(int64(b) - int64(a)) })
			norm = slices.Compact(norm)
			return resp.NewMerkleRoot == rhp4.MetaRoot(model) &&
				rhp4.VerifyFreeSectorsProof(resp.OldSubtreeHashes, resp.OldLeafHashes, norm, uint64(len(prevRoots)), rhp4.MetaRoot(prevRoots), resp.NewMerkleRoot)
		}
		defer func() {
			ex.custom = chainCustom(ex.custom, altFree, altFreeCount, lenientFree)
			ex.customOps = append(ex.customOps, altFreeOps...)
		}()
		ex.custom, ex.customOps = resignCustom(l, "free", 1, func(alt string) (types.V2FileContract, bool) {
			rev, _, err := rhp4.ReviseForFreeSectors(prev.Revision, l.Prices, rhp4.MetaRoot(model), ndel)
			return rev, err == nil
		})
		return ex, nil
	}
	f.scenarios = []*scenario{app, fr}
	return nil
}

// chainCustom tries each custom mutator in turn.
func chainCustom(fns ...customMut) customMut {
	return func(m *rhpmitm.Msg, mu mutation, seen *recorded) bool {
		for _, fn := range fns {
			if fn != nil && fn(m, mu, seen) {
				return true
			}
		}
		return false
	}
}

func altOps(msg int, prefix string, args []string) []mutation {
	var out []mutation
	seen := map[string]bool{}
	for _, a := range args {
		if !seen[a] {
			seen[a] = true
			out = append(out, mutation{Dir: "H", Msg: msg, Op: prefix + a})
		}
	}
	return out
}

// resignAlterations are the ways the signed object is altered before it is
// re-signed with the real host key.
var resignAlterations = []string{"payout-to-host", "revision+1", "root-flip", "filesize+sector", "missed-host-zero", "renter-key-swap"}

func alterContract(fc *types.V2FileContract, alt string) {
	switch alt {
	case "payout-to-host":
		d := types.Siacoins(1)
		if fc.RenterOutput.Value.Cmp(d) < 0 {
			d = fc.RenterOutput.Value
		}
		fc.RenterOutput.Value = fc.RenterOutput.Value.Sub(d)
		fc.HostOutput.Value = fc.HostOutput.Value.Add(d)
	case "revision+1":
		fc.RevisionNumber++
	case "root-flip":
		fc.FileMerkleRoot[0] ^= 1
	case "filesize+sector":
		fc.Filesize += rhp4.SectorSize
		fc.Capacity += rhp4.SectorSize
	case "missed-host-zero":
		fc.MissedHostValue = types.ZeroCurrency
	case "renter-key-swap":
		fc.RenterPublicKey[0] ^= 1
	}
}

// resignCustom builds the custom operator "resign:<alteration>" for an RPC
// whose host message msgIdx carries a single HostSignature field over the
// revision genuine() returns: the revision is altered and signed with the
// real host key, so the signature is valid - but over a different object than
// the one the renter computed.
func resignCustom(l *rhpmitm.Lab, rpc string, msgIdx int, genuine func(alt string) (types.V2FileContract, bool)) (customMut, []mutation) {
	var ops []mutation
	for _, a := range resignAlterations {
		ops = append(ops, mutation{Dir: "H", Msg: msgIdx, Op: "resign:" + a})
	}
	return func(m *rhpmitm.Msg, mu mutation, _ *recorded) bool {
		alt, ok := strings.CutPrefix(mu.Op, "resign:")
		if !ok || m.Err != nil {
			return false
		}
		rev, ok := genuine(alt)
		if !ok {
			return false
		}
		alterContract(&rev, alt)
		sig := l.HostKey.SignHash(l.HostNode.CM.TipState().ContractSigHash(rev))
		switch o := m.Obj.(type) {
		case *rhp4.RPCAppendSectorsThirdResponse:
			o.HostSignature = sig
		case *rhp4.RPCFreeSectorsThirdResponse:
			o.HostSignature = sig
		case *rhp4.RPCReplenishAccountsThirdResponse:
			o.HostSignature = sig
		case *rhp4.RPCSectorRootsResponse:
			o.HostSignature = sig
		case *rhp4.RPCFundAccountsResponse:
			o.HostSignature = sig
		default:
			return false
		}
		return true
	}, ops
}

// ---- family: fund / replenish accounts / replenish pools ----

func buildAccountFamily(f *family) error {
	f.name = "accounts"
	l, c, err := newLabWithContract(rhpmitm.Options{}, types.Siacoins(5000), types.Siacoins(100))
	if err != nil {
		return err
	}
	f.lab = l
	// history: append 3 sectors, free one - Capacity > Filesize while the
	// account RPCs revise the contract
	if err := l.FundAccount(&c.cur, l.Account(), types.Siacoins(1)); err != nil {
		return err
	}
	hist, err := storeBaseRoots(l, f.rng, 3)
	if err != nil {
		return err
	}
	if err := l.Append(&c.cur, hist); err != nil {
		return err
	}
	if err := l.Barrier(); err != nil {
		return err
	}
	if err := c.resync(); err != nil {
		return err
	}
	if err := honestFree(l, c, []uint64{1}); err != nil {
		return err
	}
	newAccounts := func(n int) []rhp4.Account {
		out := make([]rhp4.Account, n)
		for i := range out {
			for j := range out[i] {
				out[i][j] = byte(f.rng.Uint32())
			}
		}
		return out
	}

	fund := &scenario{rpc: "fund", nHost: 1, variants: []string{"1", "3"}}
	fund.prepare = func(variant string) (*exchange, error) {
		n := int(parseInts(variant)[0])
		var deps []rhp4.AccountDeposit
		var total types.Currency
		for i, a := range newAccounts(n) {
			amt := types.Siacoins(1).Div64(100).Mul64(uint64(i + 1))
			deps = append(deps, rhp4.AccountDeposit{Account: a, Amount: amt})
			total = total.Add(amt)
		}
		prev := c.cur
		ex := &exchange{
			call: func(ctx context.Context) (any, error) {
				return rhp.RPCFundAccounts(ctx, l.T, l.HostNode.CM.TipState(), l.Signer, prev, deps)
			},
			oracle: func(res any, _ *recorded) []finding {
				got := res.(rhp.RPCFundAccountResult)
				var fs []finding
				if len(got.Balances) != len(deps) {
					fs = append(fs, finding{"fund:balance-count", "number of returned balances differs from the number of deposits", len(got.Balances)})
				}
				want, _, err := rhp4.ReviseForFundAccounts(prev.Revision, total)
				if err != nil {
					return append(fs, finding{"fund:success-on-unpayable-revision", "success although the revision cannot be paid", err.Error()})
				}
				return append(fs, checkRevision(l, "fund", got.Revision, want, prev.Revision)...)
			},
			after: c.resync,
		}
		ex.gap = prev.Revision.Capacity > prev.Revision.Filesize
		ex.custom, ex.customOps = resignCustom(l, "fund", 0, func(string) (types.V2FileContract, bool) {
			rev, _, err := rhp4.ReviseForFundAccounts(prev.Revision, total)
			return rev, err == nil
		})
		return ex, nil
	}

	target := types.Siacoins(1).Div64(50)
	replenishOracle := func(rpc string, prev rhp.ContractRevision, n int, rev types.V2FileContract, deposits []rhp4.AccountDeposit) []finding {
		var fs []finding
		var total types.Currency
		for _, d := range deposits {
			if d.Amount.Cmp(target) > 0 {
				// not demanded by the statement (only the total is bounded): observed only
				f.r.Count("replenish_success_with_single_deposit_above_target", 1)
			}
			total = total.Add(d.Amount)
		}
		bound := target.Mul64(uint64(n))
		if total.Cmp(bound) > 0 {
			fs = append(fs, finding{rpc + ":cost-above-target-times-accounts", "the total cost exceeds target x number of accounts", map[string]any{"total": total, "bound": bound}})
		}
		moved, underflow := prev.Revision.RenterOutput.Value.SubWithUnderflow(rev.RenterOutput.Value)
		if underflow || moved.Cmp(bound) > 0 {
			fs = append(fs, finding{rpc + ":revision-moves-more-than-bound", "the returned revision moves more value than target x number of accounts", map[string]any{"moved": moved, "bound": bound}})
		}
		if total.IsZero() {
			// nothing to deposit: the exchange ends after the host's first message,
			// the host signs and persists nothing - the only revision the call can
			// return with a valid host signature is the caller's current one
			if !hostSigValid(l, rev) || !renterSigValid(l, rev) {
				fs = append(fs, finding{rpc + ":returned-revision-host-sig-invalid", "zero-cost replenish reported success with a revision that is not signed by both parties (the exchange ended before anything was signed)", map[string]any{"returned": rev, "previous": prev.Revision}})
			}
			if rev != prev.Revision {
				fs = append(fs, finding{rpc + ":zero-cost-revision-changed", "zero-cost replenish returned a revision different from the previous one (the host holds the previous one)", map[string]any{"returned_revision_number": rev.RevisionNumber, "previous_revision_number": prev.Revision.RevisionNumber}})
			}
			return fs
		}
		want, _, err := rhp4.ReviseForReplenish(prev.Revision, total)
		if err != nil {
			return append(fs, finding{rpc + ":success-on-unpayable-revision", "success although the revision cannot be paid", err.Error()})
		}
		return append(fs, checkRevision(l, rpc, rev, want, prev.Revision)...)
	}

	// followUpOn builds a further RPC (a tiny account funding) on the revision a
	// replenish call returned and runs it against the honest host: the host must
	// serve it, i.e. the renter holds what the host holds
	followUpOn := func(rpc string, rev types.V2FileContract) *finding {
		if err := l.Barrier(); err != nil {
			return nil
		}
		ctx, cancel := rhpmitm.Ctx()
		defer cancel()
		dep := []rhp4.AccountDeposit{{Account: newAccounts(1)[0], Amount: types.NewCurrency64(1000)}}
		_, err := rhp.RPCFundAccounts(ctx, l.T, l.HostNode.CM.TipState(), l.Signer, rhp.ContractRevision{ID: c.cur.ID, Revision: rev}, dep)
		f.r.Count("follow_up_rpcs_on_returned_revision", 1)
		// the follow-up's own handler must have released the contract before
		// the caller re-reads the host's state
		if berr := l.Barrier(); berr != nil {
			harnessFail(f.r, "barrier after follow-up on "+rpc, berr)
		}
		if err != nil {
			return &finding{rpc + ":returned-revision-not-served-by-host", "a follow-up RPC built on the revision the successful call returned is refused by the honest host (the renter does not hold what the host holds): " + err.Error(), map[string]any{"returned_revision_number": rev.RevisionNumber}}
		}
		return nil
	}
	// zeroDeposits is the lenient host that answers "nothing to deposit" for
	// accounts that are not at target
	zeroDeposits := func(m *rhpmitm.Msg, mu mutation, _ *recorded) bool {
		resp, ok := m.Obj.(*rhp4.RPCReplenishAccountsResponse)
		if mu.Op != "lenient:zero-deposits" || m.Err != nil || !ok {
			return false
		}
		for i := range resp.Deposits {
			resp.Deposits[i].Amount = types.ZeroCurrency
		}
		return true
	}
	// replenish accounts: "2new" = two fresh accounts (full four-message
	// exchange), "1new1full" = one fresh and one already at target,
	// "full" = all at target (two-message exchange, zero cost)
	fullAccounts := newAccounts(2)
	replAcc := &scenario{rpc: "replenish-accounts", nHost: 2, variants: []string{"2new", "1new1full", "full", "repeat", "full-one"},
		lenient: []string{"2new|zero-deposits", "1new1full|zero-deposits", "full|zero-deposits", "full", "repeat"}}
	fullReady := false
	replAcc.prepare = func(variant string) (*exchange, error) {
		if !fullReady {
			ctx, cancel := rhpmitm.Ctx()
			res, err := rhp.RPCReplenishAccounts(ctx, l.T, rhp.RPCReplenishAccountsParams{Accounts: fullAccounts, Target: target, Contract: c.cur}, l.HostNode.CM.TipState(), l.Signer)
			cancel()
			if err != nil {
				return nil, fmt.Errorf("%w: honest replenish failed: %v", rhpmitm.ErrHarness, err)
			}
			_ = res
			if err := l.Barrier(); err != nil {
				return nil, err
			}
			if err := c.resync(); err != nil {
				return nil, err
			}
			fullReady = true
		}
		var accs []rhp4.Account
		switch variant {
		case "2new":
			accs = newAccounts(2)
		case "1new1full":
			accs = []rhp4.Account{newAccounts(1)[0], fullAccounts[0]}
		case "full":
			accs = fullAccounts
		case "full-one":
			accs = fullAccounts[:1]
		case "repeat":
			// the second of two identical calls: the first one (honest) brings
			// fresh accounts to the target
			accs = newAccounts(2)
			ctx, cancel := rhpmitm.Ctx()
			_, err := rhp.RPCReplenishAccounts(ctx, l.T, rhp.RPCReplenishAccountsParams{Accounts: accs, Target: target, Contract: c.cur}, l.HostNode.CM.TipState(), l.Signer)
			cancel()
			if err != nil {
				return nil, fmt.Errorf("%w: honest replenish failed: %v", rhpmitm.ErrHarness, err)
			}
			if err := l.Barrier(); err != nil {
				return nil, err
			}
			if err := c.resync(); err != nil {
				return nil, err
			}
		}
		prev := c.cur
		ex := &exchange{
			followUp: func(res any) *finding {
				return followUpOn("replenish-accounts", res.(rhp.RPCReplenishAccountsResult).Revision)
			},
			call: func(ctx context.Context) (any, error) {
				return rhp.RPCReplenishAccounts(ctx, l.T, rhp.RPCReplenishAccountsParams{Accounts: accs, Target: target, Contract: prev}, l.HostNode.CM.TipState(), l.Signer)
			},
			oracle: func(res any, _ *recorded) []finding {
				got := res.(rhp.RPCReplenishAccountsResult)
				return replenishOracle("replenish-accounts", prev, len(accs), got.Revision, got.Deposits)
			},
			after: c.resync,
		}
		ex.forge = func(seen *recorded) (types.V2FileContract, bool) {
			h0 := seen.get(rhpmitm.HostToRenter, 0)
			if h0 == nil || h0.Err != nil {
				return types.V2FileContract{}, false
			}
			total := h0.Obj.(*rhp4.RPCReplenishAccountsResponse).TotalCost()
			if total.IsZero() {
				return types.V2FileContract{}, false
			}
			rev, _, err := rhp4.ReviseForReplenish(prev.Revision, total)
			return rev, err == nil
		}
		ex.gap = prev.Revision.Capacity > prev.Revision.Filesize
		ex.custom, ex.customOps = resignCustom(l, "replenish-accounts", 1, func(string) (types.V2FileContract, bool) {
			fresh := 0
			for _, a := range accs {
				if a != fullAccounts[0] && a != fullAccounts[1] {
					fresh++
				}
			}
			if fresh == 0 {
				return types.V2FileContract{}, false
			}
			rev, _, err := rhp4.ReviseForReplenish(prev.Revision, target.Mul64(uint64(fresh)))
			return rev, err == nil
		})
		ex.custom = chainCustom(ex.custom, zeroDeposits)
		return ex, nil
	}

	fullPools := newAccounts(2)
	poolsReady := false
	replPool := &scenario{rpc: "replenish-pools", nHost: 2, variants: []string{"2new", "1new1full", "full", "repeat", "full-one"},
		lenient: []string{"2new|zero-deposits", "1new1full|zero-deposits", "full|zero-deposits", "full", "repeat"}}
	replPool.prepare = func(variant string) (*exchange, error) {
		if !poolsReady {
			ctx, cancel := rhpmitm.Ctx()
			_, err := rhp.RPCReplenishPools(ctx, l.T, rhp.RPCReplenishPoolsParams{Pools: fullPools, Target: target, Contract: c.cur}, l.HostNode.CM.TipState(), l.Signer)
			cancel()
			if err != nil {
				return nil, fmt.Errorf("%w: honest replenish pools failed: %v", rhpmitm.ErrHarness, err)
			}
			if err := l.Barrier(); err != nil {
				return nil, err
			}
			if err := c.resync(); err != nil {
				return nil, err
			}
			poolsReady = true
		}
		var pools []rhp4.Account
		switch variant {
		case "2new":
			pools = newAccounts(2)
		case "1new1full":
			pools = []rhp4.Account{newAccounts(1)[0], fullPools[0]}
		case "full":
			pools = fullPools
		case "full-one":
			pools = fullPools[:1]
		case "repeat":
			pools = newAccounts(2)
			ctx, cancel := rhpmitm.Ctx()
			_, err := rhp.RPCReplenishPools(ctx, l.T, rhp.RPCReplenishPoolsParams{Pools: pools, Target: target, Contract: c.cur}, l.HostNode.CM.TipState(), l.Signer)
			cancel()
			if err != nil {
				return nil, fmt.Errorf("%w: honest replenish pools failed: %v", rhpmitm.ErrHarness, err)
			}
			if err := l.Barrier(); err != nil {
				return nil, err
			}
			if err := c.resync(); err != nil {
				return nil, err
			}
		}
		prev := c.cur
		ex := &exchange{
			followUp: func(res any) *finding {
				return followUpOn("replenish-pools", res.(rhp.RPCReplenishPoolsResult).Revision)
			},
			call: func(ctx context.Context) (any, error) {
				return rhp.RPCReplenishPools(ctx, l.T, rhp.RPCReplenishPoolsParams{Pools: pools, Target: target, Contract: prev}, l.HostNode.CM.TipState(), l.Signer)
			},
			oracle: func(res any, _ *recorded) []finding {
				got := res.(rhp.RPCReplenishPoolsResult)
				return replenishOracle("replenish-pools", prev, len(pools), got.Revision, got.Deposits)
			},
			after: c.resync,
		}
		ex.forge = func(seen *recorded) (types.V2FileContract, bool) {
			h0 := seen.get(rhpmitm.HostToRenter, 0)
			if h0 == nil || h0.Err != nil {
				return types.V2FileContract{}, false
			}
			total := h0.Obj.(*rhp4.RPCReplenishAccountsResponse).TotalCost()
			if total.IsZero() {
				return types.V2FileContract{}, false
			}
			rev, _, err := rhp4.ReviseForReplenish(prev.Revision, total)
			return rev, err == nil
		}
		ex.gap = prev.Revision.Capacity > prev.Revision.Filesize
		ex.custom, ex.customOps = resignCustom(l, "replenish-pools", 1, func(string) (types.V2FileContract, bool) {
			fresh := 0
			for _, a := range pools {
				if a != fullPools[0] && a != fullPools[1] {
					fresh++
				}
			}
			if fresh == 0 {
				return types.V2FileContract{}, false
			}
			rev, _, err := rhp4.ReviseForReplenish(prev.Revision, target.Mul64(uint64(fresh)))
			return rev, err == nil
		})
		ex.custom = chainCustom(ex.custom, zeroDeposits)
		return ex, nil
	}
	f.scenarios = []*scenario{fund, replAcc, replPool}
	return nil
}

// ---- family: settings / latest revision / account balance ----
//
// These calls return what the host says without any means of authentication in
// the client function; the statement gives no success condition for them, so
// the monitor only demands that they return (no hang, no panic) and counts
// how often an altered response was accepted.

func buildPlainFamily(f *family) error {
	f.name = "plain"
	l, c, err := newLabWithContract(rhpmitm.Options{}, types.Siacoins(100), types.Siacoins(100))
	if err != nil {
		return err
	}
	f.lab = l
	if err := l.FundAccount(&c.cur, l.Account(), types.Siacoins(1)); err != nil {
		return err
	}
	cs2, err := l.FormConfirmed(1, types.Siacoins(50), types.Siacoins(70), 300)
	if err != nil {
		return err
	}
	none := func(any, *recorded) []finding { return nil }
	settings := &scenario{rpc: "settings", nHost: 1, variants: []string{"a", "b"}}
	settings.prepare = func(string) (*exchange, error) {
		return &exchange{unauth: true, oracle: none, call: func(ctx context.Context) (any, error) { return rhp.RPCSettings(ctx, l.T) }}, nil
	}
	latest := &scenario{rpc: "latest-revision", nHost: 1, variants: []string{"1", "2"}}
	latest.prepare = func(variant string) (*exchange, error) {
		id := c.cur.ID
		if variant == "2" {
			id = cs2[0].ID
		}
		return &exchange{unauth: true, call: func(ctx context.Context) (any, error) { return rhp.RPCLatestRevision(ctx, l.T, id) },
			oracle: func(res any, _ *recorded) []finding {
				if got := res.(rhp4.RPCLatestRevisionResponse); !hostSigValid(l, got.Contract) {
					// RPCLatestRevision has no key material to check with: the statement
					// ("every revision it returns carries a valid host signature") is
					// violated by construction of the API; reported under one stable
					// signature (known finding KF-C10-1)
					f.r.Count("latest_revision_returned_with_invalid_host_signature", 1)
					return []finding{{"latest-revision-unauthenticated", "RPCLatestRevision reported success with a revision whose host signature does not verify (the call verifies nothing: it has no host key)", nil}}
				}
				return nil
			}}, nil
	}
	other := rhp4.Account{1, 2, 3}
	balance := &scenario{rpc: "balance", nHost: 1, variants: []string{"own", "unknown"}}
	balance.prepare = func(variant string) (*exchange, error) {
		a := l.Account()
		if variant == "unknown" {
			a = other
		}
		return &exchange{unauth: true, oracle: none, call: func(ctx context.Context) (any, error) { return rhp.RPCAccountBalance(ctx, l.T, a) }}, nil
	}
	f.scenarios = []*scenario{settings, latest, balance}
	return nil
}

// ---- family: form ----

func formationParams(l *rhpmitm.Lab, k int) rhp4.RPCFormContractParams {
	return l.FormParams(types.Siacoins(uint32(20+k)), types.Siacoins(uint32(30+2*k)), 300)
}

// mineIfPooled confirms whatever the last exchange left in the pool so that
// change outputs become spendable again.
func mineIfPooled(l *rhpmitm.Lab) error {
	if len(l.HostNode.CM.V2PoolTransactions()) == 0 {
		return nil
	}
	return l.Mine(types.VoidAddress, 1)
}

func buildFormFamily(f *family) error {
	f.name = "form"
	l, err := rhpmitm.NewLab(rhpmitm.Options{HostBlocks: 20, RenterBlocks: 20})
	if err != nil {
		return err
	}
	f.lab = l
	sc := &scenario{rpc: "form", nHost: 2, variants: []string{"a", "b"}}
	sc.prepare = func(variant string) (*exchange, error) {
		k := 0
		if variant == "b" {
			k = 7
		}
		params := formationParams(l, k)
		cs := l.HostNode.CM.TipState()
		ex := &exchange{
			call: func(ctx context.Context) (any, error) {
				return rhp.RPCFormContract(ctx, l.T, l.RenterNode.CM, l.Signer, cs, l.Prices, l.HostKey.PublicKey(), l.HostAddr, params)
			},
			oracle: func(res any, _ *recorded) []finding {
				got := res.(rhp.RPCFormContractResult)
				want, _ := rhp4.NewContract(l.Prices, params, l.HostKey.PublicKey(), l.HostAddr)
				return checkRevision(l, "form", got.Contract.Revision, want, types.V2FileContract{})
			},
			after: func() error { return mineIfPooled(l) },
		}
		ex.custom = func(m *rhpmitm.Msg, mu mutation, _ *recorded) bool {
			alt, ok := strings.CutPrefix(mu.Op, "resign:")
			if !ok || m.Err != nil {
				return false
			}
			o, ok := m.Obj.(*rhp4.RPCFormContractThirdResponse)
			if !ok || len(o.TransactionSet) == 0 {
				return false
			}
			txn := &o.TransactionSet[len(o.TransactionSet)-1]
			if len(txn.FileContracts) != 1 {
				return false
			}
			fc := &txn.FileContracts[0]
			alterContract(fc, alt)
			fc.HostSignature = l.HostKey.SignHash(cs.ContractSigHash(*fc))
			return true
		}
		for _, a := range resignAlterations {
			ex.customOps = append(ex.customOps, mutation{Dir: "H", Msg: 1, Op: "resign:" + a})
		}
		return ex, nil
	}
	f.scenarios = []*scenario{sc}
	return nil
}

// ---- families: renew / refresh ----

// sparePool hands out confirmed contracts holding one sector each.
type sparePool struct {
	l      *rhpmitm.Lab
	root   types.Hash256
	spares []rhp.ContractRevision
	batch  int
}

func (p *sparePool) take() (rhp.ContractRevision, error) {
	if len(p.spares) == 0 {
		if err := p.l.RefreshPrices(); err != nil {
			return rhp.ContractRevision{}, err
		}
		cs, err := p.l.FormConfirmed(p.batch, types.Siacoins(100), types.Siacoins(200), 400)
		if err != nil {
			return rhp.ContractRevision{}, err
		}
		for i := range cs {
			// history: append 2 sectors, free the second - the contract to renew /
			// refresh has Capacity > Filesize
			if err := p.l.Append(&cs[i], []types.Hash256{p.root, p.root}); err != nil {
				return rhp.ContractRevision{}, err
			}
			if err := p.l.Barrier(); err != nil {
				return rhp.ContractRevision{}, err
			}
			st := &contractState{lab: p.l, cur: cs[i]}
			if err := honestFree(p.l, st, []uint64{1}); err != nil {
				return rhp.ContractRevision{}, err
			}
			cs[i] = st.cur
		}
		if err := p.l.Barrier(); err != nil {
			return rhp.ContractRevision{}, err
		}
		p.spares = cs
	}
	c := p.spares[len(p.spares)-1]
	p.spares = p.spares[:len(p.spares)-1]
	return c, nil
}

func (p *sparePool) giveBack(c rhp.ContractRevision) { p.spares = append(p.spares, c) }

func newSparePool(f *family, batch int) (*sparePool, error) {
	return newSparePoolOpt(f, batch, rhpmitm.Options{HostBlocks: 30, RenterBlocks: 30})
}

func newSparePoolOpt(f *family, batch int, opt rhpmitm.Options) (*sparePool, error) {
	l, c, err := newLabWithContract(opt, types.Siacoins(100), types.Siacoins(100))
	if err != nil {
		return nil, err
	}
	f.lab = l
	if err := l.FundAccount(&c.cur, l.Account(), types.Siacoins(1)); err != nil {
		return nil, err
	}
	data := make([]byte, 128)
	for i := range data {
		data[i] = byte(f.rng.Uint32())
	}
	root, err := l.WriteSector(data)
	if err != nil {
		return nil, err
	}
	return &sparePool{l: l, root: root, batch: batch}, l.Barrier()
}

// renewalKit abstracts over renew / refresh-full / refresh-partial.
type renewalKit struct {
	rpc string
	// local computes the renewal the renter builds locally
	local func(l *rhpmitm.Lab, existing rhp.ContractRevision, k int) types.V2FileContractRenewal
	call  func(ctx context.Context, l *rhpmitm.Lab, existing rhp.ContractRevision, k int) (rhp.ContractRevision, rhp.TransactionSet, error)
}

func renewParams(existing rhp.ContractRevision, k int) rhp4.RPCRenewContractParams {
	return rhp4.RPCRenewContractParams{ContractID: existing.ID, Allowance: types.Siacoins(uint32(150 + k)), Collateral: types.Siacoins(uint32(300 + k)), ProofHeight: existing.Revision.ProofHeight + 10 + uint64(k)}
}

func refreshParams(existing rhp.ContractRevision, k int) rhp4.RPCRefreshContractParams {
	return rhp4.RPCRefreshContractParams{ContractID: existing.ID, Allowance: types.Siacoins(uint32(10 + k)), Collateral: types.Siacoins(uint32(20 + k))}
}

func kitFor(rpc string) renewalKit {
	switch rpc {
	case "renew":
		return renewalKit{rpc: rpc,
			local: func(l *rhpmitm.Lab, ex rhp.ContractRevision, k int) types.V2FileContractRenewal {
				r, _ := rhp4.RenewContract(ex.Revision, l.Prices, l.HostAddr, renewParams(ex, k))
				return r
			},
			call: func(ctx context.Context, l *rhpmitm.Lab, ex rhp.ContractRevision, k int) (rhp.ContractRevision, rhp.TransactionSet, error) {
				res, err := rhp.RPCRenewContract(ctx, l.T, l.RentPool, l.Signer, l.RenterNode.CM.TipState(), l.Prices, l.HostAddr, ex.Revision, renewParams(ex, k))
				return res.Contract, res.RenewalSet, err
			}}
	case "refresh-full":
		return renewalKit{rpc: rpc,
			local: func(l *rhpmitm.Lab, ex rhp.ContractRevision, k int) types.V2FileContractRenewal {
				r, _ := rhp4.RefreshContractFullRollover(ex.Revision, l.Prices, l.HostAddr, refreshParams(ex, k))
				return r
			},
			call: func(ctx context.Context, l *rhpmitm.Lab, ex rhp.ContractRevision, k int) (rhp.ContractRevision, rhp.TransactionSet, error) {
				res, err := rhp.RPCRefreshContractFullRollover(ctx, l.T, l.RentPool, l.Signer, l.RenterNode.CM.TipState(), l.Prices, l.HostAddr, ex.Revision, refreshParams(ex, k))
				return res.Contract, res.RenewalSet, err
			}}
	default:
		return renewalKit{rpc: "refresh-partial",
			local: func(l *rhpmitm.Lab, ex rhp.ContractRevision, k int) types.V2FileContractRenewal {
				r, _ := rhp4.RefreshContractPartialRollover(ex.Revision, l.Prices, l.HostAddr, refreshParams(ex, k))
				return r
			},
			call: func(ctx context.Context, l *rhpmitm.Lab, ex rhp.ContractRevision, k int) (rhp.ContractRevision, rhp.TransactionSet, error) {
				res, err := rhp.RPCRefreshContractPartialRollover(ctx, l.T, l.RentPool, l.Signer, l.RenterNode.CM.TipState(), l.Prices, l.HostAddr, ex.Revision, refreshParams(ex, k))
				return res.Contract, res.RenewalSet, err
			}}
	}
}

// renewed reports whether the host recorded a renewal of id since the events
// were last reset.
func renewed(l *rhpmitm.Lab, id types.FileContractID) bool {
	for _, ev := range l.Contractor.Events() {
		if ev.Op == "renew" && ev.Err == nil && ev.ID == id.V2RenewalID() {
			return true
		}
	}
	return false
}

// renewalThird returns the renewal inside the final host message.
func renewalThird(m *rhpmitm.Msg) *types.V2FileContractRenewal {
	var set []types.V2Transaction
	switch o := m.Obj.(type) {
	case *rhp4.RPCRenewContractThirdResponse:
		set = o.TransactionSet
	case *rhp4.RPCRefreshContractThirdResponse:
		set = o.TransactionSet
	}
	if len(set) == 0 {
		return nil
	}
	txn := set[len(set)-1]
	if len(txn.FileContractResolutions) != 1 {
		return nil
	}
	r, _ := txn.FileContractResolutions[0].Resolution.(*types.V2FileContractRenewal)
	return r
}

func buildRenewalFamily(f *family, rpc string) error {
	f.name = rpc
	pool, err := newSparePool(f, 8)
	if err != nil {
		return err
	}
	l := pool.l
	kit := kitFor(rpc)
	sc := &scenario{rpc: rpc, nHost: 2, variants: []string{"a", "b"}}
	sc.prepare = func(variant string) (*exchange, error) {
		k := 0
		if variant == "b" {
			k = 5
		}
		existing, err := pool.take()
		if err != nil {
			return nil, err
		}
		l.Contractor.ResetEvents()
		local := kit.local(l, existing, k)
		gap := existing.Revision.Capacity > existing.Revision.Filesize
		ex := &exchange{
			call: func(ctx context.Context) (any, error) {
				c, _, err := kit.call(ctx, l, existing, k)
				return c, err
			},
			oracle: func(res any, _ *recorded) []finding {
				got := res.(rhp.ContractRevision)
				var fs []finding
				if got.ID != existing.ID.V2RenewalID() {
					fs = append(fs, finding{rpc + ":returned-id", "returned contract id is not the renewal id", got.ID})
				}
				if !hostSigValid(l, got.Revision) {
					fs = append(fs, finding{rpc + ":returned-contract-host-sig-invalid", "the returned contract's host signature does not verify over the returned object", map[string]any{"returned": got.Revision, "locally_built": local.NewContract}})
				} else if sansSigs(got.Revision) != sansSigs(local.NewContract) {
					fs = append(fs, finding{rpc + ":returned-contract-not-locally-built", "the returned contract differs from the locally computable renewal of the previous revision", map[string]any{"returned": got.Revision, "locally_built": local.NewContract}})
				}
				return fs
			},
			gap: gap,
			after: func() error {
				if !renewed(l, existing.ID) {
					pool.giveBack(existing)
				}
				return mineIfPooled(l)
			},
		}
		ex.custom = func(m *rhpmitm.Msg, mu mutation, _ *recorded) bool {
			alt, ok := strings.CutPrefix(mu.Op, "resign:")
			if !ok || m.Err != nil {
				return false
			}
			r := renewalThird(m)
			if r == nil {
				return false
			}
			cs := l.HostNode.CM.TipState()
			alterContract(&r.NewContract, alt)
			r.NewContract.HostSignature = l.HostKey.SignHash(cs.ContractSigHash(r.NewContract))
			r.HostSignature = l.HostKey.SignHash(cs.RenewalSigHash(*r))
			return true
		}
		for _, a := range resignAlterations {
			ex.customOps = append(ex.customOps, mutation{Dir: "H", Msg: 1, Op: "resign:" + a})
		}
		return ex, nil
	}
	f.scenarios = []*scenario{sc}
	return nil
}

// sortedKeys is a small helper for deterministic map iteration.
func sortedKeys[V any](m map[string]V) []string {
	ks := make([]string, 0, len(m))
	for k := range m {
		ks = append(ks, k)
	}
	sort.Strings(ks)
	return ks
}
