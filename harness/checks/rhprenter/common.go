// Package rhprenter holds the renter-side RHP4 monitors: C10 (a successful
// renter RPC is cryptographically bound, whatever the host does) and C16
// (formation/renewal yields a confirmable contract or leaves no trace).
package rhprenter

import (
	"bytes"
	"context"
	"errors"
	"fmt"
	"io"
	"reflect"
	"runtime/debug"
	"strings"
	"sync"
	"time"

	rhp4 "go.sia.tech/core/rhp/v4"

	"verif/harness/lab/rhpmitm"
	"verif/harness/mon"
	"verif/harness/vcli"
)

func init() {
	vcli.Register("C10", "fault_enumeration", runC10)
	vcli.Register("C16", "fault_enumeration", runC16)
}

// callDeadline is the context deadline of a monitored client call, hangSlack
// the additional time after which a call that still has not returned is a
// hang. Both are far above the normal duration of a call (a few ms).
const (
	callDeadline   = 60 * time.Second
	silentDeadline = 400 * time.Millisecond
	hangSlack      = 180 * time.Second
)

// A mutation is one fault applied to one wire message.
type mutation struct {
	Dir  string `json:"dir"` // "H" host->renter, "R" renter->host
	Msg  int    `json:"msg"`
	Path string `json:"path,omitempty"`
	Kind string `json:"kind,omitempty"`
	Op   string `json:"op"`
}

func (m mutation) String() string {
	if m.Path == "" && m.Kind == "" {
		return fmt.Sprintf("%s%d:%s", m.Dir, m.Msg, m.Op)
	}
	return fmt.Sprintf("%s%d:%s:%s", m.Dir, m.Msg, m.Path, m.Op)
}

// recorded holds the messages of one honest exchange, by direction and index.
type recorded struct {
	mu   sync.Mutex
	msgs map[string]*rhpmitm.Msg
}

func newRecorded() *recorded { return &recorded{msgs: make(map[string]*rhpmitm.Msg)} }

func key(d rhpmitm.Dir, i int) string { return fmt.Sprintf("%s%d", d, i) }

func (r *recorded) put(m *rhpmitm.Msg) {
	cp := *m
	cp.Raw = append([]byte(nil), m.Raw...)
	r.mu.Lock()
	r.msgs[key(m.Dir, m.Index)] = &cp
	r.mu.Unlock()
}

func (r *recorded) get(d rhpmitm.Dir, i int) *rhpmitm.Msg {
	if r == nil {
		return nil
	}
	r.mu.Lock()
	defer r.mu.Unlock()
	return r.msgs[key(d, i)]
}

// wait returns the message once it was recorded, polling up to d (a host that
// invents its final answer may have to wait for the renter's message it answers).
func (r *recorded) wait(dir rhpmitm.Dir, i int, d time.Duration, gone <-chan struct{}) *rhpmitm.Msg {
	deadline := time.Now().Add(d)
	for {
		if m := r.get(dir, i); m != nil || time.Now().After(deadline) {
			return m
		}
		select {
		case <-gone:
			return r.get(dir, i)
		case <-time.After(200 * time.Microsecond):
		}
	}
}

// recordHook records every message and forwards it untouched.
func recordHook(rec *recorded) rhpmitm.Hook {
	return func(m *rhpmitm.Msg) rhpmitm.Action {
		if m.Synthetic {
			return rhpmitm.Cut
		}
		rec.put(m)
		return rhpmitm.Forward
	}
}

// applied reports what a fault hook did.
type applied struct {
	mu       sync.Mutex
	Hit      int  // number of mutations whose message was reached
	Changed  int  // ... and whose wire image differs from the original
	Miss     int  // site not present in this exchange's message
	Unencod  bool // mutated object could not be encoded (treated as a cut)
	seen     *recorded
	extraFun func(m *rhpmitm.Msg) // optional observer (sees the possibly mutated message)
}

func dirOf(s string) rhpmitm.Dir {
	if s == "R" {
		return rhpmitm.RenterToHost
	}
	return rhpmitm.HostToRenter
}

// customMut lets a scenario implement operators the generic walker does not
// know (re-signing with the host key, ...). It returns false if not applicable.
type customMut func(m *rhpmitm.Msg, mu mutation, seen *recorded) bool

// faultHook builds the hook that applies muts. donor provides the messages of
// another exchange for "swap"/"replace-donor". The delivered (post-mutation)
// messages are recorded in ap.seen.
func faultHook(muts []mutation, donor *recorded, custom customMut, ap *applied) rhpmitm.Hook {
	ap.seen = newRecorded()
	return func(m *rhpmitm.Msg) rhpmitm.Action {
		act := rhpmitm.Forward
		var orig []byte
		touched := false
		// object-level mutations first, wire-level ones last, so that the wire
		// override carries every object-level change
		ordered := make([]mutation, 0, len(muts))
		for _, mu := range muts {
			if !isWireOp(mu.Op) {
				ordered = append(ordered, mu)
			}
		}
		for _, mu := range muts {
			if isWireOp(mu.Op) {
				ordered = append(ordered, mu)
			}
		}
		filled := false
		for _, mu := range ordered {
			if dirOf(mu.Dir) != m.Dir || mu.Msg != m.Index {
				continue
			}
			if m.Synthetic && !strings.HasPrefix(mu.Op, "lenient") && mu.Op != "forge-sig" {
				continue // only a host that invents its answer can fill a message the server never sent
			}
			if !touched {
				orig, _ = m.Encode()
				orig = append(append([]byte(nil), orig...), m.Raw...)
				touched = true
			}
			ap.mu.Lock()
			ap.Hit++
			ap.mu.Unlock()
			a, ok := applyMutation(m, mu, donor, custom, ap.seen)
			if !ok {
				ap.mu.Lock()
				ap.Miss++
				ap.mu.Unlock()
				continue
			}
			filled = true
			if a != rhpmitm.Forward {
				act = a
			}
		}
		if m.Synthetic && !filled {
			return rhpmitm.Cut
		}
		if touched {
			changed := act != rhpmitm.Forward
			if !changed {
				wire := m.Wire
				if wire == nil {
					buf, err := m.Encode()
					if err != nil {
						ap.mu.Lock()
						ap.Unencod = true
						ap.mu.Unlock()
						changed = true
					}
					wire = append(append([]byte(nil), buf...), m.Raw...)
				}
				if string(wire) != string(orig) {
					changed = true
				}
			}
			if changed {
				ap.mu.Lock()
				ap.Changed++
				ap.mu.Unlock()
			}
		}
		if act == rhpmitm.Forward || act == rhpmitm.ForwardThenCut {
			if m.Wire != nil {
				// what the receiver can decode from the overridden wire image
				if dm := decodeWire(m); dm != nil {
					ap.seen.put(dm)
				}
			} else {
				ap.seen.put(m)
			}
		}
		if ap.extraFun != nil {
			ap.extraFun(m)
		}
		return act
	}
}

func isWireOp(op string) bool { return op == "trunc-wire" || op == "extend-wire" }

// decodeWire decodes a wire override the way the receiver would; nil if it
// does not decode.
func decodeWire(m *rhpmitm.Msg) *rhpmitm.Msg {
	if m.Obj == nil {
		return nil
	}
	obj, ok := reflect.New(reflect.TypeOf(m.Obj).Elem()).Interface().(rhp4.Object)
	if !ok {
		return nil
	}
	rd := bytes.NewReader(m.Wire)
	cp := *m
	cp.Wire, cp.Err, cp.Obj = nil, nil, obj
	var err error
	if m.Dir == rhpmitm.RenterToHost && m.Index == 0 {
		if _, err = rhp4.ReadID(rd); err == nil {
			err = rhp4.ReadRequest(rd, obj)
		}
	} else {
		err = rhp4.ReadResponse(rd, obj)
	}
	if err != nil {
		var re *rhp4.RPCError
		if !errors.As(err, &re) {
			return nil
		}
		cp.Err = re
	}
	cp.Raw, _ = io.ReadAll(rd)
	return &cp
}

// applyMutation applies one mutation to a message.
func applyMutation(m *rhpmitm.Msg, mu mutation, donor *recorded, custom customMut, seen *recorded) (rhpmitm.Action, bool) {
	if mu.Path != "" || mu.Kind != "" {
		if m.Err != nil || m.Obj == nil {
			return rhpmitm.Forward, false
		}
		var d any
		if dm := donor.get(m.Dir, m.Index); dm != nil && dm.Err == nil {
			d = dm.Obj
		}
		return rhpmitm.Forward, rhpmitm.Apply(m.Obj, mu.Path, mu.Kind, mu.Op, d)
	}
	switch mu.Op {
	case "rpcerror":
		e := rhp4.RPCError{Code: rhp4.ErrorCodeHostError, Description: "injected by the man-in-the-middle"}
		m.Err = &e
		m.Raw = nil
		return rhpmitm.Forward, true
	case "cut":
		return rhpmitm.Cut, true
	case "cut-after":
		return rhpmitm.ForwardThenCut, true
	case "silent":
		return rhpmitm.Silent, true
	case "trunc-wire":
		buf, err := m.Encode()
		if err != nil {
			return rhpmitm.Forward, false
		}
		buf = append(buf, m.Raw...)
		m.Wire = append([]byte(nil), buf[:len(buf)/2]...)
		return rhpmitm.ForwardThenCut, true
	case "extend-wire":
		buf, err := m.Encode()
		if err != nil {
			return rhpmitm.Forward, false
		}
		buf = append(buf, m.Raw...)
		m.Wire = append(append([]byte(nil), buf...), 0, 1, 2, 3, 4, 5, 6, 7)
		return rhpmitm.Forward, true
	case "replace-donor":
		dm := donor.get(m.Dir, m.Index)
		if dm == nil {
			return rhpmitm.Forward, false
		}
		m.Obj, m.Err = dm.Obj, dm.Err
		m.Raw = append([]byte(nil), dm.Raw...)
		return rhpmitm.Forward, true
	case "raw-flip0":
		if len(m.Raw) == 0 {
			return rhpmitm.Forward, false
		}
		m.Raw[0] ^= 1
		return rhpmitm.Forward, true
	case "raw-flipN":
		if len(m.Raw) == 0 {
			return rhpmitm.Forward, false
		}
		m.Raw[len(m.Raw)-1] ^= 0x80
		return rhpmitm.Forward, true
	case "raw-flipmid":
		if len(m.Raw) == 0 {
			return rhpmitm.Forward, false
		}
		m.Raw[len(m.Raw)/2] ^= 0x10
		return rhpmitm.Forward, true
	case "raw-trunc":
		if len(m.Raw) == 0 {
			return rhpmitm.Forward, false
		}
		m.Raw = m.Raw[:len(m.Raw)-1]
		return rhpmitm.ForwardThenCut, true
	case "raw-trunc-leaf":
		if len(m.Raw) < 64 {
			return rhpmitm.Forward, false
		}
		m.Raw = m.Raw[:len(m.Raw)-64]
		return rhpmitm.ForwardThenCut, true
	case "raw-extend":
		m.Raw = append(m.Raw, make([]byte, 64)...)
		return rhpmitm.Forward, true
	case "raw-zero":
		if len(m.Raw) == 0 {
			return rhpmitm.Forward, false
		}
		clear(m.Raw)
		return rhpmitm.Forward, true
	}
	if custom != nil && custom(m, mu, seen) {
		return rhpmitm.Forward, true
	}
	return rhpmitm.Forward, false
}

// outcome of a monitored client call.
type outcome struct {
	Res   any
	Err   error
	Panic any
	Stack string // where the client panicked
	Hung  bool
	// Unblocked: the call only came back after the lab killed its stream
	Unblocked bool
	Duration  time.Duration
}

// monitoredCall runs fn with a context deadline; a call that has not returned
// hangSlack after its deadline is reported as hung (and abandoned).
func monitoredCall(deadline time.Duration, fn func(ctx context.Context) (any, error)) outcome {
	return monitoredCallCtx(deadline, false, nil, fn)
}

// monitoredCallCtx: with noDeadline the call gets context.Background() (the
// caller gave no deadline); if it has not returned after deadline, unblock is
// called (it must make the call return) and the outcome is marked Hung.
func monitoredCallCtx(deadline time.Duration, noDeadline bool, unblock func(), fn func(ctx context.Context) (any, error)) outcome {
	ctx, cancel := context.WithTimeout(context.Background(), deadline)
	if noDeadline {
		cancel()
		ctx, cancel = context.WithCancel(context.Background())
	}
	defer cancel()
	done := make(chan outcome, 1)
	start := time.Now()
	go func() {
		var o outcome
		func() {
			defer func() {
				if p := recover(); p != nil {
					o.Panic = p
					o.Stack = trimStack(debug.Stack())
				}
			}()
			o.Res, o.Err = fn(ctx)
		}()
		o.Duration = time.Since(start)
		done <- o
	}()
	if noDeadline {
		select {
		case o := <-done:
			return o
		case <-time.After(deadline):
			if unblock != nil {
				unblock()
			}
			select {
			case o := <-done:
				o.Unblocked = true
				return o
			case <-time.After(hangSlack):
				return outcome{Hung: true, Duration: time.Since(start)}
			}
		}
	}
	select {
	case o := <-done:
		return o
	case <-time.After(deadline + hangSlack):
		return outcome{Hung: true, Duration: time.Since(start)}
	}
}

// trimStack keeps the frames between the panic and the monitored call.
func trimStack(b []byte) string {
	lines := strings.Split(string(b), "\n")
	var out []string
	for i := 0; i+1 < len(lines) && len(out) < 24; i++ {
		if strings.HasPrefix(lines[i], "go.sia.tech/") || strings.HasPrefix(lines[i], "panic(") {
			out = append(out, lines[i], strings.TrimSpace(lines[i+1]))
		}
	}
	return strings.Join(out, "\n")
}

// clientRejection reports whether err is a verdict of the client itself (a
// verification it performs on the host's answer failed, or it refused its
// own parameters), as opposed to a host error or a transport failure.
func clientRejection(err error) bool {
	if err == nil {
		return false
	}
	var re *rhp4.RPCError
	if errors.As(err, &re) && re.Code == rhp4.ErrorCodeClientError {
		return true
	}
	msg := err.Error()
	return strings.Contains(msg, "failed to validate host signature") || strings.Contains(msg, "failed to verify") || strings.Contains(msg, "invalid proof")
}

func isDeadline(err error) bool {
	return errors.Is(err, context.DeadlineExceeded)
}

// harnessFail marks the run inconclusive because the lab itself failed.
func harnessFail(r *mon.Run, where string, err error) {
	r.Inconclusive(fmt.Sprintf("harness: %s: %v", where, err))
}
