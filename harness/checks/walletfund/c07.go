// Package walletfund is the C07 monitor: wallet funding never double-allocates,
// conserves value and yields valid spends. It drives a real
// wallet.SingleAddressWallet (lab/walletlab) with sequential and concurrent
// workloads, records every call at the caller boundary and decides the
// recorded histories post hoc (eligibility, porcupine reservation model,
// conservation, acceptance, agreement at quiescent points, expiry).
package walletfund

import (
	"encoding/json"
	"fmt"
	"math/rand/v2"
	"os"
	"sort"
	"strings"
	"sync"
	"time"

	"verif/harness/lab/walletlab"
	"verif/harness/mon"
	"verif/harness/vcli"
)

func init() { vcli.Register("C07", "exploration", runC07) }

type caseRec struct {
	Config  walletlab.Config   `json:"config"`
	Error   string             `json:"harness_error,omitempty"`
	History *walletlab.History `json:"history"`
}

var (
	defragThresholds = []int{0, 1, 3, 30}
	maxInputs        = []int{1, 2, 30}
	maxDefrag        = []int{0, 1, 10}
	regimes          = []string{walletlab.RegimeV2, walletlab.RegimeMix, walletlab.RegimeV1}
)

const porcupineTimeout = 120 * time.Second

type runner struct {
	r       *mon.Run
	mu      sync.Mutex
	maxConc int
	maxLag  int
}

func rngFor(r *mon.Run, stream uint64) walletlab.RNGFor {
	return func(sub uint64) *rand.Rand { return r.RNG(stream<<8 | sub) }
}

// configFor expands history number i (stream) into its configuration.
func configFor(r *mon.Run, kind string, stream uint64) walletlab.Config {
	rng := r.RNG(stream<<8 | 0xff)
	j := int(stream % 108)
	c := (j / 3) % 36
	cfg := walletlab.Config{
		Kind: kind, Stream: stream, Regime: regimes[j%3],
		Opts: walletlab.Opts{
			DefragThreshold:    defragThresholds[c%4],
			MaxInputsForDefrag: maxInputs[(c/4)%3],
			MaxDefragUTXOs:     maxDefrag[(c/12)%3],
		},
		UTXOs: []int{1, 3, 8, 20, 45}[rng.IntN(5)],
	}
	if rng.IntN(4) == 0 {
		cfg.Opts.DebounceMS = 1
	}
	switch kind {
	case walletlab.KindConcurrent:
		cfg.Workers = []int{2, 3, 4, 6, 8, 12, 16}[rng.IntN(7)]
		cfg.Phases = 3
		cfg.OpsEach = 50 / cfg.Workers
		if cfg.OpsEach < 3 {
			cfg.OpsEach = 3
		}
	case walletlab.KindSequential:
		cfg.Workers, cfg.Phases, cfg.OpsEach = 1, 4, 10
	case walletlab.KindLagging:
		// v2 and mix (where proofs matter) five times out of six
		cfg.Workers, cfg.Phases, cfg.OpsEach = 1, 3, 10
		cfg.Regime = regimes[stream%2]
		if stream%6 == 5 {
			cfg.Regime = walletlab.RegimeV1
		}
		cfg.UTXOs = []int{3, 8, 20, 45}[rng.IntN(4)]
		if stream%2 == 0 {
			// the package defaults (under which SplitUTXO admits n up to 30)
			cfg.Opts.DefragThreshold, cfg.Opts.MaxInputsForDefrag, cfg.Opts.MaxDefragUTXOs = 30, 30, 10
		}
	case walletlab.KindRestartDefect:
		cfg.Workers, cfg.Regime = 1, regimes[stream%2]                                             // v2 or mix: the pool must take v2 transactions
		cfg.Opts = walletlab.Opts{DefragThreshold: 30, MaxInputsForDefrag: 30, MaxDefragUTXOs: 10} // the package defaults
		cfg.UTXOs = []int{3, 8, 20}[rng.IntN(3)]
	case walletlab.KindExpiryShort:
		cfg.Workers = 1
		cfg.Opts.ReservationMS = 30
		cfg.UTXOs = []int{3, 8, 20}[rng.IntN(3)]
	case walletlab.KindExpiryLong:
		cfg.Workers = 1
		cfg.UTXOs = []int{3, 8, 20}[rng.IntN(3)]
	case walletlab.KindFundAll:
		cfg.Workers = 1
		cfg.Opts = walletlab.Opts{DefragThreshold: []int{0, 1, 3}[stream%3], MaxInputsForDefrag: 30, MaxDefragUTXOs: 10}
		cfg.UTXOs = 1 + int(stream%3) + cfg.Opts.DefragThreshold
	case walletlab.KindSplitV1Pool:
		cfg.Workers, cfg.Regime = 1, []string{walletlab.RegimeV1, walletlab.RegimeMix}[stream%2]
		cfg.Opts = walletlab.Opts{DefragThreshold: 30, MaxInputsForDefrag: 30, MaxDefragUTXOs: 10}
		cfg.UTXOs = 3
	case walletlab.KindCrossVersion:
		cfg.Workers, cfg.Regime = 1, walletlab.RegimeMix
		cfg.Opts = walletlab.Opts{DefragThreshold: 30, MaxInputsForDefrag: 30, MaxDefragUTXOs: 10}
		cfg.UTXOs = 3
	}
	return cfg
}

// one runs and decides one history; it returns the findings' signatures.
func (rn *runner) one(cfg walletlab.Config) []string {
	r := rn.r
	h, err := walletlab.Run(cfg, rngFor(r, cfg.Stream))
	r.Eval()
	cs := caseRec{Config: cfg, History: h}
	if err != nil {
		cs.Error = err.Error()
	}
	if h == nil {
		r.Inconclusive(fmt.Sprintf("history %s/%d could not be started: %v", cfg.Kind, cfg.Stream, err))
		return nil
	}
	findings, st := walletlab.Analyze(h, porcupineTimeout)
	rn.count(cfg, h, st)
	var sigs []string
	for _, f := range findings {
		if strings.HasPrefix(f.Sig, "harness:") {
			r.Inconclusive(fmt.Sprintf("history %s/%d: %s", cfg.Kind, cfg.Stream, f.What))
			continue
		}
		sigs = append(sigs, f.Sig)
		r.Count("finding:"+f.Sig+"@"+cfg.Kind, 1)
		r.Violation(f.Sig, f.What, cs, f.Detail)
	}
	if st.PorcupineUnknown {
		r.Undecided(fmt.Sprintf("history %s/%d: porcupine did not finish within %v", cfg.Kind, cfg.Stream, porcupineTimeout))
	}
	if err != nil && len(sigs) == 0 {
		r.Inconclusive(fmt.Sprintf("history %s/%d: harness could not drive the workload: %v", cfg.Kind, cfg.Stream, err))
	}
	return sigs
}

func (rn *runner) count(cfg walletlab.Config, h *walletlab.History, st walletlab.Stats) {
	r := rn.r
	r.Count("histories:"+cfg.Kind, 1)
	r.Count("histories_regime:"+cfg.Regime, 1)
	r.SetAdd("option_configurations", cfg.Opts.String())
	r.SetAdd("regime_x_options", cfg.Regime+"/"+cfg.Opts.String())
	r.Count("events_recorded", len(h.Events))
	for k, v := range st.Ops {
		r.Count("op:"+k, v)
	}
	for k, v := range st.States {
		r.Count("barrier_state_with:"+k, v)
	}
	r.Count("selections_checked", st.Selections)
	r.Count("selected_inputs_checked", st.InputsChecked)
	r.Count("selected_unconfirmed_inputs", st.UnconfirmedPicked)
	r.Count("selections_with_defrag_extra_inputs", st.DefragExtra)
	r.Count("selections_with_duplicated_input", st.DupSelections)
	r.Count("conservation_equations_checked", st.ConservationEq)
	r.Count("failed_fund_calls", st.FailedCalls)
	r.Count("porcupine_partitions", st.Partitions)
	r.Count("porcupine_partitions_contended", st.ContendedParts)
	r.Count("porcupine_operations", st.PorcupineOps)
	r.Count("barriers", st.Barriers)
	r.Count("barriers_after_restart", st.BarriersAfterRst)
	r.Count("barrier_probes", st.Probes)
	r.Count("outstanding_txns_checked_at_barriers", st.DirectDisjoint)
	r.Count("restarts", st.Restarts)
	r.Count("blocks_mined", st.Blocks)
	r.Count("pool_submissions", st.Submits)
	r.Count("pool_submissions_accepted", st.Accepted)
	r.Count("pool_submissions_undecided_block_overlap", st.Undecided)
	r.Count("known_defect_barriers", st.KnownDefectHits)
	r.Count("lag:deliveries_of_pending_blocks", st.Deliveries)
	r.Count("lag:selecting_calls_while_blocks_pending", st.AcquiresLagging)
	for k, v := range st.FundsByLag {
		r.Count("lag:"+k, v)
	}
	r.Count("lag:input_proofs_verified_against_returned_basis", st.ProofsVerified)
	r.Count("lag:calls_whose_proofs_are_stale_at_manager_tip", st.StaleAtTip)
	r.Count("lag:submissions_of_txns_funded_while_lagging", st.SubmitsLagging)
	r.Count("lag:submissions_of_txns_funded_while_lagging_accepted", st.AcceptedLagging)
	r.Count("split_errors_after_picking_pooled_v1_output", st.SplitCrossVersion)
	for k, v := range st.SplitExplained {
		r.Count("lag:split_refusal_explained:"+k, v)
	}
	r.Count("lag:refusals_explained_by_input_spent_in_pending_block", st.RefusedPendingSpend)
	rn.mu.Lock()
	if st.MaxLag > rn.maxLag {
		rn.maxLag = st.MaxLag
	}
	rn.mu.Unlock()
	if cfg.Kind == walletlab.KindConcurrent {
		sig, conc, overlaps := h.InterleavingSig()
		r.SetAdd("interleaving_signatures", sig)
		r.Count("overlapping_calls", overlaps)
		rn.mu.Lock()
		if conc > rn.maxConc {
			rn.maxConc = conc
		}
		rn.mu.Unlock()
		if overlaps > 0 && st.Selections > 1 {
			r.Distinct(sig)
		}
	} else {
		r.Distinct(fmt.Sprintf("%s/%d", cfg.Kind, cfg.Stream))
	}
	if cfg.Kind == walletlab.KindConcurrent && cfg.Stream%97 == 0 || cfg.Kind == walletlab.KindRestartDefect && cfg.Stream%5 == 0 {
		ops := map[string]int{}
		for k, v := range st.Ops {
			ops[k] = v
		}
		r.Sample(map[string]any{"config": cfg, "events": len(h.Events), "ops": ops, "selections": st.Selections, "porcupine_partitions": st.Partitions, "barriers": st.Barriers})
	}
}

func parallel(n, width int, fn func(i int)) {
	var wg sync.WaitGroup
	sem := make(chan struct{}, width)
	for i := 0; i < n; i++ {
		wg.Add(1)
		sem <- struct{}{}
		go func(i int) {
			defer wg.Done()
			defer func() { <-sem }()
			fn(i)
		}(i)
	}
	wg.Wait()
}

func runC07(r *mon.Run, replay string) {
	r.Rule("Each case is one recorded history of a real SingleAddressWallet on a real chain.Manager (MemDB) from genesis: " +
		"a matured block reward fanned out into 1..45 outputs (1 H .. 40 KS), then random FundTransaction / FundV2Transaction (amounts 0, 1 H, typical, fractions of / exactly / one hasting above Balance().Spendable; useUnconfirmed 1/3), " +
		"second funding rounds on the same transaction, Redistribute, SplitUTXO, ReleaseInputs, Sign*, pool submissions (AddPoolTransactions, AddV2PoolTransactions, BroadcastV2TransactionSet), Balance, SpendableOutputs, " +
		"issued by 2..16 goroutines (own PRNG each) while another goroutine mines blocks (1/3 paying the wallet: immature outputs), with a barrier after each of 3 phases (agreement + probes), restarts and extra blocks in between; " +
		"every 5th history is sequential with a barrier after every single operation. Regimes v1 / mix / v2 x 36 option settings (defrag threshold 0/1/3/30, max inputs for defrag 1/2/30, max defrag utxos 0/1/10). " +
		"LAGGING WALLET: the harness decides when chain updates reach the wallet store. In concurrent histories 1/3 of the blocks stay pending (connected to the manager, not yet applied through UpdateChainState) and are delivered later by the miner goroutine; " +
		"lagging-wallet histories (sequential) first pool wallet transactions (one with as many outputs as the accumulator has leaves, so that the confirming block doubles it and every older proof changes), connect 1..8 pending blocks, " +
		"issue FundTransaction / FundV2Transaction / Redistribute / SplitUTXO + sign + submit with the RETURNED basis while they are pending, deliver PRNG-sized portions with more calls in between, and run the barrier oracles after catching up. " +
		"For every successful v2 funding call each input's (leaf index, proof) is verified against the element accumulator of the returned basis; a refusal by the pool is only excused when a block pending at the time of the selecting call had spent an input. " +
		"Dedicated sequential scenarios: broadcast+restart, reservation expiry 30 ms (with >= 1.2 s sleeps) and 3 h (no sleeps). " +
		"A concurrent history is non-trivial when calls overlapped and more than one selection was made; distinct = distinct interleaving signature (hash of the order of call/return events).")
	r.Assume("core (consensus, types) and chain.Manager's pool are the trusted base here (C05/C14 monitor the pool); the model of what is on chain comes from core's ApplyUpdate diffs, not from the wallet store")
	r.Assume("no reorgs in this workload: a transaction that left the pool does not come back, except through the wallet's own re-adding of broadcast sets at start-up, which the restart event snapshots")
	r.Assume("maturity uses the wallet's convention (tip height >= maturity height), which is one block more conservative than consensus")
	r.Assume("eligibility (unspent, mature) is judged by what the wallet store has been told: a block counts from the event that delivered it to the store; the pool is judged by the manager's state")
	r.Assume("a SplitUTXO call that returns an error is held against the wallet only when the chain manager refused its transaction and the model has no explanation (picked output spent by a pending block; unconfirmed output picked while lagging, which Manager.V2TransactionSet cannot rebase; pooled v1 parent)")
	r.Assume("wall clock: reservation periods are 3 h (never expire during a run) or 30 ms with every later observation made after an explicit sleep of 1.2 s")

	rn := &runner{r: r}
	if replay != "" {
		rn.replay(replay)
		return
	}

	type job struct {
		kind   string
		stream uint64
	}
	var jobs []job
	n := r.Pick(200, 4000)
	for i := 0; i < n; i++ {
		kind := walletlab.KindConcurrent
		if i%5 == 4 {
			kind = walletlab.KindSequential
		}
		jobs = append(jobs, job{kind, uint64(i)})
	}
	for i := 0; i < r.Pick(60, 1200); i++ {
		jobs = append(jobs, job{walletlab.KindLagging, uint64(700000 + i)})
	}
	for i := 0; i < r.Pick(6, 24); i++ {
		jobs = append(jobs, job{walletlab.KindRestartDefect, uint64(100000 + i)})
	}
	for i := 0; i < r.Pick(6, 18); i++ {
		jobs = append(jobs, job{walletlab.KindExpiryShort, uint64(200000 + i)})
		jobs = append(jobs, job{walletlab.KindExpiryLong, uint64(300000 + i)})
	}
	for i := 0; i < r.Pick(6, 18); i++ {
		jobs = append(jobs, job{walletlab.KindFundAll, uint64(400000 + i)})
		jobs = append(jobs, job{walletlab.KindSplitV1Pool, uint64(500000 + i)})
		jobs = append(jobs, job{walletlab.KindCrossVersion, uint64(600000 + i)})
	}
	// the sleeping scenarios first so that their sleeps overlap other work
	sort.SliceStable(jobs, func(a, b int) bool {
		return (jobs[a].kind == walletlab.KindExpiryShort) && (jobs[b].kind != walletlab.KindExpiryShort)
	})
	parallel(len(jobs), 6, func(i int) {
		rn.one(configFor(r, jobs[i].kind, jobs[i].stream))
	})
	r.Count("max_concurrent_calls", rn.maxConc)
	r.Count("lag:max_pending_blocks_at_a_selecting_call", rn.maxLag)

	// a run that observed too little must not pass
	r.Floor("selections_checked", int64(r.Pick(2000, 40000)))
	r.Floor("porcupine_partitions_contended", int64(r.Pick(200, 4000)))
	r.Floor("overlapping_calls", int64(r.Pick(1000, 20000)))
	r.Floor("max_concurrent_calls", 4)
	r.Floor("barriers", int64(r.Pick(1000, 20000)))
	r.Floor("barriers_after_restart", int64(r.Pick(50, 1000)))
	r.Floor("pool_submissions_accepted", int64(r.Pick(300, 6000)))
	r.Floor("failed_fund_calls", int64(r.Pick(200, 4000)))
	r.Floor("selected_unconfirmed_inputs", 20)
	// lagging-wallet dimension: every kind of funding call while blocks are
	// pending, proofs that really differ between the two indices, submissions
	r.Floor("lag:selecting_calls_while_blocks_pending", int64(r.Pick(300, 6000)))
	r.Floor("lag:calls_whose_proofs_are_stale_at_manager_tip", int64(r.Pick(100, 2000)))
	r.Floor("lag:submissions_of_txns_funded_while_lagging_accepted", int64(r.Pick(100, 2000)))
	r.Floor("lag:max_pending_blocks_at_a_selecting_call", 6)
	r.Floor("lag:deliveries_of_pending_blocks", int64(r.Pick(100, 2000)))
	for _, op := range []string{walletlab.OpFund1, walletlab.OpFund2, walletlab.OpRedist} {
		r.Floor("lag:"+op+":lag1", 5)
		r.Floor("lag:"+op+":lag4", 2)
	}
	r.Floor("lag:"+walletlab.OpSplit+":lag1", 1)
	r.Floor("selections_with_defrag_extra_inputs", 20)
	r.Floor("op:"+walletlab.OpFund1+":ok", 100)
	r.Floor("op:"+walletlab.OpFund2+":ok", 100)
	r.Floor("op:"+walletlab.OpRedist+":ok", 10)
	r.Floor("op:"+walletlab.OpSplit+":ok", 10)
	r.Floor("op:"+walletlab.OpRelease+":ok", 100)
	r.Floor("op:"+walletlab.OpSleep+":ok", 6)
	for _, f := range []string{"immature", "locked", "locked+pool-spent", "spendable", "unconfirmed-output", "locked-unconfirmed"} {
		r.Floor("barrier_state_with:"+f, 5)
	}
	if got := r.SetLen("option_configurations"); got < 36 {
		r.Inconclusive(fmt.Sprintf("only %d of 36 option configurations exercised", got))
	}
}

// replay re-executes the case of a replay file: the recorded history is
// re-checked offline, then the same configuration is run again (20 times when
// it is a concurrent one, since the schedule is not reproducible).
func (rn *runner) replay(path string) {
	r := rn.r
	buf, err := os.ReadFile(path)
	if err != nil {
		r.Inconclusive("cannot read replay file: " + err.Error())
		return
	}
	var w struct {
		Seed int64   `json:"seed"`
		Sig  string  `json:"signature"`
		Case caseRec `json:"case"`
	}
	if err := json.Unmarshal(buf, &w); err != nil {
		r.Inconclusive("cannot parse replay file: " + err.Error())
		return
	}
	r.Seed = w.Seed // the case's PRNG streams derive from the seed it was found under
	if w.Case.History != nil {
		findings, _ := walletlab.Analyze(w.Case.History, porcupineTimeout)
		for _, f := range findings {
			fmt.Printf("offline re-check of the recorded history: %s (%s)\n", f.Sig, f.What)
			r.Count("offline_recheck_findings", 1)
			r.Violation(f.Sig, f.What, w.Case, f.Detail)
		}
	}
	n := 1
	if w.Case.Config.Kind == walletlab.KindConcurrent {
		n = 20
	}
	hit := 0
	for i := 0; i < n; i++ {
		for _, s := range rn.one(w.Case.Config) {
			if s == w.Sig {
				hit++
				break
			}
		}
	}
	r.Count("replay_runs", n)
	r.Count("replay_runs_reproducing_signature", hit)
}
