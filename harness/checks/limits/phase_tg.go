package limits

import (
	"context"
	"errors"
	"fmt"
	"math/rand/v2"
	"runtime"
	"sync"
	"sync/atomic"
	"time"

	"go.sia.tech/coreutils/threadgroup"
	"verif/harness/lab/limitlab"
	"verif/harness/mon"
)

// TGCase is one ThreadGroup storm.
type TGCase struct {
	Phase     string `json:"phase"`
	Index     int    `json:"index"`
	Workers   int    `json:"workers"`
	Ops       int    `json:"opsPerWorker"`
	Stoppers  int    `json:"stoppers"`
	StopAfter []int  `json:"stopAfterOps"` // each stopper calls Stop once this many operations were performed in total
	Holders   int    `json:"holders"`      // threads that live until their AddContext context is cancelled by Stop
	PlanSeed  uint64 `json:"planSeed"`
}

const (
	opAdd = iota
	opAddCtx
	opAddCtxParent
	opWithCtx
	opPeek
	numOps
)

func genTGCase(rng *rand.Rand, idx int) TGCase {
	c := TGCase{Phase: "tg", Index: idx, PlanSeed: rng.Uint64()}
	c.Workers = pick(rng, 2, 4, 8, 16, 32)
	c.Ops = pick(rng, 20, 100, 400)
	c.Stoppers = 1 + rng.IntN(3)
	total := c.Workers * c.Ops
	for i := 0; i < c.Stoppers; i++ {
		c.StopAfter = append(c.StopAfter, rng.IntN(total+total/4+1))
	}
	c.Holders = rng.IntN(6)
	return c
}

func phaseTG(r *mon.Run) {
	g := &guard{r: r, phase: "tg"}
	n := r.Pick(150, 1500)
	par := 8
	var wg sync.WaitGroup
	sem := make(chan struct{}, par)
	for i := 0; i < n; i++ {
		c := genTGCase(r.RNG(0x7000+uint64(i)), i)
		if i == 0 {
			r.Sample(c)
		}
		wg.Add(1)
		sem <- struct{}{}
		go func() {
			defer wg.Done()
			defer func() { <-sem }()
			g.run(func() { runTGCase(r, c) })
		}()
	}
	wg.Wait()
	g.done()
	// thread-group goroutines (WithContext watchers) of this phase must be gone
	tgOnly := func(g limitlab.Goroutine) bool {
		return !g.Has("coreutils/threadgroup.") || g.Has("coreutils/syncer.") || g.Has("coreutils/rhp/") || g.Has("coreutils/wallet.")
	}
	inv, ok := limitlab.Settle(settleBound/3, tgOnly, func(g []limitlab.Goroutine) bool { return len(g) == 0 })
	if !ok {
		r.Violation("goroutine-left-behind:threadgroup", "thread group goroutines are still alive after every group was stopped and every context cancelled", map[string]any{"phase": "tg"}, limitlab.Keys(inv))
	}
}

func runTGCase(r *mon.Run, c TGCase) {
	r.Eval()
	tg := threadgroup.New()
	vcase := map[string]any{"phase": "tg", "case": c}
	var (
		active       atomic.Int64 // threads between a successful Add and their Done
		ops          atomic.Int64
		stopCalled   atomic.Bool
		stopReturned atomic.Bool
		addsOK       atomic.Int64
		addsRefused  atomic.Int64
		ctxCancelled atomic.Int64
		once         sync.Once
		failed       atomic.Bool
	)
	violate := func(sig, what string, detail any) {
		failed.Store(true)
		once.Do(func() { r.Violation(sig, what, vcase, detail) })
	}
	checkAdd := func(err error) bool {
		if err == nil {
			addsOK.Add(1)
			return true
		}
		addsRefused.Add(1)
		if !errors.Is(err, threadgroup.ErrClosed) {
			violate("threadgroup-unexpected-error", "Add returned an error other than ErrClosed: "+err.Error(), nil)
		}
		// Stop closes the group only after stopCalled was set
		if !stopCalled.Load() {
			violate("threadgroup-add-refused-before-stop", "Add/AddContext was refused although Stop had not been called", nil)
		}
		return false
	}
	notPremature := func(ctx context.Context, parentCancelled bool, what string) {
		err := ctx.Err()
		sc := stopCalled.Load()
		if err != nil && !sc && !parentCancelled {
			violate("threadgroup-context-cancelled-before-stop", what+": context is cancelled although neither Stop nor the parent nor its own cancel function was called", nil)
		}
	}
	mustCancel := func(ctx context.Context, what string) {
		select {
		case <-ctx.Done():
			ctxCancelled.Add(1)
		case <-time.After(livenessBound):
			violate("threadgroup-context-not-cancelled", what+": context was not cancelled within 30 s", nil)
		}
	}

	var wg sync.WaitGroup
	guard := func(name string, fn func()) {
		wg.Add(1)
		go func() {
			defer wg.Done()
			if pan := mon.Guard(fn); pan != nil {
				violate("threadgroup-panic", fmt.Sprintf("%s panicked: %v", name, pan), nil)
			}
		}()
	}

	// long-lived threads: they end only because Stop cancels their context
	holdersUp := make(chan struct{}, c.Holders)
	for h := 0; h < c.Holders; h++ {
		guard("holder", func() {
			ctx, cancel, err := tg.AddContext(context.Background())
			holdersUp <- struct{}{}
			if !checkAdd(err) {
				return
			}
			active.Add(1)
			notPremature(ctx, false, "holder")
			mustCancel(ctx, "a thread's AddContext context after Stop")
			if !stopCalled.Load() {
				violate("threadgroup-context-cancelled-before-stop", "holder: context was cancelled before Stop was called", nil)
			}
			active.Add(-1)
			cancel()
			cancel() // the returned function is documented to be safe to call again
		})
	}
	for h := 0; h < c.Holders; h++ {
		<-holdersUp
	}

	for wi := 0; wi < c.Workers; wi++ {
		rng := rand.New(rand.NewPCG(c.PlanSeed, uint64(wi)))
		plan := make([]byte, c.Ops)
		for i := range plan {
			plan[i] = byte(rng.IntN(numOps))
		}
		yield := rng.IntN(3) == 0
		guard("worker", func() {
			for _, op := range plan {
				ops.Add(1)
				switch op {
				case opAdd:
					done, err := tg.Add()
					if checkAdd(err) {
						active.Add(1)
						if yield {
							runtime.Gosched()
						}
						active.Add(-1)
						done()
					}
				case opAddCtx:
					ctx, cancel, err := tg.AddContext(context.Background())
					if checkAdd(err) {
						active.Add(1)
						notPremature(ctx, false, "AddContext")
						if yield {
							runtime.Gosched()
						}
						active.Add(-1)
						cancel()
						if ctx.Err() == nil {
							violate("threadgroup-cancel-ineffective", "AddContext: context not cancelled by its own cancel function", nil)
						}
					}
				case opAddCtxParent:
					parent, pcancel := context.WithCancel(context.Background())
					ctx, cancel, err := tg.AddContext(parent)
					if checkAdd(err) {
						active.Add(1)
						notPremature(ctx, false, "AddContext(parent)")
						pcancel()
						mustCancel(ctx, "AddContext context after its parent was cancelled")
						active.Add(-1)
						cancel()
					}
					pcancel()
				case opWithCtx:
					ctx, cancel := tg.WithContext(context.Background())
					if stopReturned.Load() {
						mustCancel(ctx, "WithContext context of a stopped group")
					} else {
						notPremature(ctx, false, "WithContext")
					}
					cancel()
				case opPeek:
					select {
					case <-tg.Done():
						if !stopCalled.Load() {
							violate("threadgroup-done-closed-before-stop", "Done() is closed although Stop was not called", nil)
						}
					default:
						if stopReturned.Load() {
							// Done() must be closed once Stop returned
							select {
							case <-tg.Done():
							default:
								violate("threadgroup-done-open-after-stop", "Done() still open after Stop returned", nil)
							}
						}
					}
				}
				if stopReturned.Load() {
					if done, err := tg.Add(); err == nil {
						done()
						violate("threadgroup-add-accepted-after-stop", "Add succeeded after Stop had returned", nil)
					}
				}
			}
		})
	}

	var stops atomic.Int64
	for si := 0; si < c.Stoppers; si++ {
		after := int64(c.StopAfter[si])
		guard("stopper", func() {
			for ops.Load() < after && ops.Load() < int64(c.Workers*c.Ops) {
				runtime.Gosched()
			}
			stopCalled.Store(true)
			tg.Stop()
			if a := active.Load(); a != 0 {
				violate("threadgroup-stop-returned-with-live-threads", fmt.Sprintf("Stop returned while %d threads had been added and not yet done", a), nil)
			}
			stopReturned.Store(true)
			stops.Add(1)
			if done, err := tg.Add(); err == nil {
				done()
				violate("threadgroup-add-accepted-after-stop", "Add succeeded after Stop had returned", nil)
			}
			if _, _, err := tg.AddContext(context.Background()); err == nil {
				violate("threadgroup-add-accepted-after-stop", "AddContext succeeded after Stop had returned", nil)
			}
			select {
			case <-tg.Done():
			default:
				violate("threadgroup-done-open-after-stop", "Done() still open after Stop returned", nil)
			}
		})
	}

	all := make(chan struct{})
	go func() { wg.Wait(); close(all) }()
	select {
	case <-all:
	case <-time.After(livenessBound + 15*time.Second):
		violate("threadgroup-stop-timeout", "the storm (including every Stop call) did not finish within 45 s: deadlock or lost wake-up", limitlab.Keys(limitlab.Inventory(nil)))
		return
	}
	r.Count("tg.stop_calls", int(stops.Load()))
	r.Count("tg.adds_ok", int(addsOK.Load()))
	r.Count("tg.adds_refused_after_stop", int(addsRefused.Load()))
	r.Count("tg.contexts_seen_cancelled", int(ctxCancelled.Load()))
	r.Count("tg.ops", int(ops.Load()))
	r.Count("tg.holders", c.Holders)
	if addsOK.Load() > 0 && addsRefused.Load() > 0 && !failed.Load() {
		// Stop really overlapped the storm: some adds before, some after
		r.Distinct(fmt.Sprintf("tg/w%d/ops%d/stoppers%d/holders%d", c.Workers, c.Ops, c.Stoppers, c.Holders))
	}
}
