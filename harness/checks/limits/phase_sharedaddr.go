package limits

import (
	"context"
	"fmt"
	"math/rand/v2"
	"net"
	"strconv"
	"sync"
	"time"

	"go.sia.tech/coreutils/syncer"
	"verif/harness/lab/limitlab"
	"verif/harness/mon"
)

// SharedAddrCase: the inbound cap counts CONNECTIONS, whatever dial-back
// address the peers advertise. Distinct nodes (distinct UniqueIDs, separate
// TCP connections) advertise one and the same address (Groups addresses
// shared by PerGroup nodes each); optionally the first address is the
// dial-back address of an honest syncer that is connected already. The oracle
// does not look at Peers(): it counts the connections that are really served.
type SharedAddrCase struct {
	Phase        string `json:"phase"`
	Index        int    `json:"index"`
	Cap          int    `json:"maxInboundPeers"`
	Groups       int    `json:"groups"`
	PerGroup     int    `json:"perGroup"`
	Simultaneous bool   `json:"simultaneous"` // else one after another
	HonestShares bool   `json:"honestShares"` // group 0 advertises the address of a connected honest syncer
	HoldUs       []int  `json:"holdUs"`
}

func genSharedAddrCase(rng *rand.Rand, idx int) SharedAddrCase {
	c := SharedAddrCase{Phase: "shared-addr-cap", Index: idx}
	c.Cap = 1 + rng.IntN(3)
	c.Groups = 1 + rng.IntN(3)
	c.PerGroup = 2 + rng.IntN(4)
	c.Simultaneous = idx%2 == 1
	c.HonestShares = idx%4 >= 2
	if idx == 0 {
		// the plain core: cap 2, five distinct nodes with one address, in turn
		c.Cap, c.Groups, c.PerGroup = 2, 1, 5
	}
	for i := 0; i < c.Groups*c.PerGroup; i++ {
		c.HoldUs = append(c.HoldUs, rng.IntN(1+pick(rng, 0, 500, 5000)))
	}
	return c
}

func phaseSharedAddr(r *mon.Run) {
	n := r.Pick(16, 120)
	g := &guard{r: r, phase: "sharedaddr"}
	for i := 0; i < n; i++ {
		c := genSharedAddrCase(r.RNG(0xB400+uint64(i)), i)
		if i == 0 {
			r.Sample(c)
		}
		g.run(func() { runSharedAddrCase(r, c) })
	}
	g.done()
}

func runSharedAddrCase(r *mon.Run, c SharedAddrCase) {
	r.Eval()
	w := limitlab.NewWorld(uint64(r.Seed)<<16 ^ uint64(c.Index) ^ 0xBD<<40)
	quiet := []syncer.Option{syncer.WithSyncInterval(time.Hour), syncer.WithPeerDiscoveryInterval(time.Hour)}
	node, err := w.NewNode(limitlab.NodeConfig{IP: victimIP(150 + c.Index), Opts: append([]syncer.Option{
		syncer.WithMaxInboundPeers(c.Cap), syncer.WithConnectTimeout(60 * time.Second)}, quiet...)})
	if err != nil {
		r.Inconclusive("sharedaddr: cannot build node: " + err.Error())
		return
	}
	node.Start()
	smp := startSampler(node)
	var atts []*limitlab.Attacker
	var honest *limitlab.Node
	defer func() {
		for _, a := range atts {
			a.Close()
		}
		if honest != nil {
			closeNode(r, "sharedaddr", honest, c)
		}
		closeNode(r, "sharedaddr", node, c)
	}()

	// the shared addresses
	type group struct {
		ip   string
		port int
	}
	groups := make([]group, c.Groups)
	for gi := range groups {
		groups[gi] = group{fmt.Sprintf("127.18.8.%d", 1+gi), 50000 + gi}
	}
	var honestPeer *syncer.Peer
	if c.HonestShares {
		honest, err = w.NewNode(limitlab.NodeConfig{IP: "127.18.8.100", Opts: quiet})
		if err != nil {
			r.Inconclusive("sharedaddr: cannot build honest node: " + err.Error())
			return
		}
		honest.Start()
		ctx, cancel := context.WithTimeout(context.Background(), settleBound)
		honestPeer, err = honest.S.Connect(ctx, node.Addr)
		cancel()
		if err != nil {
			r.Inconclusive("sharedaddr: honest node could not connect: " + err.Error())
			return
		}
		_, ps, _ := net.SplitHostPort(honest.Addr)
		port, _ := strconv.Atoi(ps)
		groups[0] = group{"127.18.8.100", port}
	}

	N := c.Groups * c.PerGroup
	var mu sync.Mutex
	refusedEarly := 0
	dial := func(i int, hold func()) {
		g := groups[i%c.Groups]
		a, err := w.DialAttacker(uint32(i+1), node.Addr, g.ip, g.port, hold)
		mu.Lock()
		defer mu.Unlock()
		if err != nil {
			refusedEarly++
			return
		}
		a.Serve()
		atts = append(atts, a)
	}
	if c.Simultaneous {
		var wg sync.WaitGroup
		base := node.PS.BannedCalls()
		for i := 0; i < N; i++ {
			wg.Add(1)
			go func(i int) {
				defer wg.Done()
				dial(i, func() {
					// every attempt has passed the admission check
					node.PS.WaitBanned(base+N, 5*time.Second)
					time.Sleep(us(c.HoldUs[i]))
				})
			}(i)
		}
		wg.Wait()
	} else {
		for i := 0; i < N; i++ {
			dial(i, func() { time.Sleep(us(c.HoldUs[i])) })
			// the connection is settled (served or turned away) before the
			// next node arrives
			mu.Lock()
			if n := len(atts); n > 0 && atts[n-1].Idx == uint32(i+1) {
				atts[n-1].Ping(settleBound)
			}
			mu.Unlock()
		}
	}

	// quiescent point: which connections are really served?
	served, turnedAway := 0, 0
	for _, a := range atts {
		if a.Ping(settleBound) == nil {
			served++
		} else {
			turnedAway++
		}
	}
	honestServed := 0
	if honestPeer != nil {
		if _, err := honestPeer.ShareNodes(settleBound); err == nil {
			honestServed = 1
		}
	}
	in, _ := node.PeerCounts()
	smp.stop()
	maxIn := int(smp.maxIn.Load())
	r.Count("sharedaddr.connections_attempted", N+boolInt(c.HonestShares))
	r.Count("sharedaddr.connections_sharing_a_present_address", N-c.Groups+boolInt(c.HonestShares))
	r.Count("sharedaddr.connections_served", served+honestServed)
	r.Count("sharedaddr.turned_away_after_handshake", turnedAway)
	r.Count("sharedaddr.turned_away_before_handshake", refusedEarly)
	if c.HonestShares {
		r.Count("sharedaddr.cases_sharing_honest_address", 1)
		r.Count("sharedaddr.honest_connection_still_served", honestServed)
	}
	r.SetAdd("sharedaddr.configurations", fmt.Sprintf("cap%d/g%d/n%d/sim%v/honest%v", c.Cap, c.Groups, c.PerGroup, c.Simultaneous, c.HonestShares))
	r.Distinct(fmt.Sprintf("shared-addr/cap%d/g%d/n%d/sim%v/honest%v", c.Cap, c.Groups, c.PerGroup, c.Simultaneous, c.HonestShares))
	detail := map[string]any{"cap": c.Cap, "attempted": N, "servedAttackers": served, "honestServed": honestServed, "turnedAwayAfterHandshake": turnedAway, "turnedAwayBeforeHandshake": refusedEarly, "peersAtQuiescence": in, "peersMaxSampled": maxIn}
	if served+honestServed > c.Cap {
		r.Violation("inbound-cap-exceeded:served-connections", fmt.Sprintf("MaxInboundPeers=%d but %d inbound connections answer RPCs at a quiescent point (%d distinct nodes advertising %d shared address(es); Peers() lists %d): a connection whose advertised address is already present is served without being counted", c.Cap, served+honestServed, N, c.Groups, in), c, detail)
		return
	}
	if in > c.Cap || maxIn > c.Cap {
		r.Violation("inbound-cap-exceeded", fmt.Sprintf("MaxInboundPeers=%d but Peers() listed %d inbound peers (max sampled %d)", c.Cap, in, maxIn), c, detail)
	}
}

func boolInt(b bool) int {
	if b {
		return 1
	}
	return 0
}
