package limits

import (
	"context"
	"fmt"
	"math/rand/v2"
	"sync"
	"time"

	"go.sia.tech/core/types"
	rhp "go.sia.tech/coreutils/rhp/v4"
	"verif/harness/lab/limitlab"
	"verif/harness/mon"
)

// RHPCase: rhp.Server.Close while RPC handlers are in flight.
type RHPCase struct {
	Phase      string `json:"phase"`
	Index      int    `json:"index"`
	Clients    int    `json:"clients"`   // siamux transports
	PerClient  int    `json:"perClient"` // concurrent RPCs per transport
	KindOff    int    `json:"kindOff"`
	GateShut   bool   `json:"gateShut"`   // handlers parked in Settings/Contractor/Sectors when Close is called
	GateHoldUs int    `json:"gateHoldUs"` // released this long after Close was called
	Rounds     int    `json:"rounds"`     // gate open: each worker issues this many RPCs in a row
	HoldUs     int    `json:"holdUs"`
	Double     bool   `json:"doubleClose"`
	KeySeed    uint64 `json:"keySeed"`
}

func genRHPCase(rng *rand.Rand, idx int) RHPCase {
	c := RHPCase{Phase: "rhp", Index: idx, KeySeed: rng.Uint64()}
	c.Clients = 1 + rng.IntN(4)
	c.PerClient = 1 + rng.IntN(6)
	c.KindOff = rng.IntN(4)
	c.GateShut = idx%3 != 2
	c.GateHoldUs = rng.IntN(1 + pick(rng, 0, 1000, 20000))
	c.Rounds = 2 + rng.IntN(20)
	c.HoldUs = rng.IntN(1 + pick(rng, 0, 500, 5000))
	c.Double = rng.IntN(4) == 0
	return c
}

func phaseRHP(r *mon.Run) {
	g := &guard{r: r, phase: "rhp"}
	n := r.Pick(40, 300)
	for i := 0; i < n; i++ {
		c := genRHPCase(r.RNG(0xE000+uint64(i)), i)
		if i == 0 {
			r.Sample(c)
		}
		g.run(func() { runRHPCase(r, c) })
	}
	g.done()
}

func keyFrom(seed uint64) types.PrivateKey {
	var s [32]byte
	for i := 0; i < 4; i++ {
		v := seed*0x9E3779B97F4A7C15 + uint64(i)*0xBF58476D1CE4E5B9
		for j := 0; j < 8; j++ {
			s[i*8+j] = byte(v >> (8 * j))
		}
	}
	return types.NewPrivateKeyFromSeed(s[:])
}

func rhpOnly(g limitlab.Goroutine) bool {
	return !(g.Has("coreutils/rhp/v4"))
}

func runRHPCase(r *mon.Run, c RHPCase) {
	r.Eval()
	w := limitlab.NewWorld(uint64(r.Seed)<<16 ^ uint64(c.Index) ^ 0xF<<40)
	hostKey, renterKey := keyFrom(c.KeySeed), keyFrom(c.KeySeed+1)
	h, err := w.NewRHPHost(fmt.Sprintf("127.0.21.%d", 1+c.Index%250), hostKey)
	if err != nil {
		r.Inconclusive("rhp: cannot start host: " + err.Error())
		return
	}
	torn := false
	teardown := func() bool {
		if torn {
			return true
		}
		torn = true
		h.G.Open()
		return h.Teardown(settleBound)
	}
	defer teardown()

	ctx, cancel := context.WithTimeout(context.Background(), 5*time.Minute)
	defer cancel()
	var clients []rhp.TransportClient
	for i := 0; i < c.Clients; i++ {
		cl, err := h.Dial(ctx)
		if err != nil {
			r.Inconclusive("rhp: cannot dial host: " + err.Error())
			return
		}
		clients = append(clients, cl)
	}
	settings, err := rhp.RPCSettings(ctx, clients[0])
	if err != nil {
		r.Inconclusive("rhp: settings RPC failed: " + err.Error())
		return
	}
	before := h.G.Snap()
	if c.GateShut {
		h.G.Shut()
	}
	total := c.Clients * c.PerClient
	var wg sync.WaitGroup
	var mu sync.Mutex
	answers, shutdowns, transportErrs := 0, 0, 0
	var odd []string
	for i, cl := range clients {
		for j := 0; j < c.PerClient; j++ {
			wg.Add(1)
			go func(i, j int, cl rhp.TransportClient) {
				defer wg.Done()
				rounds := 1
				if !c.GateShut {
					rounds = c.Rounds
				}
				for k := 0; k < rounds; k++ {
					err := h.Call(ctx, cl, c.KindOff+i+j+k, settings.Prices, renterKey, uint64(i*1000+j*10+k))
					mu.Lock()
					switch {
					case limitlab.IsShuttingDown(err):
						shutdowns++
					case limitlab.IsHostAnswer(err):
						// whether a handler was *started* after Close returned
						// is decided by the proxy's after-mark list, not here
						answers++
					default:
						transportErrs++
						if len(odd) < 4 {
							odd = append(odd, err.Error())
						}
					}
					mu.Unlock()
				}
			}(i, j, cl)
		}
	}
	vcase := map[string]any{"phase": "rhp", "case": c}
	parked := 0
	if c.GateShut {
		if !h.G.WaitFor(settleBound, func(s limitlab.GateSnapshot) bool { return s.Parked >= total }) {
			r.Inconclusive(fmt.Sprintf("rhp: only %d of %d handlers parked", h.G.Snap().Parked, total))
			return
		}
		parked = total
	}
	time.Sleep(us(c.HoldUs))

	r.Count("rhp.coreutils_goroutines_before_close", len(limitlab.Inventory(rhpOnly)))
	p := bounded(func() { h.Server.Close() })
	var p2 *pending
	if c.Double {
		p2 = bounded(func() { h.Server.Close() })
	}
	if c.GateShut {
		time.Sleep(us(c.GateHoldUs))
		if p.returned() && h.G.Snap().Parked > 0 {
			r.Violation("rhp-close-returned-before-handlers-done", fmt.Sprintf("rhp.Server.Close returned while %d handlers were still parked in the host's interfaces", h.G.Snap().Parked), vcase, h.G.Labels())
			return
		}
		h.G.Open()
	}
	if !p.wait(livenessBound) || (p2 != nil && !p2.wait(livenessBound)) {
		r.Violation("rhp-close-timeout", "rhp.Server.Close did not return within 30 s after every handler had been released", vcase, limitlab.Keys(limitlab.Inventory(rhpOnly)))
		return
	}
	countLatency(r, "rhp", p.latency())
	if m := h.G.Mark(); m != 0 {
		r.Violation("rhp-close-returned-before-handlers-done", fmt.Sprintf("rhp.Server.Close returned while %d handler calls into Settings/Contractor/Sectors were still in progress", m), vcase, h.G.Labels())
		return
	}
	if pan := p.panicked(); pan != nil {
		r.Violation("rhp-close-panicked", fmt.Sprint(pan), vcase, nil)
		return
	}
	r.Count("rhp.handlers_parked_at_close", parked)

	// work submitted afterwards is rejected: on an existing transport and on a
	// new one
	for k := 0; k < 3; k++ {
		err := h.Call(ctx, clients[k%len(clients)], k, settings.Prices, renterKey, uint64(9000+k))
		if limitlab.IsHostAnswer(err) && !limitlab.IsShuttingDown(err) {
			r.Violation("rhp-rpc-served-after-close", fmt.Sprintf("an %s RPC issued after rhp.Server.Close had returned was served (result: %v)", limitlab.RHPKindName(k), err), vcase, nil)
			return
		}
		r.Count("rhp.rejected_after_close", 1)
		if limitlab.IsShuttingDown(err) {
			r.Count("rhp.rejected_after_close_with_shutdown_error", 1)
		}
	}
	if cl, err := h.Dial(ctx); err == nil {
		if _, err := rhp.RPCSettings(ctx, cl); err == nil {
			r.Violation("rhp-rpc-served-after-close", "a Settings RPC on a transport dialed after Close was served", vcase, nil)
			return
		}
		r.Count("rhp.rejected_after_close", 1)
	}
	wg.Wait()
	mu.Lock()
	r.Count("rhp.rpcs_answered", answers)
	r.Count("rhp.rpcs_refused_shutting_down", shutdowns)
	r.Count("rhp.rpcs_transport_error", transportErrs)
	mu.Unlock()
	if am := h.G.Snap().AfterMark; len(am) > 0 {
		r.Violation("rhp-handler-started-after-close", fmt.Sprintf("%d handler calls into the host's interfaces were started after rhp.Server.Close had returned", len(am)), vcase, am)
		return
	}
	after := h.G.Snap()
	r.Count("rhp.proxy_calls", int(after.Entries-before.Entries))
	labels := h.G.Labels()
	for k := range labels {
		r.SetAdd("rhp.proxied_methods", k)
	}

	// transports and listener go away; no rhp goroutine may be left
	if !teardown() {
		r.Violation("goroutine-left-behind:rhp-serve", "siamux.Serve did not return after its listener was closed", vcase, limitlab.Keys(limitlab.Inventory(rhpOnly)))
		return
	}
	inv, ok := limitlab.Settle(settleBound/3, rhpOnly, func(g []limitlab.Goroutine) bool { return len(g) == 0 })
	r.Count("rhp.coreutils_goroutines_after_close", len(inv))
	if !ok {
		r.Violation("goroutine-left-behind:rhp", "rhp goroutines are still alive after the server was closed and every transport was closed", vcase, limitlab.Keys(inv))
		return
	}
	if parked > 0 || shutdowns > 0 {
		r.Distinct(fmt.Sprintf("rhp/clients%d/per%d/shut%v/parked%d/refused%v", c.Clients, c.PerClient, c.GateShut, parked, shutdowns > 0))
	}
}
