package limits

import (
	"context"
	"fmt"
	"math/rand/v2"
	"strings"
	"time"

	"go.sia.tech/coreutils/syncer"
	"verif/harness/lab/limitlab"
	"verif/harness/mon"
)

// SyncCloseCase: Syncer.Close while a block download is in progress and a
// batch has been handed to the chain manager. The victim syncs a chain from
// Servers peers; its manager proxy parks AddBlocks (below the v2 require
// height) resp. AddValidatedV2Blocks (above); then Close is called, and only
// later the parked call is let go.
type SyncCloseCase struct {
	Phase       string `json:"phase"`
	Index       int    `json:"index"`
	V1          bool   `json:"belowV2RequireHeight"` // sync through AddBlocks instead of AddValidatedV2Blocks
	Blocks      int    `json:"blocks"`               // 100 blocks per download request
	Servers     int    `json:"servers"`
	HoldUs      int    `json:"holdUs"`     // between "a batch is parked in the manager" and Close
	GateHoldUs  int    `json:"gateHoldUs"` // between Close and the release of the parked call
	DoubleClose bool   `json:"doubleClose"`
}

func genSyncCloseCase(rng *rand.Rand, idx int) SyncCloseCase {
	c := SyncCloseCase{Phase: "sync-close", Index: idx}
	c.V1 = idx%2 == 1
	c.Blocks = pick(rng, 40, 150, 230)
	if idx < 2 {
		c.Blocks = 150
	}
	if !c.V1 && c.Blocks < 150 {
		c.Blocks = 150 // needs a second download request
	}
	c.Servers = 1 + rng.IntN(3)
	c.HoldUs = rng.IntN(1 + pick(rng, 0, 2000, 30000))
	c.GateHoldUs = 1000 + rng.IntN(1+pick(rng, 2000, 20000, 100000))
	c.DoubleClose = rng.IntN(4) == 0
	return c
}

func phaseSyncClose(r *mon.Run) {
	n := r.Pick(6, 36)
	g := &guard{r: r, phase: "syncclose"}
	for i := 0; i < n; i++ {
		c := genSyncCloseCase(r.RNG(0xC400+uint64(i)), i)
		if i < 2 {
			r.Sample(c)
		}
		g.run(func() { runSyncCloseCase(r, c) })
	}
	g.done()
}

func callName(label string) string { return strings.TrimSuffix(label, ":tagged") }

func runSyncCloseCase(r *mon.Run, c SyncCloseCase) {
	r.Eval()
	salt := uint64(r.Seed)<<16 ^ uint64(c.Index) ^ 0xCC<<40
	w := limitlab.NewWorld(salt)
	if c.V1 {
		w = limitlab.NewWorldV1(salt)
	}
	vcase := map[string]any{"phase": "sync-close", "case": c}
	quiet := []syncer.Option{syncer.WithSyncInterval(time.Hour), syncer.WithPeerDiscoveryInterval(time.Hour)}
	var servers []*limitlab.Node
	closeServers := func() {
		for _, s := range servers {
			closeNode(r, "syncclose", s, vcase)
		}
		servers = nil
	}
	defer closeServers()
	for i := 0; i < c.Servers; i++ {
		cfg := limitlab.NodeConfig{IP: fmt.Sprintf("127.0.18.%d", 240+i), Opts: quiet}
		if i == 0 {
			cfg.Blocks = c.Blocks
		} else {
			cfg.CopyFrom = servers[0].Real
		}
		s, err := w.NewNode(cfg)
		if err != nil {
			r.Inconclusive("syncclose: cannot build serving node: " + err.Error())
			return
		}
		s.Start()
		servers = append(servers, s)
	}
	victim, err := w.NewNode(limitlab.NodeConfig{IP: victimIP(180 + c.Index), Opts: []syncer.Option{
		syncer.WithSyncInterval(20 * time.Millisecond), syncer.WithPeerDiscoveryInterval(time.Hour)}})
	if err != nil {
		r.Inconclusive("syncclose: cannot build node: " + err.Error())
		return
	}
	if c.V1 {
		victim.CM.ParkMethods("AddBlocks", "AddValidatedV2Blocks")
	} else {
		// the first request starts at the genesis block, below the require
		// height, and goes through AddBlocks: let it pass and park the batches
		// of the later requests
		victim.CM.ParkMethods("AddValidatedV2Blocks")
	}
	victim.CM.G.Shut()
	victim.Start()
	closed := false
	defer func() {
		victim.CM.G.Open()
		if !closed {
			closeNode(r, "syncclose", victim, vcase)
		}
	}()
	for _, s := range servers {
		addr := s.Addr
		cp := bounded(func() {
			ctx, cancel := context.WithTimeout(context.Background(), settleBound)
			defer cancel()
			victim.S.Connect(ctx, addr)
		})
		if !cp.wait(settleBound) {
			r.Inconclusive("syncclose: Connect did not return")
			return
		}
	}
	// a downloaded batch reaches the chain manager (the download loop starts
	// its workers on a 1 s ticker)
	if !victim.CM.G.WaitFor(settleBound, func(s limitlab.GateSnapshot) bool { return s.Parked >= 1 }) {
		r.Inconclusive("syncclose: no batch of downloaded blocks reached the chain manager")
		return
	}
	parkedIn := "AddBlocks"
	if victim.CM.G.Labels()["AddValidatedV2Blocks"] > 0 {
		parkedIn = "AddValidatedV2Blocks"
	}
	r.Count("syncclose.batch_parked_in."+parkedIn, 1)
	time.Sleep(us(c.HoldUs))
	r.Count("syncclose.coreutils_goroutines_before_close", len(limitlab.Inventory(nil)))

	p := bounded(func() { victim.S.Close() })
	var p2 *pending
	if c.DoubleClose {
		p2 = bounded(func() { victim.S.Close() })
	}
	time.Sleep(us(c.GateHoldUs))
	if p.returned() && victim.CM.G.Snap().Parked > 0 {
		closed = true
		r.Violation("syncer-work-after-close:"+parkedIn, fmt.Sprintf("Syncer.Close returned while the block-download machinery was still inside %s of the chain manager (%d blocks from %d peer(s))", parkedIn, c.Blocks, c.Servers), vcase, limitlab.Keys(limitlab.Inventory(nil)))
		return
	}
	r.Count("syncclose.closed_with_batch_parked", 1)
	victim.CM.G.Open()
	if !p.wait(livenessBound) || (p2 != nil && !p2.wait(livenessBound)) {
		closed = true
		r.Violation("syncer-close-timeout:block-download", "Syncer.Close did not return within 30 s after the parked chain manager call had been released", vcase, limitlab.Stacks(limitlab.Inventory(nil), 8))
		return
	}
	closed = true
	countLatency(r, "syncclose", p.latency())
	if m := victim.CM.G.Mark(); m != 0 {
		ls := victim.CM.G.MarkLabels()
		r.Violation("syncer-work-after-close:"+callName(ls[0]), fmt.Sprintf("Syncer.Close returned while %d calls of the syncer into the chain manager were still in progress (%v)", m, ls), vcase, limitlab.Keys(limitlab.Inventory(nil)))
		return
	}
	if !victim.WaitRun(livenessBound) {
		r.Violation("run-outlives-close", "Run had not returned 30 s after Close returned", vcase, limitlab.Keys(limitlab.Inventory(nil)))
		return
	}
	r.Count("syncclose.blocks_added_before_close", int(victim.Real.Tip().Height))
	// nothing of the syncer may touch the manager from now on, and once the
	// serving peers are gone no goroutine with a syncer frame may be left
	time.Sleep(60 * time.Millisecond)
	closeServers()
	inv, ok := limitlab.Settle(settleBound, nil, func(g []limitlab.Goroutine) bool { return len(g) == 0 })
	r.Count("syncclose.coreutils_goroutines_after_close", len(inv))
	if am := victim.CM.G.Snap().AfterMark; len(am) > 0 {
		r.Violation("syncer-work-after-close:"+callName(am[0]), fmt.Sprintf("%d calls of the syncer into the chain manager were started after Syncer.Close had returned (%v)", len(am), am), vcase, limitlab.Keys(inv))
		return
	}
	if !ok {
		r.Violation("goroutine-left-behind:syncer", "goroutines with a syncer frame are still alive after Close returned, the parked calls were released and every peer was closed", vcase, limitlab.Keys(inv))
		return
	}
	r.Distinct(fmt.Sprintf("sync-close/%s/blocks%d/servers%d/double%v", parkedIn, c.Blocks, c.Servers, c.DoubleClose))
}
