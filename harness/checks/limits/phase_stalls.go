package limits

import (
	"bytes"
	"context"
	"fmt"
	"net"
	"time"

	proto4 "go.sia.tech/core/rhp/v4"
	rhp "go.sia.tech/coreutils/rhp/v4"
	"go.sia.tech/coreutils/syncer"
	"verif/harness/lab/limitlab"
	"verif/harness/mon"
)

// RHPStallCase: a renter opens a stream and stops talking at a given stage of
// the request; the server's RPC timeout is small. Either Close is called
// while the stream is stalled, or the stream is left to the timeout.
type RHPStallCase struct {
	Phase        string `json:"phase"`
	Index        int    `json:"index"`
	Stage        string `json:"stage"` // tcp-only | id-1 | id-8 | id-15 | after-id | in-request | in-sector-body
	RPCTimeoutMs int    `json:"rpcTimeoutMs"`
	WithClose    bool   `json:"withClose"`    // Close while stalled (else: wait for the timeout, then Close)
	CloseAfterUs int    `json:"closeAfterUs"` // moment of Close relative to the stall
	Streams      int    `json:"streams"`
	KeySeed      uint64 `json:"keySeed"`
}

var rhpStallStages = []string{"tcp-only", "id-1", "id-8", "id-15", "after-id", "in-request", "in-sector-body"}

func phaseRHPStalls(r *mon.Run) {
	g := &guard{r: r, phase: "rhpstall"}
	reps := r.Pick(1, 4)
	idx := 0
	for rep := 0; rep < reps; rep++ {
		for _, st := range rhpStallStages {
			for _, wc := range []bool{true, false} {
				rng := r.RNG(0xE800 + uint64(idx))
				c := RHPStallCase{Phase: "rhp-stall", Index: idx, Stage: st, RPCTimeoutMs: pick(rng, 300, 400, 500), WithClose: wc, Streams: 1 + rng.IntN(3), KeySeed: rng.Uint64()}
				c.CloseAfterUs = rng.IntN(1 + c.RPCTimeoutMs*500)
				if idx == 2 {
					r.Sample(c)
				}
				idx++
				g.run(func() { runRHPStallCase(r, c) })
			}
		}
	}
	g.done()
}

func runRHPStallCase(r *mon.Run, c RHPStallCase) {
	r.Eval()
	T := time.Duration(c.RPCTimeoutMs) * time.Millisecond
	w := limitlab.NewWorld(uint64(r.Seed)<<16 ^ uint64(c.Index) ^ 0x3F<<40)
	hostKey, renterKey := keyFrom(c.KeySeed), keyFrom(c.KeySeed+1)
	h, err := w.NewRHPHost(fmt.Sprintf("127.0.22.%d", 1+c.Index%250), hostKey, rhp.WithRPCTimeout(T))
	if err != nil {
		r.Inconclusive("rhpstall: cannot start host: " + err.Error())
		return
	}
	var raw []net.Conn
	torn := false
	teardown := func() bool {
		if torn {
			return true
		}
		torn = true
		for _, c := range raw {
			c.Close()
		}
		return h.Teardown(settleBound)
	}
	defer teardown()
	ctx, cancel := context.WithTimeout(context.Background(), 5*time.Minute)
	defer cancel()
	vcase := map[string]any{"phase": "rhp-stall", "case": c}

	// the bytes of a complete request for the stage, and where to stop
	var wire []byte
	cut := 0
	if c.Stage != "tcp-only" {
		cl0, err := h.Dial(ctx)
		if err != nil {
			r.Inconclusive("rhpstall: cannot dial host: " + err.Error())
			return
		}
		settings, err := rhp.RPCSettings(ctx, cl0)
		if err != nil {
			r.Inconclusive("rhpstall: settings RPC failed: " + err.Error())
			return
		}
		var buf bytes.Buffer
		switch c.Stage {
		case "in-sector-body":
			req := &proto4.RPCWriteSectorRequest{Prices: settings.Prices, Token: proto4.NewAccountToken(renterKey, hostKey.PublicKey()), DataLength: 4096}
			proto4.WriteRequest(&buf, proto4.RPCWriteSectorID, req)
			buf.Write(make([]byte, 1000)) // a quarter of the announced body
			cut = buf.Len()
		default:
			req := &proto4.RPCAccountBalanceRequest{Account: proto4.Account(renterKey.PublicKey())}
			proto4.WriteRequest(&buf, proto4.RPCAccountBalanceID, req)
			switch c.Stage {
			case "id-1":
				cut = 1
			case "id-8":
				cut = 8
			case "id-15":
				cut = 15
			case "after-id":
				cut = 16
			case "in-request":
				cut = 16 + (buf.Len()-16)/2
			}
		}
		wire = buf.Bytes()
	}

	// stall
	var stalled []net.Conn
	for i := 0; i < c.Streams; i++ {
		if c.Stage == "tcp-only" {
			conn, err := net.DialTimeout("tcp", h.Addr, 10*time.Second)
			if err != nil {
				r.Inconclusive("rhpstall: tcp dial failed: " + err.Error())
				return
			}
			raw = append(raw, conn)
			continue
		}
		cl, err := h.Dial(ctx)
		if err != nil {
			r.Inconclusive("rhpstall: cannot dial host: " + err.Error())
			return
		}
		s, err := cl.DialStream(ctx)
		if err != nil {
			r.Inconclusive("rhpstall: cannot open stream: " + err.Error())
			return
		}
		if _, err := s.Write(wire[:cut]); err != nil {
			r.Inconclusive("rhpstall: write failed: " + err.Error())
			return
		}
		stalled = append(stalled, s)
	}
	r.Count("rhpstall.streams_stalled", c.Streams)
	r.SetAdd("rhpstall.stages", c.Stage)

	waitTorn := func(when string) bool {
		for _, s := range stalled {
			if !limitlab.WaitTornDown(s, livenessBound) {
				r.Violation("rhp-stalled-stream-not-torn-down:"+c.Stage, fmt.Sprintf("a stream stalled at stage %q was still open 30 s %s (RPC timeout %v): the handler has no effective deadline at that stage", c.Stage, when, T), vcase, limitlab.Stacks(limitlab.Inventory(rhpOnly), 6))
				return false
			}
			r.Count("rhpstall.streams_torn_down", 1)
		}
		return true
	}
	if c.WithClose {
		time.Sleep(us(c.CloseAfterUs))
	} else if !waitTorn("after it was opened") {
		return
	}
	p := bounded(func() { h.Server.Close() })
	if !p.wait(livenessBound) {
		r.Violation("rhp-close-timeout:stalled-stream:"+c.Stage, fmt.Sprintf("rhp.Server.Close did not return within 30 s while %d stream(s) were stalled at stage %q (RPC timeout %v, after which Close may no longer be held up)", c.Streams, c.Stage, T), vcase, limitlab.Stacks(limitlab.Inventory(rhpOnly), 6))
		return
	}
	countLatency(r, "rhpstall", p.latency())
	if c.WithClose {
		r.Count("rhpstall.closed_while_stalled", 1)
		if !waitTorn("after Close returned") {
			return
		}
	}
	if !teardown() {
		r.Violation("goroutine-left-behind:rhp-serve", "siamux.Serve did not return after its listener was closed", vcase, limitlab.Keys(limitlab.Inventory(rhpOnly)))
		return
	}
	if inv, ok := limitlab.Settle(settleBound, rhpOnly, func(g []limitlab.Goroutine) bool { return len(g) == 0 }); !ok {
		r.Violation("goroutine-left-behind:rhp", "rhp goroutines are still alive after the server was closed and every transport was closed", vcase, limitlab.Keys(inv))
		return
	}
	r.Distinct(fmt.Sprintf("rhp-stall/%s/close%v", c.Stage, c.WithClose))
}

// SyncStallCase: a peer stops talking in the middle of the gateway handshake,
// of an RPC id, or of a request body (after its handlers were admitted); the
// syncer's ConnectTimeout / RPCTimeout are small.
type SyncStallCase struct {
	Phase     string `json:"phase"`
	Index     int    `json:"index"`
	Stage     string `json:"stage"` // hs-tcp-only | hs-version-only | hs-partial-header | hs-no-final-accept | id-1 | id-8 | id-15 | in-request
	TimeoutMs int    `json:"timeoutMs"`
	PerPeer   int    `json:"maxInflightRPCs"`
	WithClose bool   `json:"withClose"`
	CloseUs   int    `json:"closeAfterUs"`
}

var syncStallStages = []string{"hs-tcp-only", "hs-version-only", "hs-partial-header", "hs-no-final-accept", "id-1", "id-8", "id-15", "in-request"}

func phaseSyncStalls(r *mon.Run) {
	g := &guard{r: r, phase: "syncstall"}
	reps := r.Pick(1, 4)
	idx := 0
	for rep := 0; rep < reps; rep++ {
		for si, st := range syncStallStages {
			for _, wc := range []bool{true, false} {
				// without Close a stall inside the RPC id ends at the syncer's
				// fixed 5 s id deadline: only one such case per repetition
				if !wc && (st == "id-1" || st == "id-15") {
					continue
				}
				rng := r.RNG(0xC800 + uint64(idx))
				c := SyncStallCase{Phase: "syncer-stall", Index: idx, Stage: st, TimeoutMs: pick(rng, 300, 400, 500), PerPeer: 1 + rng.IntN(3), WithClose: wc}
				c.CloseUs = rng.IntN(1 + c.TimeoutMs*500)
				if si == 2 && wc {
					r.Sample(c)
				}
				idx++
				g.run(func() { runSyncStallCase(r, c) })
			}
		}
	}
	g.done()
}

func runSyncStallCase(r *mon.Run, c SyncStallCase) {
	r.Eval()
	baseline := limitlab.HandlerGoroutines()
	T := time.Duration(c.TimeoutMs) * time.Millisecond
	w := limitlab.NewWorld(uint64(r.Seed)<<16 ^ uint64(c.Index) ^ 0x4F<<40)
	L := c.PerPeer
	node, err := w.NewNode(limitlab.NodeConfig{IP: victimIP(60 + c.Index), Opts: []syncer.Option{
		syncer.WithSyncInterval(time.Hour), syncer.WithPeerDiscoveryInterval(time.Hour),
		syncer.WithConnectTimeout(T), syncer.WithRPCTimeout(T),
		syncer.WithMaxInflightRPCs(L), syncer.WithMaxInflightRPCsPerSubnet(L),
	}})
	if err != nil {
		r.Inconclusive("syncstall: cannot build node: " + err.Error())
		return
	}
	node.CM.SetLimits(L, L)
	node.Start()
	vcase := map[string]any{"phase": "syncer-stall", "case": c}
	const ip = "127.18.5.5"
	node.CM.RegisterPeer(1, limitlab.SubnetKey(ip, 32))
	stage := limitlab.HSComplete
	switch c.Stage {
	case "hs-tcp-only":
		stage = limitlab.HSNothing
	case "hs-version-only":
		stage = limitlab.HSVersion
	case "hs-partial-header":
		stage = limitlab.HSPartialHeader
	case "hs-no-final-accept":
		stage = limitlab.HSNoAccept
	}
	rp, err := w.DialRaw(node.Addr, ip, 48000, stage)
	if err != nil {
		r.Inconclusive("syncstall: raw peer could not connect: " + err.Error())
		closeNode(r, "syncstall", node, c)
		return
	}
	closed := false
	finish := func() {
		if !closed {
			closed = true
			node.CM.G.Open()
			rp.Close()
			closeNode(r, "syncstall", node, c)
		}
	}
	defer finish()
	r.SetAdd("syncstall.stages", c.Stage)

	type reader interface {
		Read([]byte) (int, error)
		SetReadDeadline(time.Time) error
	}
	var watch []reader
	idb, body := limitlab.SendHeadersBytes(limitlab.Tag{Peer: 1, Burst: 1})
	switch c.Stage {
	case "id-1", "id-8", "id-15":
		n := map[string]int{"id-1": 1, "id-8": 8, "id-15": 15}[c.Stage]
		s, err := rp.OpenStalled(idb[:n])
		if err != nil {
			r.Inconclusive("syncstall: cannot open stream: " + err.Error())
			return
		}
		watch = append(watch, s)
	case "in-request":
		// every slot of the connection is taken by a handler waiting for the
		// rest of its request
		for i := 0; i < L; i++ {
			s, err := rp.OpenStalled(append(append([]byte{}, idb...), body[:len(body)/2]...))
			if err != nil {
				r.Inconclusive("syncstall: cannot open stream: " + err.Error())
				return
			}
			watch = append(watch, s)
		}
	default:
		watch = append(watch, rp.Conn)
	}
	r.Count("syncstall.stalls", len(watch))

	if c.WithClose {
		time.Sleep(us(c.CloseUs))
		p := bounded(func() { node.S.Close() })
		if !p.wait(livenessBound) {
			r.Violation("syncer-close-timeout:stalled-peer:"+c.Stage, fmt.Sprintf("Syncer.Close did not return within 30 s while a peer was stalled at stage %q (ConnectTimeout = RPCTimeout = %v)", c.Stage, T), vcase, limitlab.Stacks(limitlab.Inventory(nil), 8))
			return
		}
		countLatency(r, "syncstall", p.latency())
		r.Count("syncstall.closed_while_stalled", 1)
		for _, s := range watch {
			if !limitlab.WaitTornDown(s, livenessBound) {
				r.Violation("stalled-peer-not-torn-down:"+c.Stage, "the stalled connection/stream was still open 30 s after Syncer.Close returned", vcase, limitlab.Stacks(limitlab.Inventory(nil), 8))
				return
			}
		}
		r.Distinct("syncer-stall/" + c.Stage + "/close")
		return
	}

	// no Close: the timeouts alone have to end the stall
	if c.Stage == "in-request" {
		// the stalled handlers give up at the RPC timeout and return their
		// slots: a fresh burst on the same connection reaches the full limit
		if !limitlab.WaitHandlersAtMost(baseline, livenessBound) {
			r.Violation("slot-leak:stalled-request", fmt.Sprintf("%d handlers waiting for the rest of their request bodies were still alive 30 s after the request stalled (RPCTimeout %v): they hold their per-peer and per-subnet slots", limitlab.HandlerGoroutines()-baseline, T), vcase, limitlab.Stacks(limitlab.Inventory(nil), 8))
			return
		}
		node.CM.G.Shut()
		for i := 0; i < L; i++ {
			idb, body := limitlab.SendHeadersBytes(limitlab.Tag{Peer: 1, Burst: 2, Req: uint32(i)})
			if _, err := rp.OpenStalled(append(append([]byte{}, idb...), body...)); err != nil {
				r.Inconclusive("syncstall: cannot open stream: " + err.Error())
				return
			}
		}
		if !node.CM.G.WaitFor(livenessBound, func(s limitlab.GateSnapshot) bool { return s.Parked >= L }) {
			r.Violation("slot-leak:stalled-request", fmt.Sprintf("after %d requests had stalled inside their bodies and timed out, only %d of %d fresh requests of the same connection reached a handler within 30 s", L, node.CM.G.Snap().Parked, L), vcase, limitlab.Stacks(limitlab.Inventory(nil), 8))
			return
		}
		node.CM.G.Open()
		r.Count("syncstall.fresh_burst_after_stall_reached_limit", 1)
	} else {
		for _, s := range watch {
			if !limitlab.WaitTornDown(s, livenessBound) {
				r.Violation("stalled-peer-not-torn-down:"+c.Stage, fmt.Sprintf("a peer stalled at stage %q was still connected after 30 s (ConnectTimeout %v; the RPC id deadline is 5 s)", c.Stage, T), vcase, limitlab.Stacks(limitlab.Inventory(nil), 8))
				return
			}
			r.Count("syncstall.torn_down_by_timeout", 1)
		}
	}
	r.Distinct("syncer-stall/" + c.Stage + "/timeout")
}
