package limits

import (
	"fmt"
	"math/rand/v2"
	"time"

	"go.sia.tech/coreutils/syncer"
	"verif/harness/lab/limitlab"
	"verif/harness/mon"
)

// PinSeqCase pins RPC handlers and lets them go ONE AT A TIME: the in-flight
// counters have to stay exact across every single handler completion. The
// harness keeps its own model of live handlers per peer and per subnet from
// its enter/leave events and predicts the fate of every request.
type PinSeqCase struct {
	Phase     string    `json:"phase"`
	Index     int       `json:"index"`
	PerPeer   int       `json:"maxInflightRPCs"`
	PerSubnet int       `json:"maxInflightRPCsPerSubnet"`
	SetPrefix bool      `json:"setPrefix"`
	V4Bits    int       `json:"v4Bits"`
	Peers     []AttSpec `json:"peers"`
	Ops       []PinOp   `json:"ops"`
}

// PinOp is one step: a peer sends one request, or one live handler (chosen by
// Pick modulo the number of live handlers) is released.
type PinOp struct {
	Enter bool `json:"enter"`
	Peer  int  `json:"peer,omitempty"`
	Pick  int  `json:"pick,omitempty"`
}

func genPinSeqCase(rng *rand.Rand, idx int) PinSeqCase {
	c := PinSeqCase{Phase: "pinseq", Index: idx, V4Bits: 32}
	if idx == 0 {
		// the scripted core: A and B enter, A ends, C takes A's slot, D must
		// be dropped; B ends, E takes its slot, F must be dropped
		c.PerPeer, c.PerSubnet = 2, 2
		c.Peers = []AttSpec{{IP: "127.18.6.1", Port: 49000}, {IP: "127.18.6.1", Port: 49001}}
		c.Ops = []PinOp{{Enter: true, Peer: 0}, {Enter: true, Peer: 1}, {Pick: 0}, {Enter: true, Peer: 0}, {Enter: true, Peer: 1}, {Pick: 0}, {Enter: true, Peer: 1}, {Enter: true, Peer: 0}, {Pick: 1}, {Pick: 0}}
		return c
	}
	c.PerSubnet = 2 + rng.IntN(4)
	c.PerPeer = pick(rng, 1, 2, 2, 3, 5)
	n := 1 + rng.IntN(3)
	c.SetPrefix = rng.IntN(2) == 0
	if c.SetPrefix {
		c.V4Bits = 24
	}
	for i := 0; i < n; i++ {
		ip := "127.18.6.1"
		if c.SetPrefix {
			ip = fmt.Sprintf("127.18.6.%d", 1+i)
		}
		c.Peers = append(c.Peers, AttSpec{IP: ip, Port: 49000 + (idx%500)*8 + i})
	}
	if rng.IntN(2) == 0 {
		// a peer of a different subnet: its handlers must not count here
		c.Peers = append(c.Peers, AttSpec{IP: "127.19.6.1", Port: 49000 + (idx%500)*8 + 7})
	}
	nops := 30 + rng.IntN(40)
	for i := 0; i < nops; i++ {
		if rng.IntN(100) < 58 {
			c.Ops = append(c.Ops, PinOp{Enter: true, Peer: rng.IntN(len(c.Peers))})
		} else {
			c.Ops = append(c.Ops, PinOp{Pick: rng.IntN(64)})
		}
	}
	return c
}

func phasePinSeq(r *mon.Run) {
	n := r.Pick(16, 120)
	g := &guard{r: r, phase: "pinseq"}
	for i := 0; i < n; i++ {
		c := genPinSeqCase(r.RNG(0xA400+uint64(i)), i)
		if i < 2 {
			r.Sample(c)
		}
		g.run(func() { runPinSeqCase(r, c) })
	}
	g.done()
}

type pinReq struct {
	tag  limitlab.Tag
	peer int
	res  chan limitlab.ReqResult
}

func runPinSeqCase(r *mon.Run, c PinSeqCase) {
	r.Eval()
	baseline := limitlab.HandlerGoroutines()
	w := limitlab.NewWorld(uint64(r.Seed)<<16 ^ uint64(c.Index) ^ 0xAC<<40)
	opts := []syncer.Option{
		syncer.WithSyncInterval(time.Hour), syncer.WithPeerDiscoveryInterval(time.Hour),
		syncer.WithMaxInflightRPCs(c.PerPeer), syncer.WithMaxInflightRPCsPerSubnet(c.PerSubnet),
	}
	if c.SetPrefix {
		opts = append(opts, syncer.WithInflightRPCSubnetPrefixes(c.V4Bits, 48))
	}
	node, err := w.NewNode(limitlab.NodeConfig{IP: victimIP(120 + c.Index), Opts: opts})
	if err != nil {
		r.Inconclusive("pinseq: cannot build node: " + err.Error())
		return
	}
	node.CM.SetLimits(c.PerPeer, c.PerSubnet)
	node.Start()
	var atts []*limitlab.Attacker
	var outstanding []*pinReq
	defer func() {
		node.CM.G.Open()
		deadline := time.After(hangBound)
		for _, q := range outstanding {
			select {
			case <-q.res:
			case <-deadline:
			}
		}
		for _, a := range atts {
			a.Close()
		}
		closeNode(r, "limit", node, c)
	}()
	subOf := make([]string, len(c.Peers))
	for i, sp := range c.Peers {
		subOf[i] = limitlab.SubnetKey(sp.IP, c.V4Bits)
		node.CM.RegisterPeer(uint32(i+1), subOf[i])
		a, err := w.DialAttacker(uint32(i+1), node.Addr, sp.IP, sp.Port, nil)
		if err != nil {
			r.Inconclusive("pinseq: attacker could not connect: " + err.Error())
			return
		}
		a.Serve()
		atts = append(atts, a)
		if err := a.Ping(settleBound); err != nil {
			r.Inconclusive("pinseq: ping failed: " + err.Error())
			return
		}
	}
	if !limitlab.WaitHandlersAtMost(baseline, settleBound) {
		r.Inconclusive("pinseq: ping handlers did not drain")
		return
	}
	node.CM.G.Shut()
	L, B := c.PerPeer, c.PerSubnet

	// the harness' own model
	live := make([][]*pinReq, len(c.Peers)) // pinned handlers per peer
	queued := make([]*pinReq, len(c.Peers)) // at most one request waiting for a per-peer slot
	liveSub := map[string]int{}
	leftSub := map[string]int{} // handler completions seen per subnet
	total := 0
	var seq uint32
	var history []string
	vcase := func(step int) map[string]any {
		return map[string]any{"phase": "pinseq", "case": c, "step": step}
	}
	detail := func() map[string]any {
		o := node.CM.Observed()
		return map[string]any{"history": history, "modelLivePerSubnet": liveSub, "proxyLivePerSubnet": o.CurSubnet, "proxyLivePerPeer": o.CurPeer}
	}
	send := func(p int) *pinReq {
		seq++
		q := &pinReq{tag: limitlab.Tag{Peer: uint32(p + 1), Burst: seq}, peer: p, res: make(chan limitlab.ReqResult, 1)}
		go func() {
			q.res <- atts[p].Burst(seq2(q.tag), []limitlab.ReqPlan{{Kind: int(q.tag.Burst)}}, 3*time.Minute, nil)[0]
		}()
		outstanding = append(outstanding, q)
		r.Count("pinseq.requests_sent", 1)
		return q
	}
	// await reports whether the request reached a handler (entered) or came
	// back (rr != nil) first; neither within the bound = timeout
	await := func(q *pinReq) (entered bool, rr *limitlab.ReqResult) {
		deadline := time.Now().Add(livenessBound)
		for time.Now().Before(deadline) {
			if node.CM.WasEntered(q.tag) {
				return true, nil
			}
			select {
			case res := <-q.res:
				q.res <- res
				if node.CM.WasEntered(q.tag) {
					return true, nil
				}
				return false, &res
			case <-time.After(200 * time.Microsecond):
			}
		}
		return false, nil
	}
	// admit evaluates a request that now has a per-peer slot
	admit := func(step int, q *pinReq, afterRelease bool) bool {
		s := subOf[q.peer]
		entered, rr := await(q)
		full := B > 0 && liveSub[s] >= B
		switch {
		case full && entered:
			r.Violation("subnet-cap-exceeded-after-release", fmt.Sprintf("step %d: a request was admitted although %d handlers of subnet %s are still running (MaxInflightRPCsPerSubnet=%d; %d handlers of that subnet had completed before)", step, liveSub[s], s, B, leftSub[s]), vcase(step), detail())
			return false
		case full && rr != nil:
			r.Count("pinseq.drops_at_cap", 1)
			history = append(history, fmt.Sprintf("%d:drop(p%d)", step, q.peer))
			return true
		case !full && entered:
			live[q.peer] = append(live[q.peer], q)
			liveSub[s]++
			total++
			history = append(history, fmt.Sprintf("%d:in(p%d)", step, q.peer))
			if leftSub[s] > 0 && B > 0 && liveSub[s] == B {
				r.Count("pinseq.slot_reuse_after_release", 1)
			}
			r.Count("pinseq.handlers_pinned", 1)
			return true
		case !full && rr != nil:
			r.Violation("dropped-below-subnet-cap", fmt.Sprintf("step %d: a request was dropped (%s) although only %d handlers of subnet %s are running (MaxInflightRPCsPerSubnet=%d, per-peer %d of %d in use)", step, rr.Err, liveSub[s], s, B, len(live[q.peer]), L), vcase(step), detail())
			return false
		default:
			sig := "slot-leak:pinned-sequence"
			if afterRelease {
				sig = "slot-leak:per-peer-after-release"
			}
			r.Violation(sig, fmt.Sprintf("step %d: a request that has a free per-peer slot (%d of %d in use) was neither admitted nor dropped within 30 s", step, len(live[q.peer]), L), vcase(step), detail())
			return false
		}
	}
	checkExcess := func(step int) bool {
		if o := node.CM.Observed(); len(o.Excess) > 0 {
			x := o.Excess[0]
			sig := "subnet-cap-exceeded-after-release"
			if x.Kind == "peer" {
				sig = "peer-limit-exceeded-after-release"
			}
			r.Violation(sig, fmt.Sprintf("step %d: %d handlers ran concurrently for %s %s, limit %d", step, x.Observed, x.Kind, x.Key, x.Limit), vcase(step), detail())
			return false
		}
		return true
	}

	for step, op := range c.Ops {
		r.Count("pinseq.ops", 1)
		if op.Enter && (queued[op.Peer] != nil) {
			op = PinOp{Pick: step} // that connection is back-pressured already
		}
		if !op.Enter && total == 0 {
			op = PinOp{Enter: true, Peer: step % len(c.Peers)}
		}
		if op.Enter {
			p := op.Peer
			q := send(p)
			if len(live[p]) >= L {
				// back-pressure: the request has to wait for a per-peer slot
				queued[p] = q
				history = append(history, fmt.Sprintf("%d:queue(p%d)", step, p))
				r.Count("pinseq.requests_backpressured", 1)
			} else if !admit(step, q, false) {
				return
			}
		} else {
			// pick a live handler
			k := op.Pick % total
			p := 0
			for ; k >= len(live[p]); p++ {
				k -= len(live[p])
			}
			h := live[p][k]
			s := subOf[p]
			// the proxy books a handler as entered a moment before it parks it
			released := false
			for dl := time.Now().Add(settleBound); !released && time.Now().Before(dl); {
				if released = node.CM.ReleaseTag(h.tag); !released {
					time.Sleep(100 * time.Microsecond)
				}
			}
			if !released {
				r.Inconclusive("pinseq: a pinned handler was not parked")
				return
			}
			select {
			case rr := <-h.res:
				h.res <- rr
				if !rr.OK {
					r.Violation("request-dropped-after-admission", fmt.Sprintf("step %d: a request whose handler had been admitted and was released individually was not answered: %s", step, rr.Err), vcase(step), detail())
					return
				}
			case <-time.After(livenessBound):
				r.Violation("slot-leak:pinned-sequence", fmt.Sprintf("step %d: a released handler did not answer within 30 s", step), vcase(step), detail())
				return
			}
			live[p] = append(live[p][:k], live[p][k+1:]...)
			liveSub[s]--
			leftSub[s]++
			total--
			history = append(history, fmt.Sprintf("%d:out(p%d)", step, p))
			r.Count("pinseq.handlers_released_individually", 1)
			if liveSub[s] >= 1 {
				r.Count("pinseq.leave_with_others_running", 1)
			}
			// the request waiting for this connection's slot moves up
			if q := queued[p]; q != nil && len(live[p]) < L {
				queued[p] = nil
				if !admit(step, q, true) {
					return
				}
				r.Count("pinseq.backpressured_requests_admitted_after_release", 1)
			}
			// the released handler has really ended (slots returned) before
			// the next step is judged
			if !limitlab.WaitHandlersAtMost(baseline+total, settleBound) {
				r.Inconclusive("pinseq: a released handler did not end")
				return
			}
		}
		if !checkExcess(step) {
			return
		}
	}
	r.Count("pinseq.cases_completed", 1)
	r.SetAdd("pinseq.configurations", fmt.Sprintf("L%d/B%d/peers%d/bits%d", L, B, len(c.Peers), c.V4Bits))
	r.Distinct(fmt.Sprintf("pinseq/L%d/B%d/peers%d/bits%d/ops%d", L, B, len(c.Peers), c.V4Bits, len(c.Ops)))
}

// seq2 maps a tag to the burst id Attacker.Burst expects (the request index
// inside the single-request burst is 0).
func seq2(t limitlab.Tag) uint32 { return t.Burst }
