package limits

import (
	"fmt"
	"math/rand/v2"
	"runtime"
	"strings"
	"time"

	"verif/harness/lab/limitlab"
	"verif/harness/mon"
)

// WalletCase: SingleAddressWallet.Close vs. its rebroadcast goroutine.
type WalletCase struct {
	Phase      string `json:"phase"`
	Index      int    `json:"index"`
	DebounceUs int    `json:"debounceUs"`
	Moment     string `json:"moment"`     // immediate | idle | parked | running
	ParkAfter  int    `json:"parkAfter"`  // parked: how many proxied calls pass before the gate shuts (selects the interface the goroutine is parked in)
	GateHoldUs int    `json:"gateHoldUs"` // parked: released this long after Close was called
	HoldUs     int    `json:"holdUs"`
	Reorgs     int    `json:"reorgs"`
	Double     bool   `json:"doubleClose"`
	KeySeed    uint64 `json:"keySeed"`
}

func genWalletCase(rng *rand.Rand, idx int) WalletCase {
	c := WalletCase{Phase: "wallet", Index: idx, KeySeed: rng.Uint64()}
	c.DebounceUs = pick(rng, 200, 1000, 3000)
	c.Moment = []string{"parked", "immediate", "parked", "running", "parked", "idle"}[idx%6]
	c.ParkAfter = rng.IntN(4)
	c.GateHoldUs = rng.IntN(1 + pick(rng, 0, 1000, 15000))
	c.HoldUs = rng.IntN(1 + pick(rng, 0, 300, 4000))
	c.Reorgs = 1 + rng.IntN(4)
	c.Double = rng.IntN(4) == 0
	return c
}

func phaseWallet(r *mon.Run) {
	g := &guard{r: r, phase: "wallet"}
	n := r.Pick(40, 300)
	for i := 0; i < n; i++ {
		c := genWalletCase(r.RNG(0xF000+uint64(i)), i)
		if i == 0 {
			r.Sample(c)
		}
		g.run(func() { runWalletCase(r, c) })
	}
	g.done()
}

func walletOnly(g limitlab.Goroutine) bool { return !g.Has("coreutils/wallet.") }

func runWalletCase(r *mon.Run, c WalletCase) {
	r.Eval()
	w := limitlab.NewWorld(uint64(r.Seed)<<16 ^ uint64(c.Index) ^ 0x1F<<40)
	rig, err := w.NewWalletRig(keyFrom(c.KeySeed), us(c.DebounceUs))
	if err != nil {
		r.Inconclusive("wallet: cannot create wallet: " + err.Error())
		return
	}
	defer rig.G.Open()
	vcase := map[string]any{"phase": "wallet", "case": c}
	parked := 0
	switch c.Moment {
	case "immediate":
		// Close races the start of the background goroutine
	case "idle":
		time.Sleep(us(c.HoldUs))
	case "running":
		for i := 0; i < c.Reorgs; i++ {
			if err := rig.Reorg(); err != nil {
				r.Inconclusive("wallet: mining failed: " + err.Error())
				return
			}
			time.Sleep(us(c.HoldUs))
		}
	case "parked":
		// let ParkAfter proxied calls of the next round pass, then shut the
		// gate: the goroutine parks in store -> manager -> manager -> syncer
		base := rig.G.Snap().Entries
		rig.G.WaitFor(settleBound, func(s limitlab.GateSnapshot) bool { return s.Inflight == 0 })
		rig.Arm()
		if c.ParkAfter == 0 {
			rig.G.Shut()
		}
		if err := rig.Reorg(); err != nil {
			r.Inconclusive("wallet: mining failed: " + err.Error())
			return
		}
		if c.ParkAfter > 0 {
			// the gate is shut as soon as ParkAfter further calls were seen;
			// the goroutine may slip through, then it parks in the next round
			rig.G.WaitFor(settleBound, func(s limitlab.GateSnapshot) bool { return s.Entries >= base+int64(c.ParkAfter) })
			rig.G.Shut()
			rig.Reorg()
		}
		if !rig.G.WaitFor(settleBound, func(s limitlab.GateSnapshot) bool { return s.Parked >= 1 }) {
			r.Inconclusive("wallet: the rebroadcast goroutine did not park")
			return
		}
		parked = 1
		time.Sleep(us(c.HoldUs))
	}

	r.Count("wallet.coreutils_goroutines_before_close", len(limitlab.Inventory(walletOnly)))
	p := bounded(func() { rig.W.Close() })
	var p2 *pending
	if c.Double {
		p2 = bounded(func() { rig.W.Close() })
	}
	if parked > 0 {
		time.Sleep(us(c.GateHoldUs))
		if p.returned() && rig.G.Snap().Parked > 0 {
			r.Violation("wallet-close-returned-before-goroutine-done", "SingleAddressWallet.Close returned while its rebroadcast goroutine was still inside a store/manager/syncer call", vcase, rig.G.Labels())
			return
		}
		rig.G.Open()
	}
	if !p.wait(livenessBound) || (p2 != nil && !p2.wait(livenessBound)) {
		r.Violation("wallet-close-timeout", "SingleAddressWallet.Close did not return within 30 s after the rebroadcast goroutine had been released", vcase, limitlab.Keys(limitlab.Inventory(walletOnly)))
		return
	}
	countLatency(r, "wallet", p.latency())
	if m := rig.G.Mark(); m != 0 {
		sig := "wallet-close-returned-before-goroutine-done"
		if exitPathOnly(rig.G.MarkLabels()) {
			// the goroutine never joined the thread group: it is on its way
			// out (log entry, unsubscribe) while Close has already returned
			sig = "wallet-goroutine-runs-after-close"
		}
		r.Violation(sig, fmt.Sprintf("SingleAddressWallet.Close returned while %d calls of its rebroadcast goroutine were still in progress", m), vcase, rig.G.MarkLabels())
		return
	}
	if pan := p.panicked(); pan != nil {
		r.Violation("wallet-close-panicked", fmt.Sprint(pan), vcase, nil)
		return
	}
	r.Count("wallet.closed_with_goroutine_parked", parked)
	for k, v := range rig.G.Labels() {
		r.SetAdd("wallet.proxied_methods", k)
		r.Count("wallet.proxy_calls", int(v))
	}

	// no rebroadcast round starts after Close: provoke it with reorgs and give
	// it many debounce intervals
	for i := 0; i < 2; i++ {
		if err := rig.Reorg(); err != nil {
			r.Inconclusive("wallet: mining failed: " + err.Error())
			return
		}
	}
	time.Sleep(20*us(c.DebounceUs) + 5*time.Millisecond)
	if am := rig.G.Snap().AfterMark; len(am) > 0 {
		sig := "wallet-goroutine-runs-after-close"
		if !exitPathOnly(am) {
			// more than the goroutine's exit path: real work
			sig = "wallet-background-work-after-close"
		}
		r.Violation(sig, fmt.Sprintf("%d store/manager/syncer/logger calls were made by the wallet after Close had returned", len(am)), vcase, am)
		return
	}
	inv, ok := limitlab.Settle(settleBound/3, walletOnly, func(g []limitlab.Goroutine) bool { return len(g) == 0 })
	r.Count("wallet.coreutils_goroutines_after_close", len(inv))
	if !ok {
		r.Violation("goroutine-left-behind:wallet", "wallet goroutines are still alive after Close returned", vcase, limitlab.Keys(inv))
		return
	}
	if parked > 0 || c.Moment == "immediate" || c.Moment == "running" {
		r.Distinct(fmt.Sprintf("wallet/%s/after%d/debounce%d/double%v", c.Moment, c.ParkAfter, c.DebounceUs, c.Double))
	}
}

// WalletImmediateCase closes wallets right after constructing them: the
// rebroadcast goroutine may not even have been scheduled yet.
type WalletImmediateCase struct {
	Phase      string `json:"phase"`
	Index      int    `json:"index"`
	Iterations int    `json:"iterations"`
	// Perturb selects what happens between construction and Close:
	// 0 nothing, 1 runtime.Gosched, 2 GOMAXPROCS(1) around construction+Close
	Perturb int    `json:"perturb"`
	KeySeed uint64 `json:"keySeed"`
}

func phaseWalletImmediate(r *mon.Run) {
	for p := 0; p < 3; p++ {
		c := WalletImmediateCase{Phase: "wallet-immediate", Index: p, Iterations: r.Pick(150, 500), Perturb: p, KeySeed: r.RNG(0xF800 + uint64(p)).Uint64()}
		if p == 0 {
			r.Sample(c)
		}
		runWalletImmediate(r, c)
	}
}

func runWalletImmediate(r *mon.Run, c WalletImmediateCase) {
	r.Eval()
	w := limitlab.NewWorld(uint64(r.Seed)<<16 ^ uint64(c.Index) ^ 0x2F<<40)
	late := 0
	var first any
	for i := 0; i < c.Iterations; i++ {
		var rig *limitlab.WalletRig
		var err error
		var p *pending
		build := func() {
			rig, err = w.NewWalletRig(keyFrom(c.KeySeed+uint64(i)), 500*time.Microsecond)
			if err != nil {
				return
			}
			if c.Perturb == 1 {
				runtime.Gosched()
			}
			p = bounded(func() { rig.W.Close() })
		}
		if c.Perturb == 2 {
			old := runtime.GOMAXPROCS(1)
			build()
			runtime.GOMAXPROCS(old)
		} else {
			build()
		}
		if err != nil {
			r.Inconclusive("wallet: cannot create wallet: " + err.Error())
			return
		}
		if !p.wait(livenessBound) {
			r.Violation("wallet-close-timeout", "SingleAddressWallet.Close right after construction did not return within 30 s", c, limitlab.Keys(limitlab.Inventory(walletOnly)))
			return
		}
		countLatency(r, "wallet", p.latency())
		r.Count("wallet.immediate_closes", 1)
		lateNow := false
		if m := rig.G.Mark(); m != 0 {
			if !exitPathOnly(rig.G.MarkLabels()) {
				r.Violation("wallet-close-returned-before-goroutine-done", fmt.Sprintf("SingleAddressWallet.Close returned while %d calls of the wallet were still in progress", m), c, rig.G.MarkLabels())
				return
			}
			lateNow = true
			if first == nil {
				first = map[string]any{"iteration": i, "inProgressWhenCloseReturned": rig.G.MarkLabels()}
			}
		}
		// the goroutine (if it is still to run) ends by itself; whatever it
		// does from now on happens after Close returned
		if _, ok := limitlab.Settle(settleBound, walletOnly, func(g []limitlab.Goroutine) bool { return len(g) == 0 }); !ok {
			r.Violation("goroutine-left-behind:wallet", "wallet goroutines are still alive after Close returned", c, limitlab.Keys(limitlab.Inventory(walletOnly)))
			return
		}
		if am := rig.G.Snap().AfterMark; len(am) > 0 {
			if !exitPathOnly(am) {
				r.Violation("wallet-background-work-after-close", "the wallet called into its store/manager/syncer after Close had returned", c, am)
				return
			}
			lateNow = true
			if first == nil {
				first = map[string]any{"iteration": i, "activityAfterCloseReturned": am}
			}
		}
		if lateNow {
			late++
		}
	}
	r.Count("wallet.immediate_close_goroutine_ran_after_close", late)
	r.Distinct(fmt.Sprintf("wallet-immediate/perturb%d", c.Perturb))
	if late > 0 {
		r.Violation("wallet-goroutine-runs-after-close", fmt.Sprintf("in %d of %d iterations the wallet's rebroadcast goroutine ran after Close had returned (it registers with the thread group only once it is scheduled; it then logs and calls the OnReorg unsubscribe function)", late, c.Iterations), c, first)
	}
}

// exitPathOnly reports whether the labels are only what the rebroadcast
// goroutine does on its way out (log entries, the OnReorg unsubscribe).
func exitPathOnly(labels []string) bool {
	for _, l := range labels {
		if l != "cm.OnReorg-unsubscribe" && !strings.HasPrefix(l, "log:") {
			return false
		}
	}
	return true
}
