package limits

import (
	"fmt"
	"sync"
	"time"

	"go.sia.tech/coreutils/syncer"
	"verif/harness/lab/limitlab"
	"verif/harness/mon"
)

// DeadlockCase is one of the two dedicated Close-deadlock scenarios.
//
//	duplicate-netaddress: Dups peers connect from one address and announce the
//	  same dial-back port, so they share one key of the peer map;
//	backpressured-peer-not-closed: a peer has MaxInflightRPCs handlers waiting
//	  for their request bodies and one more stream waiting for a slot; on
//	  shutdown its peer loop leaves through the thread group's Done channel
//	  (removing the peer from the map) before Run - descheduled for LingerUs in
//	  its own listener Close - gets to close the peers it finds in the map;
//	late-inbound-peer: a peer finishes its handshake after the listener was
//	  closed (Run has already closed the existing peers) but before the thread
//	  group is stopped - the closing goroutine is descheduled for LingerUs
//	  between the two steps of Close.
type DeadlockCase struct {
	Phase    string `json:"phase"`
	Kind     string `json:"kind"`
	Index    int    `json:"index"`
	Dups     int    `json:"dups"`
	LingerUs int    `json:"lingerUs"`
	ShakeUs  int    `json:"shakeUs"`
	// RPCTimeoutMs (backpressured-peer-not-closed only): the stuck Close comes
	// back once the handlers' stream deadline expires; the default of 5 minutes
	// is shortened so that the process can clean up after the finding.
	RPCTimeoutMs int `json:"rpcTimeoutMs,omitempty"`
}

func deadlockCases(r *mon.Run) []DeadlockCase {
	cs := []DeadlockCase{
		{Phase: "deadlock", Kind: "duplicate-netaddress", Index: 0, Dups: 2},
		{Phase: "deadlock", Kind: "late-inbound-peer", Index: 1, LingerUs: 150000, ShakeUs: 10000},
		{Phase: "deadlock", Kind: "backpressured-peer-not-closed", Index: 4, LingerUs: 20000, RPCTimeoutMs: 40000},
	}
	if r.Thorough() {
		rng := r.RNG(0xD000)
		cs = append(cs,
			DeadlockCase{Phase: "deadlock", Kind: "duplicate-netaddress", Index: 2, Dups: 3 + rng.IntN(4)},
			DeadlockCase{Phase: "deadlock", Kind: "late-inbound-peer", Index: 3, LingerUs: 20000 + rng.IntN(30000), ShakeUs: 1000 + rng.IntN(4000)},
		)
	}
	return cs
}

// startDeadlockScenarios sets the scenarios up, calls Close in each of them
// and returns; the returned function waits for the watchdogs and evaluates.
// Meanwhile the other phases run: a Close that hangs hides nothing.
func startDeadlockScenarios(r *mon.Run) (join func()) {
	var joins []func()
	for _, c := range deadlockCases(r) {
		r.Sample(c)
		joins = append(joins, runDeadlockCase(r, c))
	}
	return func() {
		for _, j := range joins {
			j()
		}
	}
}

func runDeadlockCase(r *mon.Run, c DeadlockCase) (join func()) {
	r.Eval()
	nop := func() {}
	w := limitlab.NewWorld(uint64(r.Seed)<<16 ^ uint64(c.Index) ^ 0xE<<40)
	cfg := limitlab.NodeConfig{IP: victimIP(200 + c.Index), Opts: []syncer.Option{
		syncer.WithSyncInterval(time.Hour), syncer.WithPeerDiscoveryInterval(time.Hour), syncer.WithConnectTimeout(20 * time.Second),
	}}
	if c.LingerUs > 0 && c.Kind == "late-inbound-peer" {
		cfg.Linger = func() time.Duration { return us(c.LingerUs) }
	}
	if c.Kind == "backpressured-peer-not-closed" {
		cfg.LingerRun = func() time.Duration { return us(c.LingerUs) }
		cfg.Opts = append(cfg.Opts, syncer.WithMaxInflightRPCs(1), syncer.WithMaxInflightRPCsPerSubnet(0), syncer.WithRPCTimeout(time.Duration(c.RPCTimeoutMs)*time.Millisecond))
	}
	node, err := w.NewNode(cfg)
	if err != nil {
		r.Inconclusive("deadlock: cannot build node: " + err.Error())
		return nop
	}
	node.Start()
	var mu sync.Mutex
	var atts []*limitlab.Attacker
	releaseHalfOpen := func() {}
	var hangOnce sync.Once
	hangUp := func() {
		hangOnce.Do(func() {
			releaseHalfOpen()
			mu.Lock()
			defer mu.Unlock()
			for _, a := range atts {
				a.Close()
			}
		})
	}
	detail := map[string]any{}
	var late sync.WaitGroup

	switch c.Kind {
	case "duplicate-netaddress":
		for i := 0; i < c.Dups; i++ {
			a, err := w.DialAttacker(uint32(i+1), node.Addr, "127.18.7.7", 45000, nil)
			if err != nil {
				// a repaired tree may turn the second peer away: that is fine
				detail[fmt.Sprintf("peer%d", i)] = "refused: " + err.Error()
				continue
			}
			a.Serve()
			atts = append(atts, a)
			if err := a.Ping(settleBound); err != nil {
				detail[fmt.Sprintf("peer%d", i)] = "not served: " + err.Error()
			} else {
				detail[fmt.Sprintf("peer%d", i)] = "connected and served"
				r.Count("deadlock.duplicate_address_peers_served", 1)
			}
		}
		detail["peersListed"] = len(node.S.Peers())
		r.Distinct(fmt.Sprintf("deadlock/duplicate-netaddress/%d", c.Dups))
	case "late-inbound-peer":
		late.Add(1)
		go func() {
			defer late.Done()
			a, err := w.DialAttacker(1, node.Addr, "127.18.7.8", 45001, func() {
				select {
				case <-node.L.InnerClosed:
				case <-time.After(settleBound):
				}
				time.Sleep(us(c.ShakeUs))
			})
			mu.Lock()
			defer mu.Unlock()
			if err != nil {
				detail["latePeer"] = "refused: " + err.Error()
				return
			}
			detail["latePeer"] = "handshake completed after the listener was closed"
			atts = append(atts, a)
		}()
		if !node.PS.WaitBanned(1, settleBound) {
			r.Inconclusive("deadlock: the late peer was never seen by the admission check")
			hangUp()
			closeNode(r, "deadlock", node, c)
			return nop
		}
		r.Distinct("deadlock/late-inbound-peer")
	case "backpressured-peer-not-closed":
		a, err := w.DialAttacker(1, node.Addr, "127.18.7.9", 45002, nil)
		if err != nil {
			r.Inconclusive("deadlock: attacker could not connect: " + err.Error())
			closeNode(r, "deadlock", node, c)
			return nop
		}
		a.Serve()
		atts = append(atts, a)
		if err := a.Ping(settleBound); err != nil {
			r.Inconclusive("deadlock: attacker ping failed: " + err.Error())
			hangUp()
			closeNode(r, "deadlock", node, c)
			return nop
		}
		// three streams that carry only their RPC id: the first occupies the
		// single slot (its handler waits for the request body), the second is
		// accepted and waits for the slot, the third cannot be accepted and
		// keeps the multiplexer's read loop waiting (so that closing the
		// socket alone goes unnoticed)
		release := make(chan struct{})
		late.Add(1)
		go func() {
			defer late.Done()
			a.Burst(1, []limitlab.ReqPlan{{Kind: 0, HalfOpen: true}, {Kind: 1, HalfOpen: true}, {Kind: 2, HalfOpen: true}}, 10*time.Minute, release)
		}()
		releaseHalfOpen = func() { close(release) }
		deadline := time.Now().Add(settleBound)
		for limitlab.BackpressuredPeerLoops() == 0 {
			if time.Now().After(deadline) {
				r.Inconclusive("deadlock: the peer loop never became back-pressured")
				hangUp()
				closeNode(r, "deadlock", node, c)
				return nop
			}
			time.Sleep(time.Millisecond)
		}
		time.Sleep(30 * time.Millisecond) // let the third id frame arrive
		detail["state"] = "one handler waits for its request body, the peer loop waits for a free slot, a third stream waits to be accepted"
		r.Distinct("deadlock/backpressured-peer-not-closed")
	default:
		r.Inconclusive("deadlock: unknown kind " + c.Kind)
		return nop
	}

	p := bounded(func() { node.S.Close() })
	return func() {
		defer late.Wait()
		defer hangUp()
		if c.Kind == "late-inbound-peer" {
			late.Wait()
		}
		if p.waitSinceStart(livenessBound) && p.latency() <= livenessBound {
			countLatency(r, "deadlock", p.latency())
			r.Count("deadlock.close_returned_in_time", 1)
			if !node.WaitRun(livenessBound) {
				r.Violation("run-outlives-close", "Run had not returned 30 s after Close returned", c, limitlab.Keys(limitlab.Inventory(nil)))
			}
			return
		}
		inv := limitlab.Inventory(nil)
		mu.Lock()
		detail["goroutines"] = limitlab.Keys(inv)
		detail["peersListedWhileStuck"] = len(node.S.Peers())
		mu.Unlock()
		r.Count("deadlock.close_stuck_30s", 1)
		sig, what := "close-deadlock-"+c.Kind, "Syncer.Close did not return within 30 s: a connected peer is no longer (or not yet) reachable through the peer map, nobody closes it, and the thread group waits for its RPC loop forever"
		if c.Kind == "backpressured-peer-not-closed" {
			sig, what = "close-waits-for-rpc-timeout:backpressured-peer-not-closed", "Syncer.Close did not return within 30 s: the peer loop of a back-pressured peer left through the thread group's Done channel without closing the transport, Run no longer found the peer in the map, and the peer's handlers keep waiting for their request bodies until the RPC timeout (default 5 minutes)"
		}
		r.Violation(sig, what, c, detail)
		// every remote end hangs up; the stuck Close must then come back
		hangUp()
		if c.Kind == "backpressured-peer-not-closed" {
			// hanging up goes unnoticed (the multiplexer is not reading); the
			// handlers give up when their stream deadline expires
			if p.waitSinceStart(time.Duration(c.RPCTimeoutMs)*time.Millisecond + livenessBound) {
				r.Count("deadlock.close_returned_after_rpc_timeout", 1)
				node.WaitRun(livenessBound)
			} else {
				r.Inconclusive("deadlock: Close still stuck after the RPC timeout")
			}
			return
		}
		if p.wait(livenessBound) {
			r.Count("deadlock.close_returned_after_peers_hung_up", 1)
			node.WaitRun(livenessBound)
		} else {
			r.Inconclusive("deadlock: Close still stuck after every peer hung up")
		}
	}
}
