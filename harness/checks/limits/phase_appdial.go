package limits

import (
	"context"
	"fmt"
	"time"

	"go.sia.tech/coreutils/syncer"
	"verif/harness/lab/limitlab"
	"verif/harness/mon"
)

// AppDialCase: Close while a dial is in flight. The dialer installed through
// WithDialer hangs until its context is cancelled.
//
//	application: Connects concurrent Syncer.Connect(context.Background(), addr)
//	  calls of the application - a context the caller never cancels;
//	peer-loop:   the syncer's own peer loop connects to a stored candidate
//	  (control).
type AppDialCase struct {
	Phase    string `json:"phase"`
	Index    int    `json:"index"`
	Origin   string `json:"origin"`
	Connects int    `json:"connects"`
	HoldUs   int    `json:"holdUs"`
	Double   bool   `json:"doubleClose"`
}

func phaseAppDial(r *mon.Run) {
	g := &guard{r: r, phase: "appdial"}
	n := r.Pick(12, 80)
	for i := 0; i < n; i++ {
		rng := r.RNG(0xC600 + uint64(i))
		c := AppDialCase{Phase: "app-dial", Index: i, Origin: "application", Connects: 1 + rng.IntN(3), HoldUs: rng.IntN(1 + pick(rng, 0, 500, 5000, 30000)), Double: rng.IntN(4) == 0}
		if i%4 == 3 {
			c.Origin, c.Connects = "peer-loop", 1
		}
		if i == 0 {
			r.Sample(c)
		}
		g.run(func() { runAppDialCase(r, c) })
	}
	g.done()
}

func runAppDialCase(r *mon.Run, c AppDialCase) {
	r.Eval()
	w := limitlab.NewWorld(uint64(r.Seed)<<16 ^ uint64(c.Index) ^ 0xCE<<40)
	opts := []syncer.Option{syncer.WithSyncInterval(time.Hour), syncer.WithPeerDiscoveryInterval(time.Hour), syncer.WithConnectTimeout(10 * time.Minute)}
	if c.Origin == "peer-loop" {
		opts[1] = syncer.WithPeerDiscoveryInterval(5 * time.Millisecond)
	}
	node, err := w.NewNode(limitlab.NodeConfig{IP: victimIP(30 + c.Index), Opts: opts})
	if err != nil {
		r.Inconclusive("appdial: cannot build node: " + err.Error())
		return
	}
	node.D.Hang()
	defer node.D.LetFail()
	if c.Origin == "peer-loop" {
		node.PS.Seed("127.0.19.77:9")
	}
	node.Start()

	type connRes struct {
		p   *syncer.Peer
		err error
	}
	var results []chan connRes
	var pend []*pending
	if c.Origin == "application" {
		for i := 0; i < c.Connects; i++ {
			ch := make(chan connRes, 1)
			addr := fmt.Sprintf("127.0.19.%d:9", 60+i)
			// the application never cancels this context
			pend = append(pend, bounded(func() {
				p, err := node.S.Connect(context.Background(), addr)
				ch <- connRes{p, err}
			}))
			results = append(results, ch)
		}
	}
	// verdict only when the dials are observably in flight
	for dl := time.Now().Add(settleBound); node.D.Hanging() < int64(c.Connects); {
		if time.Now().After(dl) {
			r.Inconclusive(fmt.Sprintf("appdial: only %d of %d dials are in flight", node.D.Hanging(), c.Connects))
			node.D.LetFail()
			closeNode(r, "appdial", node, c)
			return
		}
		time.Sleep(200 * time.Microsecond)
	}
	time.Sleep(us(c.HoldUs))
	inFlight := int(node.D.Hanging())
	r.Count("appdial.dials_in_flight_at_close", inFlight)

	p := bounded(func() { node.S.Close() })
	var p2 *pending
	if c.Double {
		p2 = bounded(func() { node.S.Close() })
	}
	if !p.wait(livenessBound) || (p2 != nil && !p2.wait(livenessBound)) {
		seen := node.D.Cancelled()
		inv := limitlab.Stacks(limitlab.Inventory(nil), 8)
		if seen == 0 {
			r.Violation("close-blocked-by-in-flight-dial:"+c.Origin, fmt.Sprintf("Syncer.Close did not return within 30 s while %d %s dial(s) were in flight, and none of the dials saw its context cancelled: Connect holds a thread-group slot but dials with a context that shutdown does not cancel", inFlight, c.Origin), c, inv)
		} else {
			r.Inconclusive(fmt.Sprintf("appdial: Close did not return within 30 s although %d of %d dials saw their context cancelled", seen, inFlight))
		}
		// let the stuck syncer go
		node.D.LetFail()
		if !p.wait(livenessBound) {
			r.Inconclusive("appdial: Close still stuck after the hanging dials failed")
		}
		node.WaitRun(livenessBound)
		return
	}
	countLatency(r, "appdial", p.latency())
	if c.Origin == "application" {
		r.Count("appdial.closes_with_application_dial_in_flight", 1)
	} else {
		r.Count("appdial.closes_with_peer_loop_dial_in_flight", 1)
	}
	r.Count("appdial.dials_cancelled_by_close", int(node.D.Cancelled()))
	if !node.WaitRun(livenessBound) {
		r.Violation("run-outlives-close", "Run had not returned 30 s after Close returned", c, limitlab.Keys(limitlab.Inventory(nil)))
		return
	}
	for i, cp := range pend {
		if !cp.wait(livenessBound) {
			r.Violation("connect-outlives-close", "a Connect call whose dial was in flight when Close was called had not returned 30 s after Close returned", c, limitlab.Keys(limitlab.Inventory(nil)))
			return
		}
		res := <-results[i]
		if res.err == nil {
			r.Violation("connect-accepted-after-close", "a Connect call whose dial was cut by Close returned a peer instead of an error", c, fmt.Sprint(res.p))
			return
		}
		r.Count("appdial.connects_returned_error", 1)
	}
	if inv, ok := limitlab.Settle(settleBound, nil, func(g []limitlab.Goroutine) bool { return len(g) == 0 }); !ok {
		r.Violation("goroutine-left-behind:syncer", "goroutines with a syncer frame are still alive after Close returned", c, limitlab.Keys(inv))
		return
	}
	r.Distinct(fmt.Sprintf("app-dial/%s/n%d/double%v", c.Origin, c.Connects, c.Double))
}
