package limits

import (
	"context"
	"fmt"
	"time"

	"go.sia.tech/coreutils/syncer"
	"verif/harness/lab/limitlab"
	"verif/harness/mon"
)

// OutboundCloseCase: Close with OUTBOUND peers that Run's one-shot "close all
// peers" step never sees. The remote ends are quiet lab peers: they complete
// the handshake, never send anything and never hang up.
//
//	never-run:      Connect succeeds on a syncer whose Run was never started
//	run-failed:     Run is past its close-all step after a fatal error (the
//	                chain manager's History fails), then Connect succeeds
//	listener-closed: same, the fatal error being the listener closed under Run
//	late-handshake: the handshake of a Connect finishes between Run's
//	                close-all step and the stop of the thread group (the
//	                closing goroutine lingers in the listener's Close)
type OutboundCloseCase struct {
	Phase   string `json:"phase"`
	Index   int    `json:"index"`
	Kind    string `json:"kind"`
	Peers   int    `json:"peers"`
	HoldUs  int    `json:"holdUs"`
	ShakeUs int    `json:"shakeUs"`
	Double  bool   `json:"doubleClose"`
}

var outboundKinds = []string{"never-run", "run-failed", "listener-closed", "late-handshake"}

func phaseOutboundClose(r *mon.Run) {
	g := &guard{r: r, phase: "outbound"}
	n := r.Pick(16, 96)
	for i := 0; i < n; i++ {
		rng := r.RNG(0xC700 + uint64(i))
		c := OutboundCloseCase{Phase: "outbound-close", Index: i, Kind: outboundKinds[i%len(outboundKinds)], Peers: 1 + rng.IntN(3), HoldUs: rng.IntN(1 + pick(rng, 0, 500, 5000)), ShakeUs: 1000 + rng.IntN(8000), Double: rng.IntN(4) == 0}
		if i < 2 {
			r.Sample(c)
		}
		g.run(func() { runOutboundCloseCase(r, c) })
	}
	g.done()
}

func runOutboundCloseCase(r *mon.Run, c OutboundCloseCase) {
	r.Eval()
	w := limitlab.NewWorld(uint64(r.Seed)<<16 ^ uint64(c.Index) ^ 0xCF<<40)
	cfg := limitlab.NodeConfig{IP: victimIP(90 + c.Index), Opts: []syncer.Option{
		syncer.WithSyncInterval(time.Hour), syncer.WithPeerDiscoveryInterval(time.Hour), syncer.WithConnectTimeout(60 * time.Second)}}
	if c.Kind == "run-failed" {
		cfg.Opts[0] = syncer.WithSyncInterval(2 * time.Millisecond)
	}
	if c.Kind == "late-handshake" {
		cfg.Linger = func() time.Duration { return 120 * time.Millisecond }
	}
	node, err := w.NewNode(cfg)
	if err != nil {
		r.Inconclusive("outbound: cannot build node: " + err.Error())
		return
	}
	var acs []*limitlab.Acceptor
	defer func() {
		for _, ac := range acs {
			ac.Close()
		}
	}()
	open := func() int {
		n := 0
		for _, ac := range acs {
			n += int(ac.OpenConns())
		}
		return n
	}
	for i := 0; i < c.Peers; i++ {
		var hold func()
		if c.Kind == "late-handshake" {
			hold = func() {
				select {
				case <-node.L.InnerClosed:
				case <-time.After(settleBound):
				}
				time.Sleep(us(c.ShakeUs))
			}
		}
		ac, err := w.NewAcceptor(fmt.Sprintf("127.0.19.%d", 100+(c.Index*3+i)%150), hold)
		if err != nil {
			r.Inconclusive("outbound: cannot listen: " + err.Error())
			return
		}
		acs = append(acs, ac)
	}

	switch c.Kind {
	case "never-run":
		// Run is not started at all
	case "run-failed":
		node.CM.FailHistory()
		node.Start()
	default:
		node.Start()
	}
	if c.Kind == "run-failed" || c.Kind == "listener-closed" {
		if c.Kind == "listener-closed" {
			node.L.Close()
		}
		// Run reacts to the fatal error: it closes the listener (again) and
		// the peers it knows, then waits for its loops
		select {
		case <-node.L.InnerClosed:
		case <-time.After(settleBound):
			r.Inconclusive("outbound: Run did not react to the fatal error")
			node.S.Close()
			return
		}
		time.Sleep(5 * time.Millisecond)
	}

	connect := func(addr string) *pending {
		return bounded(func() {
			ctx, cancel := context.WithTimeout(context.Background(), 2*time.Minute)
			defer cancel()
			node.S.Connect(ctx, addr)
		})
	}
	var conns []*pending
	for _, ac := range acs {
		conns = append(conns, connect(ac.Addr))
	}
	if c.Kind != "late-handshake" {
		for _, cp := range conns {
			if !cp.wait(settleBound) {
				r.Inconclusive("outbound: Connect did not return")
				node.S.Close()
				return
			}
		}
		// the target state: every outbound connection is established, open
		// and idle
		for dl := time.Now().Add(settleBound); open() < c.Peers; {
			if time.Now().After(dl) {
				break
			}
			time.Sleep(200 * time.Microsecond)
		}
		time.Sleep(us(c.HoldUs))
		if open() < c.Peers {
			// Run's close-all step still caught a peer: not the state under test
			r.Count("outbound.cases_without_target_state", 1)
			closeNode(r, "outbound", node, c)
			return
		}
	} else {
		// the dials are done, the handshakes are being held back
		for dl := time.Now().Add(settleBound); node.D.Dials() < int64(c.Peers); {
			if time.Now().After(dl) {
				r.Inconclusive("outbound: the Connect calls did not dial")
				node.S.Close()
				return
			}
			time.Sleep(200 * time.Microsecond)
		}
		time.Sleep(us(c.HoldUs) + 2*time.Millisecond)
	}

	p := bounded(func() { node.S.Close() })
	var p2 *pending
	if c.Double {
		p2 = bounded(func() { node.S.Close() })
	}
	if !p.wait(livenessBound) || (p2 != nil && !p2.wait(livenessBound)) {
		stillOpen := open()
		inv := limitlab.Stacks(limitlab.Inventory(nil), 8)
		if stillOpen > 0 {
			r.Violation("close-deadlock-outbound-peer:"+c.Kind, fmt.Sprintf("Syncer.Close did not return within 30 s: %d outbound peer connection(s) that Run's close-all step never saw are still open and idle, their peer loops hold the thread group", stillOpen), c, inv)
		} else {
			r.Inconclusive("outbound: Close did not return within 30 s although every outbound connection had been closed")
		}
		// the remote ends hang up: the stuck Close must come back
		for _, ac := range acs {
			ac.DropConns()
		}
		if !p.wait(livenessBound) {
			r.Inconclusive("outbound: Close still stuck after every peer hung up")
		}
		return
	}
	countLatency(r, "outbound", p.latency())
	for _, cp := range conns {
		if !cp.wait(livenessBound) {
			r.Violation("connect-outlives-close", "a Connect call had not returned 30 s after Close returned", c, limitlab.Keys(limitlab.Inventory(nil)))
			return
		}
	}
	if !node.WaitRun(livenessBound) {
		r.Violation("run-outlives-close", "Run had not returned 30 s after Close returned", c, limitlab.Keys(limitlab.Inventory(nil)))
		return
	}
	// the connected peers are closed: the quiet remote ends see their
	// connections end without having hung up themselves
	for dl := time.Now().Add(settleBound); open() > 0; {
		if time.Now().After(dl) {
			r.Violation("outbound-peer-still-open-after-close:"+c.Kind, fmt.Sprintf("%d outbound peer connection(s) were still open after Syncer.Close had returned", open()), c, limitlab.Stacks(limitlab.Inventory(nil), 8))
			return
		}
		time.Sleep(time.Millisecond)
	}
	if inv, ok := limitlab.Settle(settleBound, nil, func(g []limitlab.Goroutine) bool { return len(g) == 0 }); !ok {
		r.Violation("goroutine-left-behind:syncer", "goroutines with a syncer frame are still alive after Close returned", c, limitlab.Keys(inv))
		return
	}
	hs := 0
	for _, ac := range acs {
		hs += int(ac.Handshakes())
	}
	r.Count("outbound.peers_connected", hs)
	if c.Kind == "late-handshake" && hs == 0 {
		r.Count("outbound.cases_without_target_state", 1)
		return
	}
	r.Count("outbound.closes_"+c.Kind, 1)
	r.Distinct(fmt.Sprintf("outbound-close/%s/peers%d/double%v", c.Kind, c.Peers, c.Double))
}
