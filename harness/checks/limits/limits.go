// Package limits is the runtime monitor of property C18 "Limits and shutdown
// are honoured under any schedule".
//
// Phases (all case lists are PRNG-determined with fixed counts per tier):
//
//	A  limits     per-peer / per-subnet in-flight limits, back-pressure, slot return
//	B  caps       inbound / outbound peer caps under simultaneous connection attempts
//	C  shutdown   Syncer.Close at PRNG-chosen moments relative to in-flight work
//	D  rhp        rhp.Server.Close with handlers parked in Settings/Contractor/Sectors
//	E  wallet     SingleAddressWallet.Close vs. the rebroadcast goroutine
//	F  tg         ThreadGroup Add/Done/AddContext/WithContext/Stop storm
//	Z  deadlocks  two dedicated Close-deadlock scenarios (run with a watchdog, in
//	              the background of D-F so that a stuck Close hides nothing else)
package limits

import (
	"encoding/json"
	"fmt"
	"os"
	"sync"
	"time"

	"verif/harness/lab/limitlab"
	"verif/harness/mon"
	"verif/harness/vcli"
)

func init() { vcli.Register("C18", "exploration", runC18) }

// livenessBound is the bounded restatement of "Close/Stop returns": the
// unchanged tree needs milliseconds.
const livenessBound = 30 * time.Second

// settleBound bounds waits that are not liveness oracles; missing it makes the
// run inconclusive, never a violation.
const settleBound = 20 * time.Second

// hangBound is the bounded restatement of "every request of a burst is either
// answered or dropped once nothing holds it back any more" (normal: milliseconds).
const hangBound = 60 * time.Second

type pending struct {
	done  chan struct{}
	start time.Time
	mu    sync.Mutex
	lat   time.Duration
	pan   any
}

// bounded runs fn in its own goroutine so that a call that never returns
// cannot take the monitor with it.
func bounded(fn func()) *pending {
	p := &pending{done: make(chan struct{}), start: time.Now()}
	go func() {
		pan := mon.Guard(fn)
		p.mu.Lock()
		p.lat = time.Since(p.start)
		p.pan = pan
		p.mu.Unlock()
		close(p.done)
	}()
	return p
}

func (p *pending) wait(d time.Duration) bool {
	select {
	case <-p.done:
		return true
	default:
	}
	select {
	case <-p.done:
		return true
	case <-time.After(d):
		return false
	}
}

// waitSinceStart waits until d has passed since the call was started.
func (p *pending) waitSinceStart(d time.Duration) bool {
	rem := d - time.Since(p.start)
	if rem < 0 {
		rem = 0
	}
	return p.wait(rem)
}

func (p *pending) returned() bool {
	select {
	case <-p.done:
		return true
	default:
		return false
	}
}

func (p *pending) latency() time.Duration {
	p.mu.Lock()
	defer p.mu.Unlock()
	return p.lat
}

func (p *pending) panicked() any {
	p.mu.Lock()
	defer p.mu.Unlock()
	return p.pan
}

// A guard keeps a phase within its time budget when something is badly broken:
// a case that ran into a 20-30 s watchdog costs half a minute, so after two such
// cases the rest of the phase is skipped (and the run says so). Wall time is
// used for this budget decision only, never for a verdict.
type guard struct {
	r       *mon.Run
	phase   string
	mu      sync.Mutex
	strikes int
	skipped int
	init    bool
	viol0   int
}

func (g *guard) run(fn func()) {
	g.mu.Lock()
	if !g.init {
		g.init, g.viol0 = true, g.r.Violations()
	}
	// the rest of a phase is given up only once the slow cases have produced
	// a verdict (a violation was reported in this phase); slow cases without a
	// verdict get more patience before the phase is declared inconclusive
	limit := 6
	if g.r.Violations() > g.viol0 {
		limit = 2
	}
	if g.strikes >= limit {
		g.skipped++
		g.mu.Unlock()
		return
	}
	g.mu.Unlock()
	t0 := time.Now()
	fn()
	if time.Since(t0) > 15*time.Second {
		g.mu.Lock()
		g.strikes++
		g.mu.Unlock()
	}
}

func (g *guard) done() {
	g.mu.Lock()
	defer g.mu.Unlock()
	if g.skipped > 0 {
		g.r.Count(g.phase+".cases_skipped_after_repeated_timeouts", g.skipped)
		g.r.Inconclusive(fmt.Sprintf("%s: %d cases skipped after two cases ran into a watchdog", g.phase, g.skipped))
	}
}

func us(n int) time.Duration { return time.Duration(n) * time.Microsecond }

func countLatency(r *mon.Run, prefix string, d time.Duration) {
	r.Count(prefix+".close_calls", 1)
	r.Count(prefix+".close_latency_us_total", int(d/time.Microsecond))
	switch {
	case d < time.Millisecond:
		r.Count(prefix+".close_latency_lt_1ms", 1)
	case d < 100*time.Millisecond:
		r.Count(prefix+".close_latency_lt_100ms", 1)
	case d < time.Second:
		r.Count(prefix+".close_latency_lt_1s", 1)
	default:
		r.Count(prefix+".close_latency_ge_1s", 1)
	}
}

// victimIP spreads victims over 127.0.18.0/24 so that a port left in
// TIME_WAIT by one case is never needed by the next.
func victimIP(i int) string { return fmt.Sprintf("127.0.18.%d", 1+i%250) }

func runC18(r *mon.Run, replay string) {
	r.Rule("PRNG-generated cases per phase: (A) limit configuration {MaxInflightRPCs, MaxInflightRPCsPerSubnet incl. <=0, subnet prefix incl. invalid} x 1-5 attacking gateway peers on loopback aliases x 2-4 bursts of M concurrent tagged RPC streams with endings {answered, stream abandoned, half-open stream, peer disconnect + reconnect, subnet rejection}; (B) peer caps x 4-64 simultaneous connection attempts with delayed handshakes; (C) Syncer.Close at a PRNG-chosen moment {before Run, idle, handlers parked, mid burst, mid handshake, mid Connect, while syncing}; (D) rhp.Server.Close with RPC handlers parked in proxies; (E) wallet Close vs. rebroadcast goroutine; (F) ThreadGroup storms. A case is non-trivial (distinct signature recorded) when the mechanism under test was really exercised: back-pressure or a subnet drop occurred, more connections than the cap were attempted at once, or Close/Stop overlapped in-flight work.")
	r.Assume("A handler is observed while it is inside a ChainManager/Settings/Contractor/Sectors proxy call; observed concurrency is therefore a lower bound of the true number of live handlers, so 'observed <= limit' can never be a false alarm.")
	r.Assume("MaxOutboundPeers governs the peer loop only: explicit Syncer.Connect calls are not admission-checked by design and are not counted against the cap.")
	r.Assume("The per-peer limit is exercised for values >= 1 only (0 makes the semaphore unbuffered, negative values panic in make; neither is a documented configuration).")
	r.Assume("wallet.SingleAddressWallet has no call that is refused after Close; for the wallet 'work submitted afterwards is rejected' is checked as 'no rebroadcast round starts after Close returned'.")
	r.Assume("Bounded liveness: Close/Stop must return within 30 s of the last release the monitor controls (unchanged tree: milliseconds).")

	if replay != "" {
		runReplay(r, replay)
		return
	}

	timed := func(name string, fn func()) {
		t0 := time.Now()
		fn()
		r.Count("phase_wall_ms."+name, int(time.Since(t0)/time.Millisecond))
	}
	timed("limits", func() { phaseLimits(r) })
	timed("dropleak", func() { phaseDropLeak(r) })
	timed("pinseq", func() { phasePinSeq(r) })
	timed("longwait", func() { phaseLongWait(r) })
	timed("stall", func() { phaseStall(r) })
	timed("caps", func() { phaseCaps(r) })
	timed("sharedaddr", func() { phaseSharedAddr(r) })
	timed("shutdown", func() { phaseShutdown(r) })
	timed("syncstalls", func() { phaseSyncStalls(r) })
	timed("syncclose", func() { phaseSyncClose(r) })
	timed("appdial", func() { phaseAppDial(r) })
	timed("outbound", func() { phaseOutboundClose(r) })
	join := startDeadlockScenarios(r)
	timed("rhp", func() { phaseRHP(r) })
	timed("rhpstalls", func() { phaseRHPStalls(r) })
	timed("wallet", func() { phaseWallet(r) })
	timed("wallet_immediate", func() { phaseWalletImmediate(r) })
	timed("tg", func() { phaseTG(r) })
	timed("deadlock_join", join)
	finalInventory(r)

	r.Floor("limit.bursts", 20)
	r.Floor("limit.backpressure_bursts", 3)
	r.Floor("limit.subnet_drop_bursts", 1)
	r.Floor("limit.fresh_burst_reached_full_limit", 5)
	r.Floor("dropleak.final_bursts_served_completely", 3)
	r.Floor("longwait.rpcs_served_after_waiting_longer_than_rpc_timeout", 4)
	r.Floor("appdial.closes_with_application_dial_in_flight", 6)
	r.Floor("appdial.closes_with_peer_loop_dial_in_flight", 2)
	r.Floor("outbound.closes_never-run", 3)
	r.Floor("outbound.closes_run-failed", 3)
	r.Floor("outbound.closes_listener-closed", 3)
	r.Floor("outbound.closes_late-handshake", 2)
	r.Floor("pinseq.ops", 200)
	r.Floor("pinseq.handlers_released_individually", 60)
	r.Floor("pinseq.leave_with_others_running", 20)
	r.Floor("pinseq.slot_reuse_after_release", 10)
	r.Floor("pinseq.drops_at_cap", 10)
	r.Floor("pinseq.backpressured_requests_admitted_after_release", 3)
	r.Floor("syncclose.closed_with_batch_parked", 4)
	r.Floor("syncclose.batch_parked_in.AddBlocks", 1)
	r.Floor("syncclose.batch_parked_in.AddValidatedV2Blocks", 1)
	r.Floor("sharedaddr.connections_attempted", 60)
	r.Floor("sharedaddr.connections_sharing_a_present_address", 30)
	r.Floor("sharedaddr.connections_served", 10)
	r.Floor("sharedaddr.cases_sharing_honest_address", 2)
	r.Floor("caps.inbound_attempted", 20)
	r.Floor("caps.outbound_candidates", 8)
	r.Floor("shutdown.close_calls", 10)
	r.Floor("shutdown.closed_with_handlers_parked", 2)
	r.Floor("rhp.close_calls", 4)
	r.Floor("rhp.handlers_parked_at_close", 4)
	r.Floor("wallet.close_calls", 4)
	r.Floor("rhpstall.streams_stalled", 10)
	r.Floor("syncstall.stalls", 10)
	r.Floor("tg.stop_calls", 20)
	r.Floor("tg.adds_ok", 500)
}

// finalInventory is the last quiescent point of the process: every component
// the monitor ever created has been closed and every attacker has left.
func finalInventory(r *mon.Run) {
	inv, ok := limitlab.Settle(settleBound/3, nil, func(g []limitlab.Goroutine) bool { return len(g) == 0 })
	r.Count("final.coreutils_goroutines", len(inv))
	if left, ok := limitlab.SettleTransports(0, settleBound/2); !ok {
		r.Count("final.transport_goroutines", len(left))
		r.Violation("transport-goroutines-left-behind:final", fmt.Sprintf("%d multiplexer goroutines are still running after every syncer and server was closed and every harness peer hung up: transports that coreutils created were never closed", len(left)), map[string]any{"phase": "final"}, limitlab.Stacks(left, 3))
	}
	all := limitlab.AllGoroutines()
	r.Count("final.all_goroutines", len(all))
	by := map[string]int{}
	for _, g := range all {
		k := g.CreatedBy
		if len(g.Funcs) > 0 {
			k = g.Funcs[0] + " <- " + k
		}
		by[k]++
	}
	top := map[string]int{}
	for k, n := range by {
		if n >= 5 {
			top[k] = n
		}
	}
	r.Extra("goroutines_left_at_end_by_origin", top)
	if !ok {
		r.Violation("goroutine-left-behind:final", "coreutils goroutines are still alive after every syncer, server, wallet and thread group was closed and every peer disconnected", map[string]any{"phase": "final"}, limitlab.Keys(inv))
	}
}

type replayHeader struct {
	Case json.RawMessage `json:"case"`
}

type phaseOnly struct {
	Phase string `json:"phase"`
}

func runReplay(r *mon.Run, path string) {
	buf, err := os.ReadFile(path)
	if err != nil {
		r.Inconclusive("cannot read replay file: " + err.Error())
		return
	}
	var h replayHeader
	var p phaseOnly
	if err := json.Unmarshal(buf, &h); err != nil || json.Unmarshal(h.Case, &p) != nil {
		r.Inconclusive("cannot parse replay file")
		return
	}
	// concurrent cases: the same workload is re-run 20 times
	for i := 0; i < 20 && r.Violations() == 0; i++ {
		switch p.Phase {
		case "limits":
			var c LimitCase
			json.Unmarshal(h.Case, &c)
			runLimitCase(r, c)
		case "subnet-drop-leak":
			var c DropLeakCase
			json.Unmarshal(h.Case, &c)
			runDropLeakCase(r, c)
		case "shared-addr-cap":
			var c SharedAddrCase
			json.Unmarshal(h.Case, &c)
			runSharedAddrCase(r, c)
		case "outbound-close":
			var c OutboundCloseCase
			json.Unmarshal(h.Case, &c)
			runOutboundCloseCase(r, c)
		case "app-dial":
			var c AppDialCase
			json.Unmarshal(h.Case, &c)
			runAppDialCase(r, c)
		case "long-wait":
			var c LongWaitCase
			json.Unmarshal(h.Case, &c)
			runLongWaitCase(r, c)
		case "pinseq":
			var c PinSeqCase
			json.Unmarshal(h.Case, &c)
			runPinSeqCase(r, c)
		case "sync-close":
			var c SyncCloseCase
			json.Unmarshal(h.Case, &c)
			runSyncCloseCase(r, c)
		case "stall":
			var c StallCase
			json.Unmarshal(h.Case, &c)
			runStallCase(r, c)
		case "inbound-cap":
			var c InboundCapCase
			json.Unmarshal(h.Case, &c)
			runInboundCap(r, c)
		case "outbound-cap":
			var c OutboundCapCase
			json.Unmarshal(h.Case, &c)
			runOutboundCap(r, c)
		case "syncer-shutdown":
			var c ShutdownCase
			json.Unmarshal(h.Case, &c)
			runShutdownCase(r, c)
		case "deadlock":
			var c DeadlockCase
			json.Unmarshal(h.Case, &c)
			runDeadlockCase(r, c)()
		case "rhp":
			var c RHPCase
			json.Unmarshal(h.Case, &c)
			runRHPCase(r, c)
		case "wallet":
			var c WalletCase
			json.Unmarshal(h.Case, &c)
			runWalletCase(r, c)
		case "rhp-stall":
			var c RHPStallCase
			json.Unmarshal(h.Case, &c)
			runRHPStallCase(r, c)
		case "syncer-stall":
			var c SyncStallCase
			json.Unmarshal(h.Case, &c)
			runSyncStallCase(r, c)
		case "wallet-immediate":
			var c WalletImmediateCase
			json.Unmarshal(h.Case, &c)
			runWalletImmediate(r, c)
		case "tg":
			var c TGCase
			json.Unmarshal(h.Case, &c)
			runTGCase(r, c)
		default:
			r.Inconclusive("replay: unknown phase " + p.Phase)
			return
		}
	}
	finalInventory(r)
}
