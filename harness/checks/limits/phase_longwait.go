package limits

import (
	"fmt"
	"time"

	"go.sia.tech/coreutils/syncer"
	"verif/harness/lab/limitlab"
	"verif/harness/mon"
)

// LongWaitCase: back-pressure must not turn into a drop however long the wait
// is. The syncer's RPCTimeout is small.
//
//	pinned: one peer fills its MaxInflightRPCs slots with RPCs whose handlers
//	  are blocked inside the chain manager (outside stream I/O); a further RPC
//	  of the same peer waits for a slot; only after a generous multiple of the
//	  RPC timeout the blockers are let go. The waiting RPC must be SERVED. The
//	  blockers themselves are not judged.
//	burst: Waves x limit RPCs at once against a slow manager (HookMs per
//	  call, well below the RPC timeout): wave k waits (k-1) x HookMs, the late
//	  waves longer than the RPC timeout; every RPC must be served.
type LongWaitCase struct {
	Phase        string `json:"phase"`
	Index        int    `json:"index"`
	Variant      string `json:"variant"`
	PerPeer      int    `json:"maxInflightRPCs"`
	RPCTimeoutMs int    `json:"rpcTimeoutMs"`
	WaitFactor   int    `json:"waitFactor"` // pinned: blockers are held WaitFactor x RPCTimeout
	HookMs       int    `json:"hookMs"`     // burst: time per manager call
	Waves        int    `json:"waves"`
}

func phaseLongWait(r *mon.Run) {
	g := &guard{r: r, phase: "longwait"}
	n := r.Pick(4, 16)
	for i := 0; i < n; i++ {
		rng := r.RNG(0xA600 + uint64(i))
		c := LongWaitCase{Phase: "long-wait", Index: i, Variant: "pinned", PerPeer: 1 + rng.IntN(3), RPCTimeoutMs: pick(rng, 400, 500, 600), WaitFactor: 3 + rng.IntN(2)}
		if i == 0 {
			c.PerPeer = 1
			r.Sample(c)
		}
		g.run(func() { runLongWaitCase(r, c) })
	}
	nb := r.Pick(1, 4)
	for i := 0; i < nb; i++ {
		c := LongWaitCase{Phase: "long-wait", Index: 100 + i, Variant: "burst", PerPeer: 1 + i%2, RPCTimeoutMs: 1500, HookMs: 500, Waves: 5}
		if i == 0 {
			r.Sample(c)
		}
		g.run(func() { runLongWaitCase(r, c) })
	}
	g.done()
}

func runLongWaitCase(r *mon.Run, c LongWaitCase) {
	r.Eval()
	T := time.Duration(c.RPCTimeoutMs) * time.Millisecond
	L := c.PerPeer
	w := limitlab.NewWorld(uint64(r.Seed)<<16 ^ uint64(c.Index) ^ 0xAE<<40)
	node, err := w.NewNode(limitlab.NodeConfig{IP: victimIP(210 + c.Index), Opts: []syncer.Option{
		syncer.WithSyncInterval(time.Hour), syncer.WithPeerDiscoveryInterval(time.Hour),
		syncer.WithMaxInflightRPCs(L), syncer.WithMaxInflightRPCsPerSubnet(0), syncer.WithRPCTimeout(T),
	}})
	if err != nil {
		r.Inconclusive("longwait: cannot build node: " + err.Error())
		return
	}
	node.CM.SetLimits(L, 0)
	node.CM.RegisterPeer(1, limitlab.SubnetKey("127.18.9.9", 32))
	node.Start()
	a, err := w.DialAttacker(1, node.Addr, "127.18.9.9", 51000, nil)
	defer func() {
		node.CM.G.Open()
		if a != nil {
			a.Close()
		}
		closeNode(r, "limit", node, c)
	}()
	if err != nil {
		r.Inconclusive("longwait: attacker could not connect: " + err.Error())
		return
	}
	a.Serve()
	if err := a.Ping(settleBound); err != nil {
		r.Inconclusive("longwait: ping failed: " + err.Error())
		return
	}
	one := func(id uint32, kind int) chan limitlab.ReqResult {
		ch := make(chan limitlab.ReqResult, 1)
		go func() { ch <- a.Burst(id, []limitlab.ReqPlan{{Kind: kind}}, 5*time.Minute, nil)[0] }()
		return ch
	}

	if c.Variant == "burst" {
		H := time.Duration(c.HookMs) * time.Millisecond
		node.CM.SetHookTime(H)
		plan := make([]limitlab.ReqPlan, c.Waves*L)
		for i := range plan {
			plan[i].Kind = i
		}
		res := a.Burst(1, plan, 5*time.Minute, nil)
		// requests whose handler started after (k-1) x H >= RPCTimeout
		late := map[limitlab.Tag]bool{}
		for i, t := range node.CM.EntryOrder() {
			if time.Duration(i/L)*H >= T {
				late[t] = true
			}
		}
		var lost []limitlab.ReqResult
		servedLate := 0
		for _, rr := range res {
			if !rr.OK {
				lost = append(lost, rr)
			} else if late[rr.Tag] {
				servedLate++
			}
		}
		r.Count("longwait.burst_requests", len(res))
		if len(lost) > 0 {
			if node.CM.MaxHookTime() > T/2 {
				r.Inconclusive("longwait: the machine was too slow for the burst variant (a manager call took more than half the RPC timeout)")
				return
			}
			r.Violation("backpressured-rpc-dropped-after-long-wait:burst", fmt.Sprintf("%d of %d RPCs of one burst (%d waves x MaxInflightRPCs=%d, %v per manager call, RPCTimeout %v, subnet limit disabled) were not answered: the time a request waits for a per-peer slot must not count against its RPC timeout", len(lost), len(res), c.Waves, L, H, T), c, lost)
			return
		}
		r.Count("longwait.rpcs_served_after_waiting_longer_than_rpc_timeout", servedLate)
		r.Distinct(fmt.Sprintf("long-wait/burst/L%d/waves%d", L, c.Waves))
		return
	}

	// pinned variant
	node.CM.G.Shut()
	var blockers []chan limitlab.ReqResult
	for i := 0; i < L; i++ {
		blockers = append(blockers, one(uint32(i+1), i))
	}
	if !node.CM.G.WaitFor(settleBound, func(s limitlab.GateSnapshot) bool { return s.Parked >= L }) {
		r.Inconclusive("longwait: the blocking handlers did not park")
		return
	}
	waiter := one(100, 0)
	// the peer loop holds the waiting stream and waits for a slot
	for dl := time.Now().Add(settleBound); limitlab.BackpressuredPeerLoops() == 0; {
		if time.Now().After(dl) {
			r.Inconclusive("longwait: the waiting RPC was never held back by the peer loop")
			return
		}
		time.Sleep(time.Millisecond)
	}
	if node.CM.WasEntered(limitlab.Tag{Peer: 1, Burst: 100}) {
		r.Violation("peer-limit-exceeded-after-release", "the RPC beyond MaxInflightRPCs reached a handler while every slot was taken", c, nil)
		return
	}
	time.Sleep(time.Duration(c.WaitFactor) * T) // the RPC timeout has certainly elapsed; only the order matters
	released := time.Now()
	node.CM.G.Open()
	failedBlockers := 0
	for _, b := range blockers {
		select {
		case rr := <-b:
			if !rr.OK {
				failedBlockers++ // they were blocked for longer than their own timeout: not judged
			}
		case <-time.After(hangBound):
			r.Inconclusive("longwait: a blocking RPC did not complete")
			return
		}
	}
	r.Count("longwait.blockers", L)
	r.Count("longwait.blockers_timed_out_themselves", failedBlockers)
	select {
	case rr := <-waiter:
		if rr.OK {
			r.Count("longwait.rpcs_served_after_waiting_longer_than_rpc_timeout", 1)
			r.Distinct(fmt.Sprintf("long-wait/pinned/L%d/x%d", L, c.WaitFactor))
			return
		}
		if since := time.Since(released); since > T/2 {
			// a handler that starts with a fresh deadline and still fails
			// that late points at a starved machine, not at the accounting
			r.Inconclusive(fmt.Sprintf("longwait: the waiting RPC failed %v after the release (RPCTimeout %v): undecidable", since, T))
			return
		}
		r.Violation("backpressured-rpc-dropped-after-long-wait", fmt.Sprintf("an RPC that had waited %d x RPCTimeout (%v) for one of the peer's %d in-flight slots was dropped (%s) as soon as a slot became free instead of being served: the time spent waiting for a per-peer slot was charged against its RPC timeout", c.WaitFactor, T, L, rr.Err), c, rr)
	case <-time.After(hangBound):
		r.Violation("slot-leak:burst-hangs-within-budget", "the back-pressured RPC was neither answered nor dropped within 60 s after every slot had been freed", c, limitlab.Stacks(limitlab.Inventory(nil), 8))
	}
}
