package limits

import (
	"context"
	"fmt"
	"math/rand/v2"
	"net"
	"strings"
	"sync"
	"time"

	"go.sia.tech/core/gateway"
	"go.sia.tech/core/types"
	"go.sia.tech/coreutils/syncer"
	"verif/harness/lab/limitlab"
	"verif/harness/mon"
)

// ShutdownCase is one Syncer.Close scenario: which work is in flight when
// Close is called, and when the monitor lets that work go.
type ShutdownCase struct {
	Phase       string `json:"phase"`
	Index       int    `json:"index"`
	BeforeRun   bool   `json:"beforeRun"` // Close is called before Run
	PerPeer     int    `json:"maxInflightRPCs"`
	PerSubnet   int    `json:"maxInflightRPCsPerSubnet"`
	Attackers   int    `json:"attackers"`
	M           int    `json:"requestsPerAttacker"`
	GateShut    bool   `json:"gateShut"`    // handlers are parked in the manager when Close is called
	GateHoldUs  int    `json:"gateHoldUs"`  // ... and released this long after Close was called
	Handshakers int    `json:"handshakers"` // peers between TCP connect and handshake when Close is called
	ShakeUs     []int  `json:"shakeUs"`     // they go on this long after Close was called
	Connects    int    `json:"connects"`    // Connect calls in flight when Close is called
	DialUs      int    `json:"dialUs"`
	Honest      int    `json:"honest"` // real remote syncers
	Blocks      int    `json:"blocks"` // chain length of the first one (the victim syncs it)
	HoldUs      int    `json:"holdUs"` // time between "everything is in flight" and Close
	DoubleClose bool   `json:"doubleClose"`
	VictimLast  bool   `json:"victimLast"`
	IntervalMs  int    `json:"intervalMs"`
	JitterUs    int    `json:"jitterUs"`
}

func genShutdownCase(rng *rand.Rand, idx int) ShutdownCase {
	c := ShutdownCase{Phase: "syncer-shutdown", Index: idx}
	c.PerPeer = pick(rng, 1, 2, 3, 8)
	c.PerSubnet = pick(rng, 0, 2, 4, 64)
	c.IntervalMs = pick(rng, 5, 20, 50)
	c.JitterUs = pick(rng, 0, 0, 300, 1500)
	c.HoldUs = rng.IntN(1 + pick(rng, 0, 500, 5000, 30000))
	c.DoubleClose = rng.IntN(4) == 0
	c.VictimLast = rng.IntN(2) == 0
	if idx%12 == 11 {
		c.BeforeRun = true
		return c
	}
	switch idx % 4 {
	case 0: // handlers parked
		c.Attackers = 1 + rng.IntN(4)
		c.M = c.PerPeer + rng.IntN(2*c.PerPeer+1)
		c.GateShut = true
		c.GateHoldUs = rng.IntN(1 + pick(rng, 0, 1000, 20000))
	case 1: // streams being served, handshakes and connects in progress
		c.Attackers = rng.IntN(4)
		c.M = 1 + rng.IntN(8)
		c.Handshakers = 1 + rng.IntN(4)
		c.Connects = rng.IntN(4)
	case 2: // syncing from honest peers
		c.Honest = 1 + rng.IntN(2)
		c.Blocks = pick(rng, 0, 30, 120)
		c.Attackers = rng.IntN(3)
		c.M = 1 + rng.IntN(4)
		c.HoldUs = rng.IntN(1 + pick(rng, 1000, 50000, 400000, 1400000))
	default: // everything at once
		c.Attackers = 1 + rng.IntN(3)
		c.M = c.PerPeer + 1 + rng.IntN(4)
		c.GateShut = rng.IntN(2) == 0
		c.GateHoldUs = rng.IntN(10000)
		c.Handshakers = rng.IntN(3)
		c.Connects = 1 + rng.IntN(3)
		c.Honest = rng.IntN(2)
		c.Blocks = pick(rng, 0, 30)
	}
	for i := 0; i < c.Handshakers; i++ {
		c.ShakeUs = append(c.ShakeUs, rng.IntN(1+pick(rng, 0, 300, 3000, 20000)))
	}
	c.DialUs = rng.IntN(1 + pick(rng, 0, 1000, 8000))
	return c
}

func phaseShutdown(r *mon.Run) {
	g := &guard{r: r, phase: "shutdown"}
	n := r.Pick(60, 420)
	for i := 0; i < n; i++ {
		c := genShutdownCase(r.RNG(0xC000+uint64(i)), i)
		if i == 0 || i == 3 {
			r.Sample(c)
		}
		g.run(func() { runShutdownCase(r, c) })
	}
	g.done()
}

// lateInboundStuck is the structural matcher of the "late inbound peer"
// deadlock: Close is waiting while a peer that finished its handshake after
// Run had closed the existing peers sits in its RPC accept loop, unclosed.
func lateInboundStuck(inv []limitlab.Goroutine) bool {
	for _, g := range inv {
		if g.Has("syncer.(*Peer).acceptRPC") && g.Has("syncer.(*Syncer).acceptLoop") {
			return true
		}
	}
	return false
}

func runShutdownCase(r *mon.Run, c ShutdownCase) {
	r.Eval()
	w := limitlab.NewWorld(uint64(r.Seed)<<16 ^ uint64(c.Index) ^ 0xD<<40)
	lr := limitlab.NewLockedRand(r.RNG(0xC100 + uint64(c.Index)))
	iv := time.Duration(c.IntervalMs) * time.Millisecond
	node, err := w.NewNode(limitlab.NodeConfig{IP: victimIP(c.Index), DialWait: func() time.Duration { return lr.Dur(us(c.DialUs)) }, Opts: []syncer.Option{
		syncer.WithSyncInterval(iv), syncer.WithPeerDiscoveryInterval(iv),
		syncer.WithMaxInboundPeers(100), syncer.WithConnectTimeout(5 * time.Second),
		syncer.WithMaxInflightRPCs(c.PerPeer), syncer.WithMaxInflightRPCsPerSubnet(c.PerSubnet),
	}})
	if err != nil {
		r.Inconclusive("shutdown: cannot build node: " + err.Error())
		return
	}
	node.CM.SetLimits(c.PerPeer, c.PerSubnet)
	if c.JitterUs > 0 {
		node.CM.SetJitter(func() time.Duration {
			if lr.IntN(4) == 0 {
				return lr.Dur(us(c.JitterUs))
			}
			return 0
		})
	}
	vcase := map[string]any{"phase": "syncer-shutdown", "case": c}

	var cleanup []func()
	defer func() {
		node.CM.G.Open()
		for i := len(cleanup) - 1; i >= 0; i-- {
			cleanup[i]()
		}
	}()

	if c.BeforeRun {
		p := bounded(func() { node.S.Close() })
		if !p.wait(livenessBound) {
			r.Violation("syncer-close-timeout:before-run", "Syncer.Close before Run did not return within 30 s", vcase, limitlab.Keys(limitlab.Inventory(nil)))
			return
		}
		countLatency(r, "shutdown", p.latency())
		node.Start()
		if !node.WaitRun(livenessBound) {
			r.Violation("run-after-close-hangs", "Run called after Close did not return within 30 s", vcase, limitlab.Keys(limitlab.Inventory(nil)))
			return
		}
		checkRejections(r, c, w, node, nil, vcase)
		r.Count("shutdown.close_before_run", 1)
		r.Distinct("shutdown/before-run")
		return
	}
	node.Start()

	// honest remote syncers
	var honest []*limitlab.Node
	var closeHonest []func()
	for i := 0; i < c.Honest; i++ {
		blocks := 0
		if i == 0 {
			blocks = c.Blocks
		}
		h, err := w.NewNode(limitlab.NodeConfig{IP: fmt.Sprintf("127.0.18.%d", 251+i), Blocks: blocks, Opts: []syncer.Option{
			syncer.WithSyncInterval(iv), syncer.WithPeerDiscoveryInterval(iv), syncer.WithConnectTimeout(5 * time.Second)}})
		if err != nil {
			r.Inconclusive("shutdown: cannot build honest node: " + err.Error())
			return
		}
		h.Start()
		honest = append(honest, h)
		hh := h
		closed := false
		closeH := func() {
			if !closed {
				closed = true
				closeNode(r, "shutdown", hh, vcase)
			}
		}
		cleanup = append(cleanup, closeH)
		closeHonest = append(closeHonest, closeH)
		cp := bounded(func() {
			ctx, cancel := context.WithTimeout(context.Background(), settleBound)
			defer cancel()
			node.S.Connect(ctx, hh.Addr)
		})
		if !cp.wait(settleBound) {
			r.Inconclusive("shutdown: Connect to honest peer did not return")
			return
		}
	}

	// attackers and their bursts
	var atts []*limitlab.Attacker
	cleanup = append(cleanup, func() {
		for _, a := range atts {
			a.Close()
		}
	})
	want := map[string]int{}
	for i := 0; i < c.Attackers; i++ {
		ip := fmt.Sprintf("127.18.%d.%d", 1+i%2, 1+i)
		node.CM.RegisterPeer(uint32(i+1), limitlab.SubnetKey(ip, 32))
		a, err := w.DialAttacker(uint32(i+1), node.Addr, ip, 41000+i, nil)
		if err != nil {
			r.Inconclusive("shutdown: attacker could not connect: " + err.Error())
			return
		}
		a.Serve()
		atts = append(atts, a)
		if err := a.Ping(settleBound); err != nil {
			r.Inconclusive("shutdown: attacker ping failed: " + err.Error())
			return
		}
		want[limitlab.SubnetKey(ip, 32)] += minInt(c.M, c.PerPeer)
	}
	if c.GateShut {
		node.CM.G.Shut()
	}
	var burstWG sync.WaitGroup
	var resMu sync.Mutex
	answered, failed := 0, 0
	for _, a := range atts {
		burstWG.Add(1)
		go func(a *limitlab.Attacker) {
			defer burstWG.Done()
			rounds := 1
			if !c.GateShut {
				rounds = 4
			}
			for k := 0; k < rounds; k++ {
				pl := make([]limitlab.ReqPlan, c.M)
				for j := range pl {
					pl[j].Kind = j + k
				}
				for _, rr := range a.Burst(uint32(k+1), pl, 120*time.Second, nil) {
					resMu.Lock()
					if rr.OK {
						answered++
					} else {
						failed++
					}
					resMu.Unlock()
				}
			}
		}(a)
	}
	parkedAtClose := 0
	if c.GateShut && len(atts) > 0 {
		E := 0
		for _, v := range want {
			E += capB(c.PerSubnet, v)
		}
		if !node.CM.G.WaitFor(settleBound, func(s limitlab.GateSnapshot) bool { return s.Parked >= E }) {
			r.Inconclusive("shutdown: handlers did not park")
			return
		}
		parkedAtClose = E
	}

	// peers in the middle of their handshake, Connect calls in flight
	closeCalled := make(chan struct{})
	var hsWG sync.WaitGroup
	var hsMu sync.Mutex
	var shakers []*limitlab.Attacker
	for i := 0; i < c.Handshakers; i++ {
		hsWG.Add(1)
		go func(i int) {
			defer hsWG.Done()
			a, err := w.DialAttacker(uint32(100+i), node.Addr, fmt.Sprintf("127.19.1.%d", 1+i), 42000+i, func() {
				<-closeCalled
				time.Sleep(us(c.ShakeUs[i]))
			})
			if err == nil {
				hsMu.Lock()
				shakers = append(shakers, a)
				hsMu.Unlock()
			}
		}(i)
	}
	cleanup = append(cleanup, func() {
		hsWG.Wait()
		hsMu.Lock()
		defer hsMu.Unlock()
		for _, a := range shakers {
			a.Close()
		}
	})
	if c.Handshakers > 0 {
		// the victim has run the admission check of every handshaker
		node.PS.WaitBanned(c.Attackers+c.Handshakers, settleBound)
	}
	var acs []*limitlab.Acceptor
	var connects []*pending
	for i := 0; i < c.Connects; i++ {
		d := lr.Dur(10 * time.Millisecond)
		ac, err := w.NewAcceptor(fmt.Sprintf("127.0.19.%d", 1+(c.Index*4+i)%250), func() { time.Sleep(d) })
		if err != nil {
			r.Inconclusive("shutdown: cannot listen: " + err.Error())
			return
		}
		acs = append(acs, ac)
		connects = append(connects, bounded(func() {
			ctx, cancel := context.WithTimeout(context.Background(), 20*time.Second)
			defer cancel()
			node.S.Connect(ctx, ac.Addr)
		}))
	}
	cleanup = append(cleanup, func() {
		for _, ac := range acs {
			ac.Close()
		}
	})

	time.Sleep(us(c.HoldUs))
	if c.VictimLast {
		for _, fn := range closeHonest {
			fn() // idempotent
		}
	}
	tipAtClose := node.Real.Tip().Height
	r.Count("shutdown.coreutils_goroutines_before_close", len(limitlab.Inventory(nil)))

	// ---- Close ----
	close(closeCalled)
	p := bounded(func() { node.S.Close() })
	var p2 *pending
	if c.DoubleClose {
		p2 = bounded(func() { node.S.Close() })
	}
	if c.GateShut {
		time.Sleep(us(c.GateHoldUs))
		if p.returned() && node.CM.G.Snap().Parked > 0 {
			r.Violation("close-returned-before-handlers-done", fmt.Sprintf("Syncer.Close returned while %d RPC handlers were still inside the chain manager", node.CM.G.Snap().Parked), vcase, nil)
			return
		}
		node.CM.G.Open()
	}
	if !p.wait(livenessBound) || (p2 != nil && !p2.wait(livenessBound)) {
		inv := limitlab.Inventory(nil)
		sig := "syncer-close-timeout:in-flight-work"
		dups := node.PS.DuplicateConnAddrs()
		if lateInboundStuck(inv) && len(node.S.Peers()) > 0 {
			sig = "close-deadlock-late-inbound-peer"
		} else if len(dups) > 0 {
			// structural matcher of the duplicate-address defect: two
			// connections were stored under one dial-back address (e.g. an
			// honest peer dialing us while we dial it: both handshakes pass
			// alreadyConnected before either is added), one of them is an
			// orphan now
			sig = "close-deadlock-duplicate-netaddress"
		}
		r.Violation(sig, "Syncer.Close did not return within 30 s of the last release the monitor controls", vcase, map[string]any{"goroutines": limitlab.Keys(inv), "peers": len(node.S.Peers()), "addressesConnectedTwice": dups})
		// let the stuck syncer go: every remote end hangs up
		for _, a := range atts {
			a.Close()
		}
		hsWG.Wait()
		hsMu.Lock()
		for _, a := range shakers {
			a.Close()
		}
		hsMu.Unlock()
		for _, fn := range closeHonest {
			fn()
		}
		if !p.wait(livenessBound) {
			r.Inconclusive("shutdown: Close still stuck after every peer hung up")
		}
		return
	}
	countLatency(r, "shutdown", p.latency())
	if m := node.CM.G.Mark(); m != 0 {
		r.Violation("close-returned-before-handlers-done", fmt.Sprintf("Syncer.Close returned while %d calls into the chain manager were still in progress", m), vcase, node.CM.G.Labels())
		return
	}
	if m := node.PS.G.Mark(); m != 0 {
		r.Violation("close-returned-before-handlers-done:peerstore", fmt.Sprintf("Syncer.Close returned while %d calls into the peer store were still in progress", m), vcase, node.PS.G.Labels())
		return
	}
	if pan := p.panicked(); pan != nil {
		r.Violation("close-panicked", fmt.Sprint(pan), vcase, nil)
		return
	}
	if parkedAtClose > 0 {
		r.Count("shutdown.closed_with_handlers_parked", 1)
		r.Count("shutdown.handlers_parked_at_close", parkedAtClose)
	}
	if !node.WaitRun(livenessBound) {
		r.Violation("run-outlives-close", "Run had not returned 30 s after Close returned", vcase, limitlab.Keys(limitlab.Inventory(nil)))
		return
	}
	for _, cp := range connects {
		if !cp.wait(livenessBound) {
			r.Violation("connect-outlives-close", "a Connect call started before Close had not returned 30 s after Close returned", vcase, limitlab.Keys(limitlab.Inventory(nil)))
			return
		}
	}
	r.Count("shutdown.connects_in_flight_at_close", len(connects))
	r.Count("shutdown.handshakes_in_flight_at_close", c.Handshakers)
	burstWG.Wait()
	resMu.Lock()
	r.Count("shutdown.requests_answered", answered)
	r.Count("shutdown.requests_cut_by_close", failed)
	resMu.Unlock()
	if h := node.Real.Tip().Height; h > 0 || tipAtClose > 0 {
		r.Count("shutdown.blocks_synced_before_close", int(tipAtClose))
		if c.Blocks > 0 && tipAtClose < uint64(c.Blocks) {
			r.Count("shutdown.closed_while_sync_incomplete", 1)
		}
	}

	if !checkRejections(r, c, w, node, atts, vcase) {
		return
	}
	// nothing may start after Close returned
	time.Sleep(2*iv + 2*time.Millisecond)
	if am := node.CM.G.Snap().AfterMark; len(am) > 0 {
		r.Violation("manager-call-after-close", fmt.Sprintf("%d chain manager calls were started after Syncer.Close had returned", len(am)), vcase, am)
		return
	}
	if am := node.PS.G.Snap().AfterMark; len(am) > 0 {
		r.Violation("peerstore-call-after-close", fmt.Sprintf("%d peer store calls were started after Syncer.Close had returned", len(am)), vcase, am)
		return
	}

	// everything else goes away; then no syncer goroutine may be left
	node.CM.G.Open()
	for i := len(cleanup) - 1; i >= 0; i-- {
		cleanup[i]()
	}
	cleanup = nil
	inv, ok := limitlab.Settle(settleBound/3, nil, func(g []limitlab.Goroutine) bool { return len(g) == 0 })
	r.Count("shutdown.goroutine_inventories", 1)
	r.Count("shutdown.coreutils_goroutines_after_close", len(inv))
	if !ok {
		r.Violation("goroutine-left-behind:syncer", "coreutils goroutines are still alive after every syncer of the case was closed and every peer hung up", vcase, limitlab.Keys(inv))
		return
	}
	feat := []string{}
	if c.GateShut && parkedAtClose > 0 {
		feat = append(feat, "parked")
	}
	if c.Handshakers > 0 {
		feat = append(feat, "handshake")
	}
	if len(connects) > 0 {
		feat = append(feat, "connect")
	}
	if c.Honest > 0 {
		feat = append(feat, fmt.Sprintf("honest%d/blocks%d", c.Honest, c.Blocks))
	}
	if failed > 0 {
		feat = append(feat, "cut-streams")
	}
	if c.DoubleClose {
		feat = append(feat, "double")
	}
	if len(feat) > 0 {
		r.Distinct("shutdown/" + strings.Join(feat, "+") + fmt.Sprintf("/L%d/B%d/last%v", c.PerPeer, c.PerSubnet, c.VictimLast))
	}
}

// checkRejections verifies that work submitted after Close is refused.
func checkRejections(r *mon.Run, c ShutdownCase, w *limitlab.World, node *limitlab.Node, atts []*limitlab.Attacker, vcase any) bool {
	ctx, cancel := context.WithTimeout(context.Background(), 10*time.Second)
	defer cancel()
	target := "127.0.19.250:9"
	if ac, err := w.NewAcceptor("127.0.19.250", nil); err == nil {
		// somebody is listening: only the syncer itself can refuse
		target = ac.Addr
		defer ac.Close()
	}
	cp := bounded(func() {
		if p, err := node.S.Connect(ctx, target); err == nil {
			r.Violation("connect-accepted-after-close", "Connect after Close returned a peer instead of an error", vcase, fmt.Sprint(p))
		} else {
			r.Count("shutdown.rejected_after_close.connect", 1)
		}
	})
	if !cp.wait(livenessBound) {
		r.Violation("connect-after-close-hangs", "Connect after Close did not return within 30 s", vcase, nil)
		return false
	}
	if err := node.S.BroadcastV2Header(types.BlockHeader{Nonce: 18}); err == nil {
		r.Violation("broadcast-accepted-after-close", "BroadcastV2Header after Close returned nil", vcase, nil)
		return false
	}
	if err := node.S.BroadcastV2TransactionSet(types.ChainIndex{}, []types.V2Transaction{{ArbitraryData: []byte("c18")}}); err == nil {
		r.Violation("broadcast-accepted-after-close", "BroadcastV2TransactionSet after Close returned nil", vcase, nil)
		return false
	}
	r.Count("shutdown.rejected_after_close.broadcast", 2)
	// a new connection is not served
	d := net.Dialer{Timeout: 5 * time.Second, LocalAddr: &net.TCPAddr{IP: net.ParseIP("127.19.2.1")}}
	if conn, err := d.Dial("tcp", node.Addr); err == nil {
		conn.SetDeadline(time.Now().Add(10 * time.Second))
		if t, err := gateway.Dial(conn, gateway.Header{GenesisID: w.Genesis.ID(), UniqueID: w.UniqueID(), NetAddress: "127.19.2.1:43000"}); err == nil {
			t.Close()
			conn.Close()
			r.Violation("handshake-accepted-after-close", "a new inbound connection completed the gateway handshake after Close had returned", vcase, nil)
			return false
		}
		conn.Close()
	}
	r.Count("shutdown.rejected_after_close.inbound", 1)
	// streams on the old connections are not served
	for _, a := range atts {
		if err := a.Ping(10 * time.Second); err == nil {
			r.Violation("rpc-served-after-close", "an RPC on a connection that existed before Close was answered after Close had returned", vcase, nil)
			return false
		}
		r.Count("shutdown.rejected_after_close.stream", 1)
	}
	return true
}
