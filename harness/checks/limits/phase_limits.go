package limits

import (
	"context"
	"fmt"
	"math/rand/v2"
	"sort"
	"sync"
	"time"

	"go.sia.tech/core/types"
	"go.sia.tech/coreutils/syncer"
	"verif/harness/lab/limitlab"
	"verif/harness/mon"
)

// AttSpec is one attacking peer: the loopback alias it dials from and the
// port it announces as dial-back address.
type AttSpec struct {
	IP   string `json:"ip"`
	Port int    `json:"port"`
}

// BurstSpec is one burst of concurrent RPC streams.
type BurstSpec struct {
	M            []int `json:"m"`            // requests per attacker position
	KindOff      int   `json:"kindOff"`      // rotates the RPC kinds
	AbandonEvery int   `json:"abandonEvery"` // every k-th stream is closed unread while its handler is parked (0 = none)
	HalfOpen     bool  `json:"halfOpen"`     // the streams carry only the RPC id; closed later (handler ends with a stream error)
	Disconnect   []int `json:"disconnect"`   // positions that drop their connection while their handlers are parked
	Reconnect    bool  `json:"reconnect"`    // ... and come back from the same address with a fresh burst before the old handlers ended
	HoldUs       int   `json:"holdUs"`
	Noise        bool  `json:"noise"` // Peers()/Broadcast calls running beside the burst
	// Stagger > 0: once the handlers are parked, some of them (1 + Stagger mod
	// parked-1) are let go and end while the others stay; then every peer
	// fires a second wave. The limits must hold across the two generations.
	Stagger int `json:"stagger"`
}

// LimitCase is one fully expanded case of phase A.
type LimitCase struct {
	Phase     string      `json:"phase"`
	Index     int         `json:"index"`
	PerPeer   int         `json:"maxInflightRPCs"`
	PerSubnet int         `json:"maxInflightRPCsPerSubnet"`
	SetPrefix bool        `json:"setPrefix"`
	V4Bits    int         `json:"v4Bits"`
	Attackers []AttSpec   `json:"attackers"`
	Bursts    []BurstSpec `json:"bursts"`
}

func pick[T any](rng *rand.Rand, xs ...T) T { return xs[rng.IntN(len(xs))] }

func genLimitCase(rng *rand.Rand, idx int) LimitCase {
	c := LimitCase{Phase: "limits", Index: idx}
	c.PerPeer = pick(rng, 1, 1, 2, 2, 3, 4, 6, 8)
	c.PerSubnet = pick(rng, -1, 0, 0, 1, 2, 3, 4, 6, 8, 12, 16, 64)
	c.SetPrefix = rng.IntN(2) == 0
	c.V4Bits = 32
	if c.SetPrefix {
		c.V4Bits = pick(rng, 32, 24, 24, 16, 8, 0, 33, -1)
	}
	n := 1 + rng.IntN(5)
	for i := 0; i < n; i++ {
		c.Attackers = append(c.Attackers, AttSpec{
			IP:   fmt.Sprintf("127.%d.%d.%d", pick(rng, 18, 18, 19), pick(rng, 1, 1, 2), 1+rng.IntN(3)),
			Port: 20000 + (idx%1000)*32 + i,
		})
	}
	L := c.PerPeer
	nb := 2 + rng.IntN(3)
	for b := 0; b < nb; b++ {
		bs := BurstSpec{KindOff: rng.IntN(3), HoldUs: rng.IntN(3000), Noise: rng.IntN(3) == 0}
		last := b == nb-1
		for i := 0; i < n; i++ {
			m := pick(rng, 1, L, L+1, 2*L, 2*L+1, 3*L+2)
			if last {
				m = L + 1 + rng.IntN(3)
			}
			if m > 20 {
				m = 20
			}
			bs.M = append(bs.M, m)
		}
		if !last {
			switch rng.IntN(8) {
			case 0:
				// half-open streams never carry a body, so at most L of them
				// are sent: their close frames must not queue up behind a
				// stream the peer loop cannot accept yet
				bs.HalfOpen = true
				for i := range bs.M {
					bs.M[i] = 1 + rng.IntN(L)
				}
			case 1, 2:
				bs.AbandonEvery = 2 + rng.IntN(3)
			case 5, 6:
				bs.Stagger = 1 + rng.IntN(16)
			case 3, 4:
				for i := 0; i < n; i++ {
					if rng.IntN(2) == 0 {
						bs.Disconnect = append(bs.Disconnect, i)
					}
				}
				if len(bs.Disconnect) == 0 {
					bs.Disconnect = []int{rng.IntN(n)}
				}
				bs.Reconnect = rng.IntN(3) != 0
			}
		}
		c.Bursts = append(c.Bursts, bs)
	}
	return c
}

func phaseLimits(r *mon.Run) {
	n := r.Pick(90, 700)
	g := &guard{r: r, phase: "limit"}
	for i := 0; i < n; i++ {
		c := genLimitCase(r.RNG(0xA000+uint64(i)), i)
		if i < 2 {
			r.Sample(c)
		}
		g.run(func() { runLimitCase(r, c) })
	}
	g.done()
	maxMu.Lock()
	defer maxMu.Unlock()
	r.Extra("max_concurrent_handlers_observed_by_limit", maxSeen)
}

var (
	maxMu   sync.Mutex
	maxSeen = map[string]int{}
)

// noteMax keeps, per limit value, the largest number of concurrently running
// handlers the manager proxy ever saw (for one peer resp. one subnet).
func noteMax(key string, v int) {
	maxMu.Lock()
	if v > maxSeen[key] {
		maxSeen[key] = v
	}
	maxMu.Unlock()
}

type liveAtt struct {
	spec AttSpec
	a    *limitlab.Attacker
	sub  string
}

func capB(B, v int) int {
	if B > 0 && v > B {
		return B
	}
	return v
}

func minInt(a, b int) int {
	if a < b {
		return a
	}
	return b
}

func plansFor(bs BurstSpec, m int) []limitlab.ReqPlan {
	pl := make([]limitlab.ReqPlan, m)
	for j := range pl {
		pl[j] = limitlab.ReqPlan{Kind: j + bs.KindOff, HalfOpen: bs.HalfOpen}
		if bs.AbandonEvery > 0 && j%bs.AbandonEvery == bs.AbandonEvery-1 {
			pl[j].Abandon = true
		}
	}
	return pl
}

func runLimitCase(r *mon.Run, c LimitCase) {
	r.Eval()
	// handler goroutines a failed earlier case may have left behind
	baseline := limitlab.HandlerGoroutines()
	w := limitlab.NewWorld(uint64(r.Seed)<<16 ^ uint64(c.Index) ^ 0xA<<40)
	opts := []syncer.Option{
		syncer.WithSyncInterval(time.Hour), syncer.WithPeerDiscoveryInterval(time.Hour),
		syncer.WithMaxInboundPeers(1000), syncer.WithConnectTimeout(60 * time.Second),
		syncer.WithMaxInflightRPCs(c.PerPeer), syncer.WithMaxInflightRPCsPerSubnet(c.PerSubnet),
	}
	if c.SetPrefix {
		opts = append(opts, syncer.WithInflightRPCSubnetPrefixes(c.V4Bits, 48))
	}
	node, err := w.NewNode(limitlab.NodeConfig{IP: victimIP(c.Index), Opts: opts})
	if err != nil {
		r.Inconclusive("limits: cannot build node: " + err.Error())
		return
	}
	node.CM.SetLimits(c.PerPeer, c.PerSubnet)
	node.Start()
	r.SetAdd("limit.configurations", fmt.Sprintf("L%d/B%d/p%v:%d", c.PerPeer, c.PerSubnet, c.SetPrefix, c.V4Bits))

	var nextIdx uint32
	var all []*limitlab.Attacker
	connect := func(sp AttSpec) (*liveAtt, error) {
		nextIdx++
		sub := limitlab.SubnetKey(sp.IP, c.V4Bits)
		node.CM.RegisterPeer(nextIdx, sub)
		a, err := w.DialAttacker(nextIdx, node.Addr, sp.IP, sp.Port, nil)
		if err != nil {
			return nil, err
		}
		a.Serve()
		all = append(all, a)
		return &liveAtt{spec: sp, a: a, sub: sub}, nil
	}
	defer func() {
		node.CM.G.Open()
		for _, a := range all {
			a.Close()
		}
		p := bounded(func() { node.S.Close() })
		if !p.wait(livenessBound) {
			r.Violation("syncer-close-timeout:after-limit-case", "Syncer.Close did not return within 30 s after all peers had left", c, limitlab.Stacks(limitlab.Inventory(nil), 8))
			return
		}
		countLatency(r, "limit", p.latency())
		if !node.WaitRun(livenessBound) {
			r.Violation("run-outlives-close", "Run had not returned 30 s after Close returned", c, limitlab.Keys(limitlab.Inventory(nil)))
		}
	}()

	atts := make([]*liveAtt, len(c.Attackers))
	for i, sp := range c.Attackers {
		la, err := connect(sp)
		if err != nil {
			r.Inconclusive(fmt.Sprintf("limits: attacker %d could not connect: %v", i, err))
			return
		}
		if err := la.a.Ping(settleBound); err != nil {
			r.Inconclusive(fmt.Sprintf("limits: attacker %d ping failed: %v", i, err))
			return
		}
		atts[i] = la
	}
	r.Count("limit.attackers_connected", len(atts))

	L, B := c.PerPeer, c.PerSubnet
	everReached := true
	dropsSeen := 0 // requests dropped by the subnet budget so far in this case

	vcase := func(bi int) map[string]any { return map[string]any{"phase": "limits", "case": c, "burst": bi} }

	runBurst := func(bi int, bs BurstSpec) (goOn bool) {
		// quiescence: every handler of the previous burst has really ended
		// (goroutine gone = slots released), so expectations are exact
		if !limitlab.WaitHandlersAtMost(baseline, settleBound) {
			r.Inconclusive("limits: handlers of the previous burst did not drain")
			return false
		}
		node.CM.G.Shut()
		node.CM.ResetMax()
		r.Count("limit.bursts", 1)
		if bi > 0 {
			r.Eval() // every burst is an evaluated sub-case of its own
		}
		burstID := uint32(bi + 1)
		release := make(chan struct{})
		var relOnce sync.Once
		stopNoise := func() {}
		letGo := func() {
			relOnce.Do(func() { close(release) })
			node.CM.G.Open()
			stopNoise()
			stopNoise = func() {}
		}
		defer letGo()

		type fired struct {
			la      *liveAtt
			res     chan []limitlab.ReqResult
			dropped bool // connection dropped on purpose during the burst
		}
		var fs []*fired
		fire := func(la *liveAtt, m int) {
			f := &fired{la: la, res: make(chan []limitlab.ReqResult, 1)}
			pl := plansFor(bs, m)
			id := burstID
			go func() { f.res <- la.a.Burst(id, pl, 180*time.Second, release) }()
			fs = append(fs, f)
			r.Count("limit.requests_sent", m)
		}
		connsInSubnet := map[string]int{}
		want := map[string]int{}
		for i, la := range atts {
			if la == nil {
				continue
			}
			fire(la, bs.M[i])
			connsInSubnet[la.sub]++
			if !bs.HalfOpen {
				want[la.sub] += minInt(bs.M[i], L)
			}
		}
		if len(fs) == 0 {
			return false
		}
		if bs.Noise {
			stopNoise = startNoise(node, w)
		}
		E := 0
		for _, v := range want {
			E += capB(B, v)
		}
		kind := "under-admission"
		if bi > 0 {
			kind = "slot-leak"
		}
		if !node.CM.G.WaitFor(livenessBound, func(s limitlab.GateSnapshot) bool { return s.Parked >= E }) {
			everReached = false
			o := node.CM.Observed()
			parked := node.CM.G.Snap().Parked
			inv := limitlab.Keys(limitlab.Inventory(nil))
			stacks := limitlab.Stacks(limitlab.Inventory(nil), 12)
			letGo()
			r.Violation(kind+":parked-below-expected", fmt.Sprintf("burst %d: only %d of the %d handlers the limits allow became in-flight within 30 s (per-peer %d, per-subnet %d)", bi, parked, E, L, B), vcase(bi),
				map[string]any{"expected": E, "parked": parked, "perSubnetNow": o.CurSubnet, "perPeerNow": o.CurPeer, "goroutines": inv, "stacks": stacks})
			return false
		}
		time.Sleep(us(bs.HoldUs))
		if p := node.CM.G.Snap().Parked; p != E && len(node.CM.Observed().Excess) == 0 {
			r.Inconclusive(fmt.Sprintf("limits: monitor expectation mismatch (parked %d, expected %d, case %d burst %d)", p, E, c.Index, bi))
			return false
		}
		r.Count("limit.handlers_parked_total", E)

		// peers dropping their connection while their handlers are parked
		if len(bs.Disconnect) > 0 && !bs.HalfOpen {
			cur := node.CM.Observed().CurSubnet
			fresh := map[string]int{}
			for _, pos := range bs.Disconnect {
				if pos >= len(atts) || atts[pos] == nil {
					continue
				}
				old := atts[pos]
				for _, f := range fs {
					if f.la == old {
						f.dropped = true
					}
				}
				old.a.Close()
				atts[pos] = nil
				r.Count("limit.disconnects_mid_handler", 1)
				if bs.Reconnect {
					sp := old.spec
					sp.Port += 16
					la, err := connect(sp)
					if err != nil {
						r.Inconclusive("limits: reconnect failed: " + err.Error())
						return false
					}
					atts[pos] = la
					connsInSubnet[la.sub]++
					fire(la, bs.M[pos])
					fresh[la.sub] += minInt(bs.M[pos], L)
					r.Count("limit.reconnects_while_old_handlers_live", 1)
				}
			}
			if bs.Reconnect {
				subs := map[string]bool{}
				for s := range cur {
					subs[s] = true
				}
				for s := range fresh {
					subs[s] = true
				}
				E2 := 0
				for s := range subs {
					E2 += capB(B, cur[s]+fresh[s])
				}
				if !node.CM.G.WaitFor(livenessBound, func(s limitlab.GateSnapshot) bool { return s.Parked >= E2 }) {
					everReached = false
					parked := node.CM.G.Snap().Parked
					letGo()
					r.Violation("under-admission:after-reconnect", fmt.Sprintf("burst %d: after reconnecting, %d handlers in flight instead of %d", bi, parked, E2), vcase(bi), map[string]any{"expected": E2, "before": cur, "fresh": fresh})
					return false
				}
				time.Sleep(us(bs.HoldUs))
				if p := node.CM.G.Snap().Parked; p != E2 && len(node.CM.Observed().Excess) == 0 {
					r.Inconclusive(fmt.Sprintf("limits: monitor expectation mismatch after reconnect (parked %d, expected %d, case %d burst %d)", p, E2, c.Index, bi))
					return false
				}
			}
		}
		if bs.HalfOpen {
			time.Sleep(us(bs.HoldUs) + 2*time.Millisecond)
			r.Count("limit.halfopen_bursts", 1)
		}
		if bs.Stagger > 0 && E >= 2 && !bs.HalfOpen && len(bs.Disconnect) == 0 {
			k := 1 + bs.Stagger%(E-1)
			exits := node.CM.G.Snap().Exits
			k = node.CM.G.ReleaseN(k)
			node.CM.G.WaitFor(settleBound, func(s limitlab.GateSnapshot) bool { return s.Exits >= exits+int64(k) })
			// the released handlers end (their slots are returned) while the
			// rest stays parked; streams that were queued move up meanwhile
			deadline := time.Now().Add(2 * time.Second)
			for limitlab.HandlerGoroutines() > baseline+node.CM.G.Snap().Parked && time.Now().Before(deadline) {
				time.Sleep(200 * time.Microsecond)
			}
			burstID += 100 // second generation: fresh tags
			for i, la := range atts {
				if la != nil {
					fire(la, bs.M[i])
				}
			}
			time.Sleep(us(bs.HoldUs) + time.Millisecond)
			r.Count("limit.staggered_bursts", 1)
			r.Count("limit.handlers_released_early", k)
		}

		letGo()
		results := make([][]limitlab.ReqResult, len(fs))
		hangDeadline := time.After(hangBound)
		for k, f := range fs {
			select {
			case res := <-f.res:
				results[k] = res
				continue
			case <-hangDeadline:
			}
			// The gate is open and every stream that had to be released was
			// released, yet requests of this connection are neither answered
			// nor dropped: its peer loop no longer gets a slot.
			snap := node.CM.G.Snap()
			guaranteed := B <= 0 || B >= L*connsInSubnet[f.la.sub]
			detail := map[string]any{"subnet": f.la.sub, "perPeer": L, "perSubnet": B, "parkedNow": snap.Parked, "subnetDropsSeenEarlier": dropsSeen, "goroutines": limitlab.Keys(limitlab.Inventory(nil)), "stacks": limitlab.Stacks(limitlab.Inventory(nil), 10)}
			switch {
			case f.dropped || snap.Parked != 0:
				r.Inconclusive("limits: a burst did not complete after the gate was opened (undecidable: connection dropped on purpose or handlers still parked)")
			case guaranteed:
				r.Violation("slot-leak:burst-hangs-within-budget", fmt.Sprintf("burst %d: with the gate open and nothing parked, requests of a connection whose subnet budget (%d) cannot be exceeded were neither answered nor dropped within 60 s (per-peer limit %d): a slot was not returned", bi, B, L), vcase(bi), detail)
			case dropsSeen > 0 || (B > 0 && node.CM.Observed().MaxPerSubnet >= B):
				r.Violation("slot-leak:burst-hangs-after-subnet-drops", fmt.Sprintf("burst %d: after the subnet budget had been reached (%d requests dropped by it in earlier bursts of this case), requests of a connection were neither answered nor dropped within 60 s although the gate is open and nothing is parked (per-peer limit %d, per-subnet %d): the per-peer slots of dropped requests were not returned", bi, dropsSeen, L, B), vcase(bi), detail)
			default:
				r.Inconclusive("limits: a burst did not complete after the gate was opened")
			}
			return false
		}

		// every observation must respect the limits
		o := node.CM.Observed()
		r.SetAdd("limit.max_per_peer_by_limit", fmt.Sprintf("L%d:%d", L, o.MaxPerPeer))
		noteMax(fmt.Sprintf("MaxInflightRPCs=%d", L), o.MaxPerPeer)
		if B > 0 {
			r.SetAdd("limit.max_per_subnet_by_limit", fmt.Sprintf("B%d:%d", B, o.MaxPerSubnet))
			noteMax(fmt.Sprintf("MaxInflightRPCsPerSubnet=%d", B), o.MaxPerSubnet)
		} else {
			noteMax(fmt.Sprintf("MaxInflightRPCsPerSubnet=%d(disabled)", B), o.MaxPerSubnet)
		}
		if len(o.Excess) > 0 {
			x := o.Excess[0]
			r.Violation("per-"+x.Kind+"-limit-exceeded", fmt.Sprintf("%d handlers ran concurrently for %s %s, limit %d", x.Observed, x.Kind, x.Key, x.Limit), vcase(bi), o.Excess)
			return false
		}
		if o.MaxPerPeer == L && !bs.HalfOpen {
			r.Count("limit.bursts_reaching_per_peer_limit", 1)
		}
		if B > 0 && o.MaxPerSubnet == B {
			r.Count("limit.bursts_reaching_subnet_limit", 1)
		}

		// back-pressure: no request may be dropped while the subnet budget
		// cannot have been exceeded
		backpressure, drops, answered := false, 0, 0
		for k, f := range fs {
			if f.dropped || bs.HalfOpen {
				continue
			}
			guaranteed := B <= 0 || B >= L*connsInSubnet[f.la.sub]
			var lost []limitlab.ReqResult
			full := 0
			for _, rr := range results[k] {
				if rr.Abandoned {
					r.Count("limit.requests_abandoned", 1)
					continue
				}
				full++
				if rr.OK {
					answered++
				} else {
					lost = append(lost, rr)
				}
			}
			if len(results[k]) > L && guaranteed {
				backpressure = true
			}
			if len(lost) > 0 {
				if guaranteed {
					r.Violation("request-dropped-under-budget", fmt.Sprintf("burst %d: %d of %d requests of one peer were not answered although the subnet budget (%d) cannot be exceeded by %d connection(s) x per-peer limit %d", bi, len(lost), full, B, connsInSubnet[f.la.sub], L),
						vcase(bi), map[string]any{"lost": lost, "subnet": f.la.sub})
					return false
				}
				drops += len(lost)
			}
		}
		r.Count("limit.requests_answered", answered)
		r.Count("limit.requests_dropped_by_subnet_budget", drops)
		dropsSeen += drops
		if backpressure {
			r.Count("limit.backpressure_bursts", 1)
		}
		if drops > 0 {
			r.Count("limit.subnet_drop_bursts", 1)
		}
		if bi > 0 && E > 0 && everReached {
			r.Count("limit.fresh_burst_reached_full_limit", 1)
		}
		ending := "answer"
		switch {
		case bs.HalfOpen:
			ending = "halfopen"
		case len(bs.Disconnect) > 0 && bs.Reconnect:
			ending = "disconnect+reconnect"
		case len(bs.Disconnect) > 0:
			ending = "disconnect"
		case bs.AbandonEvery > 0:
			ending = "abandon"
		case bs.Stagger > 0:
			ending = "staggered"
		}
		r.SetAdd("limit.handler_endings", ending)
		if backpressure || drops > 0 || ending != "answer" {
			r.Distinct(fmt.Sprintf("limits/L%d/B%d/bits%d/conns%s/%s/bp%v/drop%v", L, B, c.V4Bits, subnetShape(connsInSubnet), ending, backpressure, drops > 0))
		}
		return true
	}
	for bi, bs := range c.Bursts {
		if !runBurst(bi, bs) {
			break
		}
	}
}

func subnetShape(m map[string]int) string {
	var v []int
	for _, n := range m {
		v = append(v, n)
	}
	sort.Ints(v)
	return fmt.Sprint(v)
}

// startNoise runs public API calls beside a burst (genuine concurrency for the
// race detector); none of them needs an RPC slot of the attackers.
func startNoise(node *limitlab.Node, w *limitlab.World) (stop func()) {
	quit := make(chan struct{})
	var wg sync.WaitGroup
	wg.Add(2)
	go func() {
		defer wg.Done()
		for i := 0; ; i++ {
			select {
			case <-quit:
				return
			default:
			}
			node.PeerCounts()
			node.S.Addr()
			time.Sleep(200 * time.Microsecond)
		}
	}()
	go func() {
		defer wg.Done()
		for i := 0; i < 3; i++ {
			select {
			case <-quit:
				return
			default:
			}
			node.S.BroadcastV2Header(types.BlockHeader{ParentID: types.BlockID{byte(i)}, Nonce: uint64(i)})
			time.Sleep(300 * time.Microsecond)
		}
	}()
	return func() { close(quit); wg.Wait() }
}

// StallCase is the dedicated scenario for the interplay of the per-peer limit
// with the multiplexer's strictly ordered frame delivery: one peer opens L+2
// streams and the RPC ids reach the syncer before the request bodies (the order
// concurrent Peer.callRPC goroutines of an honest client can produce, because
// id and body are separate writes). The subnet budget is disabled, so every
// request has to be answered.
type StallCase struct {
	Phase        string `json:"phase"`
	Index        int    `json:"index"`
	PerPeer      int    `json:"maxInflightRPCs"`
	Streams      int    `json:"streams"`
	RPCTimeoutMs int    `json:"rpcTimeoutMs"`
	// CoreutilsClient: the peer is a real coreutils syncer whose goroutines
	// call Peer.SendV2Blocks concurrently (Trials rounds of Streams calls);
	// the frame order is then up to the scheduler.
	CoreutilsClient bool `json:"coreutilsClient"`
	Trials          int  `json:"trials,omitempty"`
}

func phaseStall(r *mon.Run) {
	n := r.Pick(1, 3)
	for i := 0; i < n; i++ {
		c := StallCase{Phase: "stall", Index: i, PerPeer: 1 + i, Streams: 3 + i, RPCTimeoutMs: 1500}
		r.Sample(c)
		runStallCase(r, c)
	}
	c := StallCase{Phase: "stall", Index: 10, PerPeer: 1, Streams: 5, RPCTimeoutMs: 1000, CoreutilsClient: true, Trials: r.Pick(150, 600)}
	r.Sample(c)
	runStallCase(r, c)
}

func runStallCoreutilsClient(r *mon.Run, c StallCase, w *limitlab.World, node *limitlab.Node) {
	cl, err := w.NewNode(limitlab.NodeConfig{IP: victimIP(240), Opts: []syncer.Option{
		syncer.WithSyncInterval(time.Hour), syncer.WithPeerDiscoveryInterval(time.Hour)}})
	if err != nil {
		r.Inconclusive("stall: cannot build client node: " + err.Error())
		return
	}
	cl.Start()
	defer closeNode(r, "limit", cl, c)
	ctx, cancel := context.WithTimeout(context.Background(), 10*time.Minute)
	defer cancel()
	p, err := cl.S.Connect(ctx, node.Addr)
	if err != nil {
		r.Inconclusive("stall: client could not connect: " + err.Error())
		return
	}
	hist := []types.BlockID{node.Real.Tip().ID}
	r.Distinct(fmt.Sprintf("stall/coreutils-client/L%d/streams%d", c.PerPeer, c.Streams))
	for t := 0; t < c.Trials; t++ {
		errs := make([]error, c.Streams)
		var wg sync.WaitGroup
		for i := range errs {
			wg.Add(1)
			go func(i int) {
				defer wg.Done()
				_, _, errs[i] = p.SendV2Blocks(ctx, hist, 1, 120*time.Second)
			}(i)
		}
		wg.Wait()
		r.Count("stall.coreutils_client_trials", 1)
		var lost []string
		for _, e := range errs {
			if e != nil {
				lost = append(lost, e.Error())
			}
		}
		if len(lost) > 0 {
			r.Count("stall.coreutils_client_requests_lost", len(lost))
			r.Violation("backpressure-stall-drops-request:coreutils-client", fmt.Sprintf("round %d: %d of %d concurrent Peer.SendV2Blocks calls of a coreutils syncer failed against a coreutils syncer with MaxInflightRPCs=%d and the subnet limit disabled (RPC id and request body are separate writes; the id of a later call overtook the body of an admitted one)", t, len(lost), c.Streams, c.PerPeer), c, lost)
			return
		}
	}
}

func runStallCase(r *mon.Run, c StallCase) {
	r.Eval()
	w := limitlab.NewWorld(uint64(r.Seed)<<16 ^ uint64(c.Index) ^ 0xAA<<40)
	node, err := w.NewNode(limitlab.NodeConfig{IP: victimIP(230 + c.Index), Opts: []syncer.Option{
		syncer.WithSyncInterval(time.Hour), syncer.WithPeerDiscoveryInterval(time.Hour),
		syncer.WithMaxInflightRPCs(c.PerPeer), syncer.WithMaxInflightRPCsPerSubnet(0),
		syncer.WithRPCTimeout(time.Duration(c.RPCTimeoutMs) * time.Millisecond),
	}})
	if err != nil {
		r.Inconclusive("stall: cannot build node: " + err.Error())
		return
	}
	node.CM.SetLimits(c.PerPeer, 0)
	node.CM.RegisterPeer(1, limitlab.SubnetKey("127.18.3.3", 32))
	node.Start()
	defer closeNode(r, "limit", node, c)
	if c.CoreutilsClient {
		runStallCoreutilsClient(r, c, w, node)
		return
	}
	a, err := w.DialAttacker(1, node.Addr, "127.18.3.3", 46000, nil)
	if err != nil {
		r.Inconclusive("stall: attacker could not connect: " + err.Error())
		return
	}
	defer a.Close()
	a.Serve()
	if err := a.Ping(settleBound); err != nil {
		r.Inconclusive("stall: ping failed: " + err.Error())
		return
	}
	res := a.OrderedBurst(1, c.Streams, 120*time.Second)
	var lost []limitlab.ReqResult
	for _, rr := range res {
		if !rr.OK {
			lost = append(lost, rr)
		}
	}
	r.Count("stall.requests_sent", len(res))
	r.Count("stall.requests_answered", len(res)-len(lost))
	r.Distinct(fmt.Sprintf("stall/L%d/streams%d", c.PerPeer, c.Streams))
	if o := node.CM.Observed(); len(o.Excess) > 0 {
		r.Violation("per-peer-limit-exceeded", "limit exceeded in the stall scenario", c, o.Excess)
		return
	}
	if len(lost) > 0 {
		r.Violation("backpressure-stall-drops-request", fmt.Sprintf("%d of %d requests of one peer (MaxInflightRPCs=%d, subnet limit disabled) were dropped after the RPC timeout: the handlers holding the slots waited for request bodies that were queued, inside the multiplexer, behind the id frame of a stream the peer loop could not accept while it was waiting for a slot", len(lost), len(res), c.PerPeer), c, lost)
	}
}

// DropLeakCase is the dedicated scenario for the subnet-drop path: one
// connection has more RPCs dropped by the per-subnet budget than it has
// per-peer slots (over several fully drained rounds); afterwards a burst that
// is within every budget must be served completely on that same connection.
//
//	shared: another connection of the same subnet keeps the budget occupied
//	self:   the subnet budget is below the per-peer limit
type DropLeakCase struct {
	Phase     string `json:"phase"`
	Index     int    `json:"index"`
	Variant   string `json:"variant"`
	PerPeer   int    `json:"maxInflightRPCs"`
	PerSubnet int    `json:"maxInflightRPCsPerSubnet"`
	Rounds    int    `json:"rounds"`
	PerRound  int    `json:"dropsPerRound"`
}

func phaseDropLeak(r *mon.Run) {
	n := r.Pick(6, 40)
	g := &guard{r: r, phase: "dropleak"}
	for i := 0; i < n; i++ {
		rng := r.RNG(0xA800 + uint64(i))
		c := DropLeakCase{Phase: "subnet-drop-leak", Index: i}
		if i%2 == 0 {
			c.Variant = "shared"
			c.PerPeer = 1 + rng.IntN(4)
			c.PerSubnet = 1 + rng.IntN(c.PerPeer)
		} else {
			c.Variant = "self"
			c.PerPeer = 2 + rng.IntN(3)
			c.PerSubnet = 1 + rng.IntN(c.PerPeer-1)
		}
		c.Rounds = 2 + rng.IntN(2)
		c.PerRound = (c.PerPeer+1+c.Rounds-1)/c.Rounds + rng.IntN(2)
		if i < 2 {
			r.Sample(c)
		}
		g.run(func() { runDropLeakCase(r, c) })
	}
	g.done()
}

func runDropLeakCase(r *mon.Run, c DropLeakCase) {
	r.Eval()
	baseline := limitlab.HandlerGoroutines()
	w := limitlab.NewWorld(uint64(r.Seed)<<16 ^ uint64(c.Index) ^ 0xAB<<40)
	node, err := w.NewNode(limitlab.NodeConfig{IP: victimIP(100 + c.Index), Opts: []syncer.Option{
		syncer.WithSyncInterval(time.Hour), syncer.WithPeerDiscoveryInterval(time.Hour),
		syncer.WithMaxInflightRPCs(c.PerPeer), syncer.WithMaxInflightRPCsPerSubnet(c.PerSubnet),
	}})
	if err != nil {
		r.Inconclusive("dropleak: cannot build node: " + err.Error())
		return
	}
	node.CM.SetLimits(c.PerPeer, c.PerSubnet)
	node.Start()
	const ip = "127.18.4.4"
	sub := limitlab.SubnetKey(ip, 32)
	node.CM.RegisterPeer(1, sub)
	node.CM.RegisterPeer(2, sub)
	var atts []*limitlab.Attacker
	defer func() {
		node.CM.G.Open()
		for _, a := range atts {
			a.Close()
		}
		closeNode(r, "limit", node, c)
	}()
	dial := func(idx uint32, port int) *limitlab.Attacker {
		a, err := w.DialAttacker(idx, node.Addr, ip, port, nil)
		if err != nil {
			r.Inconclusive("dropleak: attacker could not connect: " + err.Error())
			return nil
		}
		a.Serve()
		atts = append(atts, a)
		if err := a.Ping(settleBound); err != nil {
			r.Inconclusive("dropleak: ping failed: " + err.Error())
			return nil
		}
		return a
	}
	A := dial(1, 47000)
	if A == nil {
		return
	}
	var X *limitlab.Attacker
	if c.Variant == "shared" {
		if X = dial(2, 47001); X == nil {
			return
		}
	}
	L, B := c.PerPeer, c.PerSubnet
	one := func(a *limitlab.Attacker, id uint32, kind int) chan limitlab.ReqResult {
		ch := make(chan limitlab.ReqResult, 1)
		go func() { ch <- a.Burst(id, []limitlab.ReqPlan{{Kind: kind}}, 3*time.Minute, nil)[0] }()
		return ch
	}
	leak := func(what string, detail any) {
		r.Violation("slot-leak:subnet-drop-path", what, c, detail)
	}
	dropped := 0
	var id uint32
	for round := 0; round < c.Rounds; round++ {
		if !limitlab.WaitHandlersAtMost(baseline, settleBound) {
			r.Inconclusive("dropleak: handlers did not drain between rounds")
			return
		}
		node.CM.G.Shut()
		// fill the subnet budget
		var holders []chan limitlab.ReqResult
		holder := A
		if X != nil {
			holder = X
		}
		for j := 0; j < B; j++ {
			id++
			holders = append(holders, one(holder, id, j))
		}
		if !node.CM.G.WaitFor(settleBound, func(s limitlab.GateSnapshot) bool { return s.Parked >= B }) {
			if dropped >= L {
				leak(fmt.Sprintf("round %d: after %d subnet drops on the connection its requests no longer reach a handler (per-peer limit %d, per-subnet %d)", round, dropped, L, B), limitlab.Keys(limitlab.Inventory(nil)))
			} else {
				r.Inconclusive("dropleak: the budget holders did not park")
			}
			return
		}
		// every further request of A is over the subnet budget: it has to be
		// turned away at once, one by one
		for j := 0; j < c.PerRound; j++ {
			id++
			select {
			case rr := <-one(A, id, j):
				if rr.OK {
					r.Inconclusive("dropleak: a request over the subnet budget was answered while the gate was shut")
					return
				}
				dropped++
				r.Count("dropleak.requests_dropped_on_one_connection", 1)
			case <-time.After(livenessBound):
				leak(fmt.Sprintf("round %d: the request following %d subnet drops on the same connection was neither dropped nor answered within 30 s (per-peer limit %d, per-subnet %d): every dropped RPC kept its per-peer slot, the peer loop is blocked", round, dropped, L, B),
					map[string]any{"dropsBefore": dropped, "goroutines": limitlab.Keys(limitlab.Inventory(nil))})
				return
			}
		}
		node.CM.G.Open()
		for _, h := range holders {
			select {
			case rr := <-h:
				if !rr.OK {
					r.Inconclusive("dropleak: a budget holder was not answered: " + rr.Err)
					return
				}
			case <-time.After(hangBound):
				r.Inconclusive("dropleak: a budget holder did not complete")
				return
			}
		}
		r.Count("dropleak.rounds_drained", 1)
	}
	// the connection has seen more subnet drops than it has slots; a burst
	// within every budget must still be served completely
	if !limitlab.WaitHandlersAtMost(baseline, settleBound) {
		r.Inconclusive("dropleak: handlers did not drain before the final burst")
		return
	}
	node.CM.G.Shut()
	M := minInt(L, B)
	var final []chan limitlab.ReqResult
	for j := 0; j < M; j++ {
		id++
		final = append(final, one(A, id, j))
	}
	if !node.CM.G.WaitFor(livenessBound, func(s limitlab.GateSnapshot) bool { return s.Parked >= M }) {
		leak(fmt.Sprintf("after %d subnet drops on one connection only %d of %d requests of a burst within every budget reached a handler within 30 s (per-peer limit %d, per-subnet %d)", dropped, node.CM.G.Snap().Parked, M, L, B),
			map[string]any{"drops": dropped, "goroutines": limitlab.Keys(limitlab.Inventory(nil))})
		return
	}
	node.CM.G.Open()
	for _, f := range final {
		select {
		case rr := <-f:
			if !rr.OK {
				leak(fmt.Sprintf("after %d subnet drops a request within every budget was not answered: %s", dropped, rr.Err), rr)
				return
			}
		case <-time.After(hangBound):
			leak("a request within every budget was neither answered nor dropped within 60 s after the gate was opened", nil)
			return
		}
	}
	r.Count("dropleak.final_bursts_served_completely", 1)
	r.Count("dropleak.cases", 1)
	if o := node.CM.Observed(); len(o.Excess) > 0 {
		r.Violation("per-"+o.Excess[0].Kind+"-limit-exceeded", "limit exceeded in the subnet-drop scenario", c, o.Excess)
		return
	}
	if dropped > L {
		r.Distinct(fmt.Sprintf("dropleak/%s/L%d/B%d/drops%d", c.Variant, L, B, dropped))
	}
}
