package limits

import (
	"fmt"
	"math/rand/v2"
	"sync"
	"sync/atomic"
	"time"

	"go.sia.tech/coreutils/syncer"
	"verif/harness/lab/limitlab"
	"verif/harness/mon"
)

// InboundCapCase: N peers connect at once to a syncer whose inbound cap is Cap.
type InboundCapCase struct {
	Phase     string `json:"phase"`
	Index     int    `json:"index"`
	Cap       int    `json:"maxInboundPeers"`
	N         int    `json:"attempts"`
	IPs       []string
	HoldUs    []int `json:"holdUs"`    // how long each peer dawdles between TCP connect and handshake
	Barrier   bool  `json:"barrier"`   // instead: every peer starts its handshake once all N passed the admission check
	PSDelayUs int   `json:"psDelayUs"` // peer store AddPeer/UpdatePeerInfo latency (PRNG, up to)
}

// OutboundCapCase: the peer loop of a syncer whose outbound cap is Cap is
// offered N candidates.
type OutboundCapCase struct {
	Phase      string `json:"phase"`
	Index      int    `json:"index"`
	Cap        int    `json:"maxOutboundPeers"`
	N          int    `json:"candidates"`
	HoldUs     []int  `json:"holdUs"`
	Churn      int    `json:"churn"`
	IntervalMs int    `json:"discoveryIntervalMs"`
}

func genInboundCap(rng *rand.Rand, idx int, barrier bool) InboundCapCase {
	c := InboundCapCase{Phase: "inbound-cap", Index: idx, Barrier: barrier}
	c.Cap = pick(rng, 1, 2, 2, 3, 5, 8)
	c.N = pick(rng, 4, 6, 8, 12, 16, 24, 32, 64)
	c.PSDelayUs = pick(rng, 0, 0, 200, 1000)
	for i := 0; i < c.N; i++ {
		c.IPs = append(c.IPs, fmt.Sprintf("127.%d.%d.%d", pick(rng, 18, 19), 1+rng.IntN(3), 1+rng.IntN(40)))
		c.HoldUs = append(c.HoldUs, rng.IntN(1+pick(rng, 0, 500, 5000, 20000)))
	}
	return c
}

func genOutboundCap(rng *rand.Rand, idx int) OutboundCapCase {
	c := OutboundCapCase{Phase: "outbound-cap", Index: idx}
	c.Cap = pick(rng, 1, 2, 3, 4)
	c.N = pick(rng, 4, 6, 8, 12, 16)
	c.Churn = rng.IntN(3)
	c.IntervalMs = pick(rng, 5, 10, 20)
	for i := 0; i < c.N; i++ {
		c.HoldUs = append(c.HoldUs, rng.IntN(1+pick(rng, 0, 500, 3000)))
	}
	return c
}

func phaseCaps(r *mon.Run) {
	g := &guard{r: r, phase: "caps"}
	nIn := r.Pick(24, 160)
	for i := 0; i < nIn; i++ {
		// the first case of every run is the dedicated reproduction of the
		// check-then-act window (all attempts pass the admission check before
		// any of them finishes its handshake)
		c := genInboundCap(r.RNG(0xB000+uint64(i)), i, i == 0 || i%5 == 4)
		if i == 0 {
			r.Sample(c)
		}
		g.run(func() { runInboundCap(r, c) })
	}
	nOut := r.Pick(8, 50)
	for i := 0; i < nOut; i++ {
		c := genOutboundCap(r.RNG(0xB800+uint64(i)), i)
		g.run(func() { runOutboundCap(r, c) })
	}
	g.done()
}

// sampler polls Peers() continuously and keeps the maxima.
type sampler struct {
	maxIn, maxOut atomic.Int64
	samples       atomic.Int64
	quit          chan struct{}
	wg            sync.WaitGroup
}

func startSampler(n *limitlab.Node) *sampler {
	s := &sampler{quit: make(chan struct{})}
	s.wg.Add(1)
	go func() {
		defer s.wg.Done()
		for {
			select {
			case <-s.quit:
				return
			default:
			}
			in, out := n.PeerCounts()
			if int64(in) > s.maxIn.Load() {
				s.maxIn.Store(int64(in))
			}
			if int64(out) > s.maxOut.Load() {
				s.maxOut.Store(int64(out))
			}
			s.samples.Add(1)
			time.Sleep(100 * time.Microsecond)
		}
	}()
	return s
}

func (s *sampler) stop() { close(s.quit); s.wg.Wait() }

func closeNode(r *mon.Run, prefix string, node *limitlab.Node, cse any) bool {
	p := bounded(func() { node.S.Close() })
	if !p.wait(livenessBound) {
		r.Violation("syncer-close-timeout:"+prefix, "Syncer.Close did not return within 30 s", cse, limitlab.Keys(limitlab.Inventory(nil)))
		return false
	}
	countLatency(r, prefix, p.latency())
	if !node.WaitRun(livenessBound) {
		r.Violation("run-outlives-close", "Run had not returned 30 s after Close returned", cse, limitlab.Keys(limitlab.Inventory(nil)))
		return false
	}
	return true
}

func runInboundCap(r *mon.Run, c InboundCapCase) {
	r.Eval()
	transportsBefore := len(limitlab.TransportGoroutines())
	w := limitlab.NewWorld(uint64(r.Seed)<<16 ^ uint64(c.Index) ^ 0xB<<40)
	node, err := w.NewNode(limitlab.NodeConfig{IP: victimIP(c.Index + 40), Opts: []syncer.Option{
		syncer.WithSyncInterval(time.Hour), syncer.WithPeerDiscoveryInterval(time.Hour),
		syncer.WithMaxInboundPeers(c.Cap), syncer.WithConnectTimeout(90 * time.Second),
	}})
	if err != nil {
		r.Inconclusive("caps: cannot build node: " + err.Error())
		return
	}
	if c.PSDelayUs > 0 {
		lr := limitlab.NewLockedRand(r.RNG(0xB100 + uint64(c.Index)))
		node.PS.SetDelay(func(m string) time.Duration {
			if m == "AddPeer" || m == "UpdatePeerInfo" {
				return lr.Dur(us(c.PSDelayUs))
			}
			return 0
		})
	}
	node.Start()
	smp := startSampler(node)

	var mu sync.Mutex
	var atts []*limitlab.Attacker
	var admitted, handshook, refused int
	var wg sync.WaitGroup
	for i := 0; i < c.N; i++ {
		wg.Add(1)
		go func(i int) {
			defer wg.Done()
			hold := func() { time.Sleep(us(c.HoldUs[i])) }
			if c.Barrier {
				hold = func() { node.PS.WaitBanned(c.N, 20*time.Second) }
			}
			a, err := w.DialAttacker(uint32(i+1), node.Addr, c.IPs[i], 30000+i, hold)
			if err != nil {
				mu.Lock()
				refused++
				mu.Unlock()
				return
			}
			a.Serve()
			ok := a.Ping(settleBound) == nil
			mu.Lock()
			atts = append(atts, a)
			handshook++
			if ok {
				admitted++
			}
			mu.Unlock()
		}(i)
	}
	wg.Wait()
	// quiescence: every attempt is either admitted (answered a ping, hence was
	// added and runs its RPC loop) or was turned away
	in, _ := node.PeerCounts()
	smp.stop()
	maxIn := int(smp.maxIn.Load())
	r.Count("caps.inbound_attempted", c.N)
	r.Count("caps.inbound_admitted", admitted)
	r.Count("caps.inbound_refused", c.N-admitted)
	r.Count("caps.inbound_refused_before_handshake", refused)
	r.Count("caps.peers_samples", int(smp.samples.Load()))
	r.SetAdd("caps.inbound_configs", fmt.Sprintf("cap%d/n%d", c.Cap, c.N))
	if c.N > c.Cap {
		r.Distinct(fmt.Sprintf("inbound-cap/cap%d/n%d/barrier%v/psdelay%d", c.Cap, c.N, c.Barrier, c.PSDelayUs))
	}
	worst := maxIn
	if in > worst {
		worst = in
	}
	if admitted > worst {
		worst = admitted
	}
	if worst > c.Cap {
		r.Count("caps.inbound_cap_exceeded_cases", 1)
		r.Violation("inbound-cap-exceeded", fmt.Sprintf("MaxInboundPeers=%d but %d inbound peers were connected at once (%d simultaneous attempts; Peers() max sampled %d, at quiescence %d, peers answering RPCs %d)", c.Cap, worst, c.N, maxIn, in, admitted),
			c, map[string]any{"cap": c.Cap, "attempted": c.N, "admitted": admitted, "handshakes": handshook, "refusedBeforeHandshake": refused, "peersMaxSampled": maxIn, "peersAtQuiescence": in, "admissionChecksSeen": node.PS.BannedCalls()})
	}
	for _, a := range atts {
		a.Close()
	}
	if !closeNode(r, "caps", node, c) {
		return
	}
	// every attacker has closed its multiplexer and the syncer is closed: the
	// transports of the connections it turned away must be gone as well
	if left, ok := limitlab.SettleTransports(transportsBefore, settleBound); !ok {
		r.Count("caps.transport_goroutines_left_behind", len(left)-transportsBefore)
		r.Violation("transport-goroutines-left-behind:rejected-inbound-peer", fmt.Sprintf("%d multiplexer goroutines of the syncer's transports are still running after Syncer.Close returned and every remote peer hung up (%d of %d inbound connections had been turned away after their handshake): a rejected connection's transport is never closed, only its socket", len(left)-transportsBefore, handshook-admitted, c.N),
			c, map[string]any{"left": len(left) - transportsBefore, "handshakes": handshook, "admitted": admitted, "sample": limitlab.Stacks(left, 3)})
	}
}

func runOutboundCap(r *mon.Run, c OutboundCapCase) {
	r.Eval()
	w := limitlab.NewWorld(uint64(r.Seed)<<16 ^ uint64(c.Index) ^ 0xC<<40)
	node, err := w.NewNode(limitlab.NodeConfig{IP: victimIP(c.Index + 140), Opts: []syncer.Option{
		syncer.WithSyncInterval(time.Hour), syncer.WithPeerDiscoveryInterval(time.Duration(c.IntervalMs) * time.Millisecond),
		syncer.WithMaxOutboundPeers(c.Cap), syncer.WithConnectTimeout(60 * time.Second),
	}})
	if err != nil {
		r.Inconclusive("caps: cannot build node: " + err.Error())
		return
	}
	var acs []*limitlab.Acceptor
	defer func() {
		for _, ac := range acs {
			ac.Close()
		}
	}()
	for i := 0; i < c.N; i++ {
		d := us(c.HoldUs[i])
		ac, err := w.NewAcceptor(fmt.Sprintf("127.0.19.%d", 1+(c.Index*16+i)%250), func() { time.Sleep(d) })
		if err != nil {
			r.Inconclusive("caps: cannot listen: " + err.Error())
			return
		}
		acs = append(acs, ac)
		node.PS.Seed(ac.Addr)
	}
	node.Start()
	smp := startSampler(node)
	hs := func() int {
		n := 0
		for _, ac := range acs {
			n += int(ac.Handshakes())
		}
		return n
	}
	waitOut := func(want int) bool {
		deadline := time.Now().Add(10 * time.Second)
		for time.Now().Before(deadline) {
			if _, out := node.PeerCounts(); out >= want {
				return true
			}
			time.Sleep(time.Millisecond)
		}
		return false
	}
	reached := waitOut(minInt(c.Cap, c.N))
	for k := 0; k < c.Churn && reached; k++ {
		for _, ac := range acs {
			ac.DropConns()
		}
		r.Count("caps.outbound_churn_rounds", 1)
		left := c.N - hs()
		reached = waitOut(minInt(c.Cap, left))
	}
	time.Sleep(time.Duration(3*c.IntervalMs) * time.Millisecond)
	_, out := node.PeerCounts()
	smp.stop()
	maxOut := int(smp.maxOut.Load())
	r.Count("caps.outbound_candidates", c.N)
	r.Count("caps.outbound_handshakes", hs())
	r.Count("caps.outbound_dials", int(node.D.Dials()))
	r.Count("caps.peers_samples", int(smp.samples.Load()))
	if reached {
		r.Count("caps.outbound_reached_cap", 1)
	}
	if c.N > c.Cap {
		r.Distinct(fmt.Sprintf("outbound-cap/cap%d/n%d/churn%d", c.Cap, c.N, c.Churn))
	}
	if maxOut > c.Cap || out > c.Cap {
		r.Violation("outbound-cap-exceeded", fmt.Sprintf("MaxOutboundPeers=%d but %d outbound peers were connected at once", c.Cap, maxInt(maxOut, out)), c, map[string]any{"maxSampled": maxOut, "atEnd": out, "handshakes": hs()})
	}
	closeNode(r, "caps", node, c)
}

func maxInt(a, b int) int {
	if a > b {
		return a
	}
	return b
}
