package byz

import (
	"context"
	"fmt"
	"math/rand/v2"
	"net"
	"strings"
	"sync/atomic"
	"time"

	"go.sia.tech/core/consensus"
	"go.sia.tech/core/gateway"
	"go.sia.tech/core/types"
	"go.sia.tech/coreutils/syncer"
	"verif/harness/lab/chainlab"
	"verif/harness/lab/p2plab"
	"verif/harness/mon"
)

// runPoisonNext: victim and honest peer are in sync at tip T. The Byzantine
// peer announces the next block X by header and serves a block with X's id but
// another body (possible for v2 blocks below the require height, where blocks
// are matched to headers by id only). The victim rejects it and bans the peer.
// Then the honest peer obtains the real X and announces it; the victim must
// adopt it within the bound.
func runPoisonNext(r *mon.Run, cc c11Case) {
	rng := r.RNG(cc.Stream)
	p := chainlab.RandomParams("mix", rng)
	p.Allow = uint64(3 + rng.IntN(5))
	p.Require = p.Allow + 400
	p.FinalCut = p.Require + 2
	cc.Params, cc.NetRegime = p, "mix-late-require"
	env := chainlab.NewEnv(p)
	cc.InitialTarget = []byte{0x08, 0x10, 0x20, 0xFF}[rng.IntN(4)]
	env.Net.InitialTarget = types.BlockID{cc.InitialTarget}
	t := chainlab.NewTree(env, rng)
	prof := chainlab.Profile{MaxTxns: 3}
	T := p2plab.GrowMixed(t, t.Root, int(p.Allow)+1+rng.IntN(5), 2, prof)
	X := p2plab.V2Child(t, T)
	if X == nil {
		r.Count("cases_skipped:no v2 child", 1)
		return
	}
	X2 := t.Extend(X, prof)
	swapped, ok := p2plab.SwapBody(t, X)
	if !ok {
		r.Count("cases_skipped:no same-id body", 1)
		return
	}
	cc.VictimTip, cc.VictimHeight, cc.HonestTip, cc.HonestHeight, cc.ByzTip = T.Idx, T.Height, X.Idx, X.Height, X.Idx
	slot := p2plab.NextSlot()
	act := p2plab.NewActivity()
	prng := rand.New(rand.NewPCG(uint64(r.Seed)+913, cc.Stream))
	mk := func(name string, i int) (*p2plab.Node, error) {
		return p2plab.NewNode(p2plab.NodeOpts{Activity: act, Name: name, IP: p2plab.HonestIP(slot, i), Tree: t, Tip: T,
			SyncInterval: time.Duration(50+prng.IntN(50)) * time.Millisecond, DiscoveryInterval: time.Hour, RPCTimeout: 2 * time.Second})
	}
	v, err1 := mk("victim", 0)
	h, err2 := mk("honest", 1)
	if err1 != nil || err2 != nil {
		r.Inconclusive(fmt.Sprintf("C11 case %d: cannot build nodes: %v %v", cc.Stream, err1, err2))
		return
	}
	nodes := []*p2plab.Node{v, h}
	v.Start()
	h.Start()
	if err := h.Connect(v.Addr); err != nil {
		r.Count("honest_connect_errors", 1)
	}
	// wait until both sides consider each other synced
	synced := false
	for i := 0; i < 400 && !synced; i++ {
		a, _ := v.PeerSynced(h.Addr)
		b, _ := h.PeerSynced(v.Addr)
		synced = a && b
		time.Sleep(25 * time.Millisecond)
	}
	if !synced {
		r.Count("cases_skipped:peers never marked each other synced", 1)
		closeAll(r, nodes)
		return
	}
	var b1 *p2plab.Byz
	delivered := false
	if cc.Mix != "H" {
		var err error
		b1, err = p2plab.NewByz("byz1", p2plab.ByzIP(slot, 0), t, X)
		if err == nil {
			b1.Activity = act
		}
		if err != nil {
			r.Inconclusive(fmt.Sprintf("C11 case %d: cannot build byzantine peer: %v", cc.Stream, err))
			closeAll(r, nodes)
			return
		}
		defer b1.Close()
		b1.OnSendV2Blocks = func(b *p2plab.Byz, rq *gateway.RPCSendV2Blocks) p2plab.Reply {
			b.HonestBlocks(rq)
			for i := range rq.Blocks {
				if rq.Blocks[i].ID() == X.ID {
					rq.Blocks[i] = swapped
					return p2plab.Reply{Obj: rq, Faulted: true}
				}
			}
			return p2plab.Reply{Obj: rq}
		}
		if err := b1.Dial(v.Addr); err != nil {
			r.Count("byzantine_dial_errors", 1)
		}
		for i := 0; i < 400; i++ {
			if b1.Counter("faulted:SendV2Blocks") > 0 && len(v.PS.BansFor(b1.IP)) > 0 {
				delivered = true
				break
			}
			time.Sleep(25 * time.Millisecond)
		}
		time.Sleep(100 * time.Millisecond)
	}
	// the honest peer now holds the real block and announces it
	if err := h.ACM.AddBlocks([]types.Block{X.Block}); err != nil {
		r.Inconclusive(fmt.Sprintf("C11 case %d: honest peer rejected the valid block: %v", cc.Stream, err))
	}
	t0 := time.Now()
	reached := false
	var announcing atomic.Bool
	wt := newWaiter(act, c11ProgressBound)
	for iter := 1; ; iter++ {
		if wt.step() != "" {
			break
		}
		v.Mon.Sample()
		if v.CM.Tip().ID == X.ID {
			reached = true
			break
		}
		if iter%4 == 0 && announcing.CompareAndSwap(false, true) {
			go func() { defer announcing.Store(false); h.Announce() }()
		}
		time.Sleep(50 * time.Millisecond)
	}
	progressMS := time.Since(t0).Milliseconds()
	// diagnosis: does the next block heal it?
	healed := false
	if !reached {
		h.ACM.AddBlocks([]types.Block{X2.Block})
		t1 := time.Now()
		for time.Since(t1) < 30*time.Second {
			if v.CM.Tip().ID == X2.ID {
				healed = true
				break
			}
			if announcing.CompareAndSwap(false, true) {
				go func() { defer announcing.Store(false); h.Announce() }()
			}
			time.Sleep(100 * time.Millisecond)
		}
	}
	var peersNow []string
	for _, p := range v.S.Peers() {
		peersNow = append(peersNow, fmt.Sprintf("%s synced=%v err=%v", p.Addr(), p.Synced(), p.Err()))
	}
	if b1 != nil {
		b1.Close()
	}
	closeAll(r, nodes)
	r.Eval()
	detail := map[string]any{"victim": reportOf(v), "honest": reportOf(h), "victim_peers_at_end": peersNow, "healed_by_the_following_block": healed, "tree": summarize(t)}
	if b1 != nil {
		detail["byzantine_counters"] = b1.Counters()
		for k, n := range b1.Counters() {
			r.Count("byzantine_"+k, n)
		}
	}
	if cc.Mix == "H" {
		if reached {
			r.Count("selfcheck_block_announced_by_synced_honest_peer_adopted", 1)
		} else {
			if wt.verdict == "slow" {
				slowCase(r, fmt.Sprintf("C11 stream=%d %v", cc.Stream, wt.info()))
			} else {
				detail["liveness"] = wt.info()
				r.Violation("stall:block-announced-by-synced-honest-peer-not-adopted", "a valid block announced by a connected, synced honest peer was not adopted within the bound (no Byzantine peer involved)", cc, detail)
			}
		}
	} else if delivered {
		r.Count("faults_delivered", 1)
		r.Distinct("poisoned-next-block/" + cc.Mix)
		r.SetAdd("fault_rows_delivered", "SendV2Blocks/same-id-other-body@next-block/below")
		if reached {
			r.Count("cases_with_honest_peer_reaching_honest_tip", 1)
			r.Count("poisoned_block_id_adopted_after_ms<2000", b2i(progressMS < 2000))
		} else {
			fmt.Printf("note: C11 stream=%d stall:poisoned-block-id healed_by_next_block=%v peers=%v\n", cc.Stream, healed, peersNow)
			if wt.verdict == "slow" {
				slowCase(r, fmt.Sprintf("C11 stream=%d %v", cc.Stream, wt.info()))
			} else {
				detail["liveness"] = wt.info()
				r.Violation("stall:poisoned-block-id:SendV2Blocks/same-id-other-body", "after a Byzantine peer served a block with the id of the next valid block but another body, the victim ignored the real block announced by its synced honest peer for the whole bound", cc, detail)
			}
		}
	} else {
		r.Count("faults_not_delivered:SendV2Blocks/same-id-other-body@next-block", 1)
	}
	for _, br := range v.PS.Bans() {
		r.Count("bans_observed:"+banReasonClass(br.Reason), 1)
		r.Count("bans_observed_total", 1)
	}
	for _, n := range nodes {
		for _, fd := range n.Mon.Final() {
			r.Violation(fd.Sig+":poisoned-next-block", fd.What, cc, map[string]any{"finding": fd.Detail, "run": detail})
		}
		countMonitor(r, n)
	}
}

func b2i(b bool) int {
	if b {
		return 1
	}
	return 0
}

// runInstantSync: the victim bootstraps with syncer.RetrieveCheckpoint from a
// peer list containing a Byzantine peer (answering SendCheckpoint with the
// scripted fault) and possibly an honest peer, initialises its store at that
// checkpoint and syncs the rest.
func runInstantSync(r *mon.Run, cc c11Case) {
	rng := r.RNG(cc.Stream)
	f, ok := findFault("SendCheckpoint", cc.Fault, "above")
	if !ok {
		return
	}
	var p chainlab.Params
	trunk := 0
	if rng.IntN(2) == 0 {
		p = chainlab.RandomParams("v2only", rng)
		cc.NetRegime = "v2only"
		trunk = 6 + rng.IntN(20)
	} else {
		p = chainlab.RandomParams("mix", rng)
		cc.NetRegime = "mix"
		trunk = int(p.Require) + 5 + rng.IntN(20)
	}
	cc.Params = p
	env := chainlab.NewEnv(p)
	cc.InitialTarget = []byte{0x08, 0x10, 0x20, 0xFF}[rng.IntN(4)]
	env.Net.InitialTarget = types.BlockID{cc.InitialTarget}
	t := chainlab.NewTree(env, rng)
	prof := chainlab.Profile{MaxTxns: 3}
	hTip := p2plab.GrowMixed(t, t.Root, trunk, 2, prof)
	// checkpoint: a v2 block above the require height, 1..9 blocks below the
	// honest tip (larger gaps run into an honest-only liveness problem that C12
	// reports on its own: a full node drops a freshly bootstrapped peer whose
	// checkpoint height is not in its history sample)
	gap := 1 + rng.IntN(9)
	largeGap := false
	if rng.IntN(4) == 0 {
		gap = []int{10, 12, 13, 14, 20}[rng.IntN(5)]
		largeGap = true
		if trunk < gap+int(p.Require)+3 {
			hTip = p2plab.GrowMixed(t, hTip, gap+int(p.Require)+3-trunk, 2, prof)
		}
	}
	if int(hTip.Height)-gap <= int(p.Require) {
		gap = int(hTip.Height) - int(p.Require) - 1
		largeGap = false
	}
	cp := hTip.Ancestor(hTip.Height - uint64(max(gap, 1)))
	if cp == nil || cp.Block.V2 == nil || cp.Parent == nil || cp.Height <= p.Require {
		r.Count("cases_skipped:no checkpoint candidate", 1)
		return
	}
	cc.VictimTip, cc.VictimHeight, cc.HonestTip, cc.HonestHeight, cc.ByzTip = cp.Idx, cp.Height, hTip.Idx, hTip.Height, hTip.Idx
	sc := &scene{cc: &cc, f: f, rng: rng, t: t, vTip: cp, hTip: hTip, bTip: hTip}
	slot := p2plab.NextSlot()
	act := p2plab.NewActivity()
	prng := rand.New(rand.NewPCG(uint64(r.Seed)+917, cc.Stream))
	withH := cc.Mix != "B"
	var h *p2plab.Node
	var nodes []*p2plab.Node
	if withH {
		var err error
		h, err = p2plab.NewNode(p2plab.NodeOpts{Activity: act, Name: "honest", IP: p2plab.HonestIP(slot, 1), Tree: t, Tip: hTip, KeepLog: true,
			SyncInterval: 400 * time.Millisecond, DiscoveryInterval: time.Hour, RPCTimeout: 2 * time.Second})
		if err != nil {
			r.Inconclusive(fmt.Sprintf("C11 case %d: cannot build honest peer: %v", cc.Stream, err))
			return
		}
		h.Start()
		nodes = append(nodes, h)
	}
	b1, err := p2plab.NewByz("byz1", p2plab.ByzIP(slot, 0), t, hTip)
	if err != nil {
		r.Inconclusive(fmt.Sprintf("C11 case %d: cannot build byzantine peer: %v", cc.Stream, err))
		closeAll(r, nodes)
		return
	}
	defer b1.Close()
	b1.Activity = act
	installHooks(sc, b1)
	peers := []string{b1.Addr}
	if withH {
		peers = append(peers, h.Addr)
		if prng.IntN(2) == 0 {
			peers[0], peers[1] = peers[1], peers[0]
		}
	}
	// like any caller with several bootstrap peers, retry a failed retrieval: the
	// ephemeral client inside RetrieveCheckpoint never services inbound streams,
	// so a request the serving node opens towards it at the wrong moment blocks
	// its mux read loop until the RPC times out (honest-only; counted, not judged)
	var st consensus.State
	var blk types.Block
	var rerr error
	var lastAttempt time.Duration
	for attempt := 0; attempt < 3; attempt++ {
		d := 45 * time.Second
		if !withH {
			d = 6 * time.Second
		}
		ctx, cancel := context.WithTimeout(context.Background(), d)
		tAttempt := time.Now()
		st, blk, rerr = syncer.RetrieveCheckpoint(ctx, peers, cp.L.State.Index, env.Net, env.Genesis.ID())
		cancel()
		lastAttempt = time.Since(tAttempt)
		if rerr == nil || !withH {
			break
		}
		r.Count("retrieve_checkpoint_retries_with_honest_peer_listed", 1)
	}
	r.Eval()
	delivered := b1.Counter("faulted:SendCheckpoint") > 0
	detail := map[string]any{"peers": peers, "byzantine_counters": b1.Counters(), "retrieve_error": fmt.Sprint(rerr), "tree": summarize(t)}
	if delivered {
		r.Count("faults_delivered", 1)
		r.Distinct("instant-sync/" + cc.Fault + "/" + cc.Mix)
		r.SetAdd("fault_rows_delivered", "RetrieveCheckpoint/"+cc.Fault)
	} else {
		r.Count("faults_not_delivered:RetrieveCheckpoint/"+cc.Fault, 1)
	}
	for k, n := range b1.Counters() {
		r.Count("byzantine_"+k, n)
	}
	if rerr == nil {
		r.Count("instant_sync_checkpoints_retrieved", 1)
		if largeGap {
			r.Count("instant_sync_cases_with_checkpoint_gap_ge_10", 1)
		}
		if chainlab.StateBytes(st) != chainlab.StateBytes(cp.Parent.L.State) || encodeBlock(blk) != encodeBlock(cp.Block) {
			r.Violation("instant-sync-accepted-bogus-checkpoint:"+cc.Fault, "RetrieveCheckpoint returned a (state, block) pair that is not the requested block with its true parent state", cc, detail)
			closeAll(r, nodes)
			return
		}
	} else {
		r.Count("instant_sync_retrieval_failed", 1)
		if withH {
			if msg, ok := h.RunExited(); ok {
				detail["honest_syncer_run"] = msg
			}
			detail["honest_log_tail"] = h.LogTail()
			detail["probe_after_failure"] = probeCheckpoint(env, h.Addr, cp)
			fmt.Printf("note: C11 stream=%d RetrieveCheckpoint failed with an honest peer listed: %v; direct probe afterwards: %v; honest log: %v\n", cc.Stream, rerr, detail["probe_after_failure"], h.LogTail())
			if lastAttempt >= 20*time.Second {
				// the attempts ran into their timeouts: on a saturated machine that is not a verdict
				slowCase(r, fmt.Sprintf("C11 stream=%d RetrieveCheckpoint timed out three times with an honest peer listed (last attempt %v)", cc.Stream, lastAttempt))
			} else {
				r.Violation("stall:instant-sync:"+cc.Fault, "RetrieveCheckpoint failed although an honest peer holding the checkpoint was in the peer list", cc, detail)
			}
		}
		closeAll(r, nodes)
		return
	}
	// initialise the victim at the retrieved checkpoint and sync the rest
	v, err := p2plab.NewNode(p2plab.NodeOpts{Activity: act, Name: "victim", IP: p2plab.HonestIP(slot, 0), Tree: t, Tip: cp, Checkpoint: cp, KeepLog: true,
		SyncInterval: time.Duration(50+prng.IntN(50)) * time.Millisecond, DiscoveryInterval: time.Duration(50+prng.IntN(50)) * time.Millisecond, RPCTimeout: 2 * time.Second})
	if err != nil {
		r.Inconclusive(fmt.Sprintf("C11 case %d: cannot initialise the victim at the checkpoint: %v", cc.Stream, err))
		closeAll(r, nodes)
		return
	}
	nodes = append(nodes, v)
	v.Start()
	if err := b1.Dial(v.Addr); err != nil {
		r.Count("byzantine_dial_errors", 1)
	}
	time.Sleep(time.Duration(prng.IntN(300)) * time.Millisecond)
	var wt *waiter
	reached := false
	if withH {
		if err := v.Connect(h.Addr); err != nil {
			r.Count("honest_connect_errors", 1)
			detail["first_connect_error"] = err.Error()
		}
		var announcing atomic.Bool
		wt = newWaiter(act, c11ProgressBound)
		for iter := 1; ; iter++ {
			wt.deadline = c11ProgressBound + time.Duration(b1.Counter("silence:SendHeaders"))*c11SilenceBonus
			if wt.step() != "" {
				break
			}
			v.Mon.Sample()
			if v.CM.Tip().ID == hTip.ID {
				reached = true
				break
			}
			if iter%4 == 0 && announcing.CompareAndSwap(false, true) {
				go func() { defer announcing.Store(false); h.Announce() }()
			}
			if iter%20 == 0 && !v.HasPeer(h.Addr) && !h.HasPeer(v.Addr) {
				if banned, _ := v.PS.Banned(h.IP); !banned {
					if err := v.Connect(h.Addr); err != nil {
						detail["last_redial_error"] = err.Error()
					}
					r.Count("honest_redials", 1)
				}
			}
			time.Sleep(50 * time.Millisecond)
		}
	} else {
		for i := 0; i < 40; i++ {
			v.Mon.Sample()
			time.Sleep(50 * time.Millisecond)
		}
	}
	detail["victim"] = reportOf(v)
	detail["victim_log_tail"] = v.LogTail()
	detail["byzantine_counters_at_end"] = b1.Counters()
	var peersNow []string
	for _, p := range v.S.Peers() {
		peersNow = append(peersNow, fmt.Sprintf("%s synced=%v err=%v", p.Addr(), p.Synced(), p.Err()))
	}
	detail["victim_peers_at_end"] = peersNow
	if h != nil {
		var hp []string
		for _, p := range h.S.Peers() {
			hp = append(hp, fmt.Sprintf("%s synced=%v err=%v inbound=%v", p.Addr(), p.Synced(), p.Err(), p.Inbound))
		}
		detail["honest_peers_at_end"] = hp
		if msg, ok := h.RunExited(); ok {
			detail["honest_syncer_run"] = msg
		}
		detail["honest_log_tail"] = h.LogTail()
		detail["honest_bans"] = h.PS.Bans()
	}
	b1.Close()
	closeAll(r, nodes)
	if withH {
		if reached {
			r.Count("cases_with_honest_peer_reaching_honest_tip", 1)
			r.Count("instant_sync_victims_synced_to_honest_tip", 1)
		} else {
			sig := "stall:after-instant-sync:" + cc.Fault
			if largeGap {
				sig = "stall:after-instant-sync:checkpoint-gap-not-in-peer-history"
			}
			detail["checkpoint_gap"] = gap
			if wt.verdict == "slow" {
				slowCase(r, fmt.Sprintf("C11 stream=%d %v", cc.Stream, wt.info()))
			} else {
				detail["liveness"] = wt.info()
				r.Violation(sig, "a victim initialised at a retrieved checkpoint did not reach the honest tip within the bound", cc, detail)
			}
		}
	}
	for _, br := range v.PS.Bans() {
		r.Count("bans_observed:"+banReasonClass(br.Reason), 1)
		r.Count("bans_observed_total", 1)
	}
	for _, n := range nodes {
		for _, fd := range n.Mon.Final() {
			r.Violation(fd.Sig+":instant-sync", fd.What, cc, map[string]any{"finding": fd.Detail, "run": detail})
		}
		countMonitor(r, n)
	}
}

func encodeBlock(b types.Block) string { return chainlabEncode(types.V2Block(b)) }

// probeCheckpoint asks addr for the checkpoint directly (diagnosis only).
func probeCheckpoint(env *chainlab.Env, addr string, cp *chainlab.Node) string {
	conn, err := net.DialTimeout("tcp", addr, 3*time.Second)
	if err != nil {
		return "dial: " + err.Error()
	}
	defer conn.Close()
	conn.SetDeadline(time.Now().Add(5 * time.Second))
	tr, err := gateway.Dial(conn, gateway.Header{GenesisID: env.Genesis.ID(), UniqueID: gateway.GenerateUniqueID(), NetAddress: "ephemeral:0"})
	if err != nil {
		return "handshake: " + err.Error()
	}
	defer tr.Close()
	st, err := tr.DialStream()
	if err != nil {
		return "stream: " + err.Error()
	}
	defer st.Close()
	st.SetDeadline(time.Now().Add(5 * time.Second))
	rq := &gateway.RPCSendCheckpoint{Index: cp.L.State.Index}
	if err := st.WriteID(rq); err != nil {
		return "write id: " + err.Error()
	} else if err := st.WriteRequest(rq); err != nil {
		return "write request: " + err.Error()
	} else if err := st.ReadResponse(rq); err != nil {
		return "read response: " + err.Error()
	}
	return fmt.Sprintf("ok: block %v", rq.Block.ID())
}

// runHonestPrefix: a Byzantine peer offers the honest chain A1..Ak extended by
// one properly mined block X whose body is invalid. The victim validates and
// stores A1..Ak, fails at X, rolls back and bans the peer. An honest peer whose
// tip is exactly Ak (it never grows during the wait) then offers A1..Ak, which
// the victim has already validated; the victim must adopt Ak.
//
// cc.Pos carries k ("k=1", "k=several", "k=chunks"), cc.HonestDials the order
// (true: the honest peer is connected and in sync with the victim before the
// Byzantine episode and obtains A1..Ak afterwards; false: it connects after).
func runHonestPrefix(r *mon.Run, cc c11Case) {
	rng := r.RNG(cc.Stream)
	prof := chainlab.Profile{MaxTxns: 3}
	var p chainlab.Params
	trunk := 0
	switch cc.Regime {
	case "below":
		p = chainlab.RandomParams("mix", rng)
		p.Allow = uint64(3 + rng.IntN(5))
		p.Require = p.Allow + 400
		p.FinalCut = p.Require + 2
		trunk = int(p.Allow) + 1 + rng.IntN(5)
		cc.NetRegime = "mix-late-require"
	case "across":
		// the common ancestor lies below the require height (AddBlocks path), the
		// offered blocks cross it
		p = chainlab.RandomParams("mix", rng)
		p.Allow = uint64(3 + rng.IntN(4))
		trunk = int(p.Allow) + 2 + rng.IntN(4)
		p.Require = uint64(trunk + 1 + rng.IntN(2))
		p.FinalCut = p.Require + 2
		cc.NetRegime = "mix-require-inside-offer"
	default:
		if rng.IntN(2) == 0 {
			p = chainlab.RandomParams("v2only", rng)
			trunk = 2 + rng.IntN(8)
			cc.NetRegime = "v2only"
		} else {
			p = chainlab.RandomParams("mix", rng)
			trunk = int(p.Require) + 1 + rng.IntN(6)
			cc.NetRegime = "mix"
		}
	}
	cc.Params = p
	env := chainlab.NewEnv(p)
	cc.InitialTarget = []byte{0x08, 0x10, 0x20, 0xFF}[rng.IntN(4)]
	env.Net.InitialTarget = types.BlockID{cc.InitialTarget}
	t := chainlab.NewTree(env, rng)
	k := 1
	switch cc.Pos {
	case "k=several":
		k = 2 + rng.IntN(7)
	case "k=chunks":
		k = 101 + rng.IntN(30)
	}
	v0 := p2plab.GrowMixed(t, t.Root, trunk, 2, prof)
	ak := p2plab.GrowMixed(t, v0, k, 3, prof)
	var x *chainlab.Node
	for try := 0; try < 6 && x == nil; try++ {
		if c := p2plab.InvalidChild(t, ak, rng); c != nil && !c.Future {
			x = c
		}
	}
	if x == nil {
		r.Count("cases_skipped:no body-invalid extension", 1)
		return
	}
	cc.VictimTip, cc.VictimHeight, cc.HonestTip, cc.HonestHeight, cc.ByzTip = v0.Idx, v0.Height, ak.Idx, ak.Height, x.Idx
	slot := p2plab.NextSlot()
	act := p2plab.NewActivity()
	prng := rand.New(rand.NewPCG(uint64(r.Seed)+919, cc.Stream))
	mk := func(name string, i int, tip *chainlab.Node) (*p2plab.Node, error) {
		return p2plab.NewNode(p2plab.NodeOpts{Activity: act, Name: name, IP: p2plab.HonestIP(slot, i), Tree: t, Tip: tip, KeepLog: name == "victim",
			SyncInterval: time.Duration(50+prng.IntN(50)) * time.Millisecond, DiscoveryInterval: time.Hour, RPCTimeout: 2 * time.Second})
	}
	honestFirst := cc.HonestDials
	hStart := ak
	if honestFirst {
		hStart = v0
	}
	v, err1 := mk("victim", 0, v0)
	h, err2 := mk("honest", 1, hStart)
	if err1 != nil || err2 != nil {
		r.Inconclusive(fmt.Sprintf("C11 case %d: cannot build nodes: %v %v", cc.Stream, err1, err2))
		return
	}
	nodes := []*p2plab.Node{v, h}
	v.Start()
	h.Start()
	if honestFirst {
		if err := h.Connect(v.Addr); err != nil {
			r.Count("honest_connect_errors", 1)
		}
		synced := false
		for i := 0; i < 400 && !synced; i++ {
			a, _ := v.PeerSynced(h.Addr)
			b, _ := h.PeerSynced(v.Addr)
			synced = a && b
			time.Sleep(25 * time.Millisecond)
		}
		if !synced {
			r.Count("cases_skipped:peers never marked each other synced", 1)
			closeAll(r, nodes)
			return
		}
	}
	b1, err := p2plab.NewByz("byz1", p2plab.ByzIP(slot, 0), t, x)
	if err != nil {
		r.Inconclusive(fmt.Sprintf("C11 case %d: cannot build byzantine peer: %v", cc.Stream, err))
		closeAll(r, nodes)
		return
	}
	defer b1.Close()
	b1.Activity = act
	if err := b1.Dial(v.Addr); err != nil {
		r.Count("byzantine_dial_errors", 1)
	}
	// the Byzantine episode is over when the peer has been banned
	episode := false
	for i := 0; i < 800; i++ {
		v.Mon.Sample()
		if len(v.PS.BansFor(b1.IP)) > 0 {
			episode = true
			break
		}
		time.Sleep(25 * time.Millisecond)
	}
	time.Sleep(time.Duration(50+prng.IntN(150)) * time.Millisecond)
	tipAfterEpisode := v.Mon.Sample()
	rolledBack := false
	for _, c := range v.Mon.Calls() {
		if c.Kind == "AddBlocks" && strings.Contains(c.Err, "reorg failed") {
			rolledBack = true
		}
	}
	b1.Close()
	// the honest peer offers exactly A1..Ak and never grows afterwards
	if honestFirst {
		if err := p2plab.Preload(h.CM, v0.Height, ak); err != nil {
			r.Inconclusive(fmt.Sprintf("C11 case %d: honest peer rejected the valid chain: %v", cc.Stream, err))
		}
	} else if err := h.Connect(v.Addr); err != nil {
		r.Count("honest_connect_errors", 1)
	}
	t0 := time.Now()
	reached := false
	var announcing atomic.Bool
	wt := newWaiter(act, c11ProgressBound)
	for iter := 1; ; iter++ {
		if wt.step() != "" {
			break
		}
		v.Mon.Sample()
		if v.CM.Tip().ID == ak.ID {
			reached = true
			break
		}
		if iter%4 == 0 && announcing.CompareAndSwap(false, true) {
			go func() { defer announcing.Store(false); h.Announce() }()
		}
		if iter%20 == 0 && !v.HasPeer(h.Addr) && !h.HasPeer(v.Addr) {
			if banned, _ := v.PS.Banned(h.IP); !banned {
				r.Count("honest_redials", 1)
				h.Connect(v.Addr)
			}
		}
		time.Sleep(50 * time.Millisecond)
	}
	progressMS := time.Since(t0).Milliseconds()
	var peersNow []string
	for _, p := range v.S.Peers() {
		peersNow = append(peersNow, fmt.Sprintf("%s synced=%v err=%v", p.Addr(), p.Synced(), p.Err()))
	}
	hTipNow := h.Mon.Sample()
	_, knowsAk := v.CM.State(ak.ID)
	allSynced := len(v.S.Peers()) > 0
	for _, p := range v.S.Peers() {
		if !p.Synced() || p.Err() != nil {
			allSynced = false
		}
	}
	closeAll(r, nodes)
	r.Eval()
	order := "honest-after"
	if honestFirst {
		order = "honest-first"
	}
	row := fmt.Sprintf("%s:%s:%s", cc.Regime, cc.Pos, order)
	detail := map[string]any{"victim": reportOf(v), "honest": reportOf(h), "victim_peers_at_end": peersNow, "byzantine_counters": b1.Counters(),
		"victim_rolled_back_a_failed_reorg": rolledBack, "victim_log_tail": v.LogTail(), "tree": summarize(t)}
	if tipAfterEpisode != nil {
		detail["victim_tip_after_byzantine_episode"] = tipAfterEpisode.Idx
	}
	for kk, n := range b1.Counters() {
		r.Count("byzantine_"+kk, n)
	}
	for _, br := range v.PS.Bans() {
		r.Count("bans_observed:"+banReasonClass(br.Reason), 1)
		r.Count("bans_observed_total", 1)
	}
	if !episode {
		r.Count("faults_not_delivered:honest-prefix-then-invalid-extension:"+row, 1)
	} else {
		r.Count("faults_delivered", 1)
		r.Count("honest_prefix_episodes", 1)
		if rolledBack {
			r.Count("honest_prefix_episodes_with_rolled_back_reorg", 1)
		}
		r.Distinct("honest-prefix/" + row)
		r.SetAdd("fault_rows_delivered", "honest-prefix-then-invalid-extension/"+row)
		if hTipNow != ak {
			r.Inconclusive(fmt.Sprintf("C11 case %d: the honest peer's tip moved away from Ak", cc.Stream))
		} else if reached {
			r.Count("cases_with_honest_peer_reaching_honest_tip", 1)
			r.Count("honest_prefix_adopted", 1)
			if progressMS >= 10000 {
				r.Count("honest_prefix_adopted_after_more_than_10s", 1)
			}
		} else {
			sig := "stall:honest-prefix-after-byzantine-extension:" + row
			// structural sub-class: the honest peer was already marked synced when it
			// obtained A1..Ak, the victim rolled a failed reorg back and therefore
			// knows (has validated and stored) Ak, and every peer is still marked
			// synced without error: its announcements of Ak are dropped as "already
			// seen" and nothing makes the victim poll it again
			if honestFirst && rolledBack && knowsAk && allSynced {
				sig = "stall:announcement-of-known-validated-block-ignored:" + cc.Regime
			}
			detail["victim_knows_ak"] = knowsAk
			fmt.Printf("note: C11 stream=%d %s (%s) rolled_back=%v peers=%v\n", cc.Stream, sig, row, rolledBack, peersNow)
			if wt.verdict == "slow" {
				slowCase(r, fmt.Sprintf("C11 stream=%d %v", cc.Stream, wt.info()))
			} else {
				detail["liveness"] = wt.info()
				r.Violation(sig, "after rejecting a Byzantine extension of the honest chain (invalid block on top of A1..Ak) the victim did not adopt A1..Ak offered by an honest peer whose tip is exactly Ak", cc, detail)
			}
		}
	}
	for _, n := range nodes {
		for _, fd := range n.Mon.Final() {
			r.Violation(fd.Sig+":honest-prefix", fd.What, cc, map[string]any{"finding": fd.Detail, "run": detail})
		}
		countMonitor(r, n)
	}
}

// runForgedKnownBlock: three steps, three actors. (1) The victim's tip is above
// the require height. (2) Byzantine Z answers the victim's history walk only
// for an index BELOW the require height, which forces the store-then-validate
// AddBlocks path, and serves the next honest block X with its correct header
// (a v2 id covers the header only) but a forged body: the victim stores it, the
// reorg fails, it keeps its tip and bans Z. (3) The victim syncs from honest H
// starting at its tip; H's blocks come through the pre-validated path and the
// validated copy of X must replace the stored forgery.
//
// cc.Pos is the forgery ("changed-miner-address", "extra-transaction",
// "dropped-transaction"), cc.HonestDials the order (true: H is connected and in
// sync before the episode and obtains its chain afterwards).
func runForgedKnownBlock(r *mon.Run, cc c11Case) {
	rng := r.RNG(cc.Stream)
	prof := chainlab.Profile{MaxTxns: 4}
	var p chainlab.Params
	trunk := 0
	if rng.IntN(3) == 0 {
		p = chainlab.RandomParams("v2only", rng) // only genesis lies below the require height
		trunk = 2 + rng.IntN(20)
		cc.NetRegime = "v2only"
	} else {
		p = chainlab.RandomParams("mix", rng)
		trunk = int(p.Require) + 1 + rng.IntN(8)
		cc.NetRegime = "mix"
	}
	cc.Params = p
	env := chainlab.NewEnv(p)
	cc.InitialTarget = []byte{0x08, 0x10, 0x20, 0xFF}[rng.IntN(4)]
	env.Net.InitialTarget = types.BlockID{cc.InitialTarget}
	t := chainlab.NewTree(env, rng)
	v0 := p2plab.GrowMixed(t, t.Root, trunk, 2, prof)
	var x *chainlab.Node
	for try := 0; try < 40 && x == nil; try++ {
		if c := t.Extend(v0, prof); c.ChainValid && c.Block.V2 != nil && (cc.Pos != "dropped-transaction" || len(c.Block.V2.Transactions) > 0) {
			x = c
		}
	}
	if x == nil {
		r.Count("cases_skipped:no suitable next block", 1)
		return
	}
	hTip := p2plab.GrowMixed(t, x, 2+rng.IntN(7), 2, prof)
	// the forgery: header untouched, body changed, miner payout total kept
	// consistent so that the header-level checks of AddBlocks pass
	forged := x.Block
	v2 := *x.Block.V2
	forged.V2 = &v2
	forged.MinerPayouts = append([]types.SiacoinOutput(nil), x.Block.MinerPayouts...)
	switch cc.Pos {
	case "extra-transaction":
		forged.V2.Transactions = append(append([]types.V2Transaction(nil), x.Block.V2.Transactions...), types.V2Transaction{ArbitraryData: []byte("not part of this block")})
	case "dropped-transaction":
		k := len(x.Block.V2.Transactions) - 1
		forged.V2.Transactions = append([]types.V2Transaction(nil), x.Block.V2.Transactions[:k]...)
		forged.MinerPayouts[0].Value = forged.MinerPayouts[0].Value.Sub(x.Block.V2.Transactions[k].MinerFee)
	default:
		forged.MinerPayouts[0].Address = env.A(chainlab.Bob).Addr
		if forged.MinerPayouts[0].Address == x.Block.MinerPayouts[0].Address {
			forged.MinerPayouts[0].Address = env.A(chainlab.Alice).Addr
		}
	}
	if forged.ID() != x.ID || consensus.ValidateOrphan(v0.L.State, forged) != nil || v0.L.Validate(forged) == nil {
		r.Count("cases_skipped:forgery not shaped as intended", 1)
		return
	}
	cc.VictimTip, cc.VictimHeight, cc.HonestTip, cc.HonestHeight, cc.ByzTip = v0.Idx, v0.Height, hTip.Idx, hTip.Height, x.Idx
	slot := p2plab.NextSlot()
	act := p2plab.NewActivity()
	prng := rand.New(rand.NewPCG(uint64(r.Seed)+923, cc.Stream))
	mk := func(name string, i int, tip *chainlab.Node) (*p2plab.Node, error) {
		return p2plab.NewNode(p2plab.NodeOpts{Activity: act, Name: name, IP: p2plab.HonestIP(slot, i), Tree: t, Tip: tip, KeepLog: name == "victim",
			SyncInterval: time.Duration(50+prng.IntN(50)) * time.Millisecond, DiscoveryInterval: time.Hour, RPCTimeout: 2 * time.Second})
	}
	honestFirst := cc.HonestDials
	hStart := hTip
	if honestFirst {
		hStart = v0
	}
	v, err1 := mk("victim", 0, v0)
	h, err2 := mk("honest", 1, hStart)
	if err1 != nil || err2 != nil {
		r.Inconclusive(fmt.Sprintf("C11 case %d: cannot build nodes: %v %v", cc.Stream, err1, err2))
		return
	}
	nodes := []*p2plab.Node{v, h}
	v.Start()
	h.Start()
	if honestFirst {
		if err := h.Connect(v.Addr); err != nil {
			r.Count("honest_connect_errors", 1)
		}
		synced := false
		for i := 0; i < 400 && !synced; i++ {
			a, _ := v.PeerSynced(h.Addr)
			b, _ := h.PeerSynced(v.Addr)
			synced = a && b
			time.Sleep(25 * time.Millisecond)
		}
		if !synced {
			r.Count("cases_skipped:peers never marked each other synced", 1)
			closeAll(r, nodes)
			return
		}
	}
	z, err := p2plab.NewByz("byz1", p2plab.ByzIP(slot, 0), t, x)
	if err != nil {
		r.Inconclusive(fmt.Sprintf("C11 case %d: cannot build byzantine peer: %v", cc.Stream, err))
		closeAll(r, nodes)
		return
	}
	defer z.Close()
	z.Activity = act
	req := env.Net.HardforkV2.RequireHeight
	z.OnSendHeaders = func(b *p2plab.Byz, rq *gateway.RPCSendHeaders) p2plab.Reply {
		if rq.Index.Height >= req {
			b.Count("history-entries-refused-above-require", 1)
			return p2plab.Reply{} // "not on our best chain": the victim walks further down its history
		}
		if !b.HonestHeaders(rq) {
			return p2plab.Reply{}
		}
		return p2plab.Reply{Obj: rq, Faulted: true}
	}
	z.OnSendV2Blocks = func(b *p2plab.Byz, rq *gateway.RPCSendV2Blocks) p2plab.Reply {
		b.HonestBlocks(rq)
		for i := range rq.Blocks {
			if rq.Blocks[i].ID() == x.ID {
				rq.Blocks[i] = forged
				fmt.Printf("note: C11 stream=%d serving block %v with its genuine header and a forged body (%s)\n", cc.Stream, x.ID, cc.Pos)
				return p2plab.Reply{Obj: rq, Faulted: true}
			}
		}
		return p2plab.Reply{Obj: rq}
	}
	if err := z.Dial(v.Addr); err != nil {
		r.Count("byzantine_dial_errors", 1)
	}
	episode := false
	for i := 0; i < 800; i++ {
		v.Mon.Sample()
		if z.Counter("faulted:SendV2Blocks") > 0 && len(v.PS.BansFor(z.IP)) > 0 {
			episode = true
			break
		}
		time.Sleep(25 * time.Millisecond)
	}
	time.Sleep(time.Duration(50+prng.IntN(150)) * time.Millisecond)
	stored := false
	for _, c := range v.Mon.Calls() {
		if c.Kind == "AddBlocks" && strings.Contains(c.Err, "reorg failed") {
			stored = true // the forgery went into the store and failed full validation
		}
	}
	tipAfter := v.Mon.Sample()
	z.Close()
	if honestFirst {
		if err := p2plab.Preload(h.CM, v0.Height, hTip); err != nil {
			r.Inconclusive(fmt.Sprintf("C11 case %d: honest peer rejected the valid chain: %v", cc.Stream, err))
		}
	} else if err := h.Connect(v.Addr); err != nil {
		r.Count("honest_connect_errors", 1)
	}
	reached := false
	var announcing atomic.Bool
	wt := newWaiter(act, c11ProgressBound)
	for iter := 1; ; iter++ {
		if wt.step() != "" {
			break
		}
		v.Mon.Sample()
		if v.CM.Tip().ID == hTip.ID {
			reached = true
			break
		}
		if iter%4 == 0 && announcing.CompareAndSwap(false, true) {
			go func() { defer announcing.Store(false); h.Announce() }()
		}
		if iter%20 == 0 && !v.HasPeer(h.Addr) && !h.HasPeer(v.Addr) {
			if banned, _ := v.PS.Banned(h.IP); !banned {
				r.Count("honest_redials", 1)
				h.Connect(v.Addr)
			}
		}
		time.Sleep(50 * time.Millisecond)
	}
	var peersNow []string
	for _, p := range v.S.Peers() {
		peersNow = append(peersNow, fmt.Sprintf("%s synced=%v err=%v", p.Addr(), p.Synced(), p.Err()))
	}
	honestBans := v.PS.BansFor(h.IP)
	validated := false
	for _, c := range v.Mon.Calls() {
		if c.Kind == "AddValidatedV2Blocks" && c.Err == "" {
			validated = true
		}
	}
	closeAll(r, nodes)
	r.Eval()
	order := "honest-after"
	if honestFirst {
		order = "honest-first"
	}
	row := cc.Pos + ":" + order
	detail := map[string]any{"victim": reportOf(v), "honest": reportOf(h), "victim_peers_at_end": peersNow, "byzantine_counters": z.Counters(),
		"forgery_stored_and_rejected": stored, "bans_of_honest_peer": honestBans, "victim_log_tail": v.LogTail(), "tree": summarize(t)}
	if tipAfter != nil {
		detail["victim_tip_after_byzantine_episode"] = tipAfter.Idx
	}
	for k, n := range z.Counters() {
		r.Count("byzantine_"+k, n)
	}
	for _, br := range v.PS.Bans() {
		r.Count("bans_observed:"+banReasonClass(br.Reason), 1)
		r.Count("bans_observed_total", 1)
	}
	if !episode {
		r.Count("faults_not_delivered:forged-body-under-known-id:"+row, 1)
	} else {
		r.Count("faults_delivered", 1)
		r.Count("forged_known_block_episodes", 1)
		if stored {
			r.Count("forged_known_block_episodes_with_stored_forgery", 1)
		}
		if validated {
			r.Count("forged_known_block_cases_resynced_through_the_prevalidated_path", 1)
		}
		r.Distinct("forged-known-block/" + row + "/" + cc.NetRegime)
		r.SetAdd("fault_rows_delivered", "forged-body-under-known-id/"+row)
		if len(honestBans) > 0 {
			fmt.Printf("note: C11 stream=%d victim banned the honest peer after a forged copy of its block was stored: %v\n", cc.Stream, honestBans)
			r.Violation("honest-peer-banned-after-forged-copy:"+banReasonClass(honestBans[0].Reason), "the honest peer that supplied the genuine block was reported to the peer store because a forged copy with the same id had been stored earlier", cc, detail)
		}
		if reached {
			r.Count("cases_with_honest_peer_reaching_honest_tip", 1)
			r.Count("forged_known_block_replaced_by_validated_copy", 1)
		} else if wt.verdict == "slow" {
			slowCase(r, fmt.Sprintf("C11 stream=%d forged-known-block %v", cc.Stream, wt.info()))
		} else {
			detail["liveness"] = wt.info()
			fmt.Printf("note: C11 stream=%d stall:forged-body-under-known-id %s (%s) peers=%v\n", cc.Stream, row, wt.verdict, peersNow)
			r.Violation("stall:forged-body-under-known-id:"+row, "after a Byzantine peer stored a forged body under the id of the next honest block, the victim did not reach the tip of the honest peer that supplies the genuine block", cc, detail)
		}
	}
	for _, n := range nodes {
		for _, fd := range n.Mon.Final() {
			r.Violation(fd.Sig+":forged-known-block", fd.What, cc, map[string]any{"finding": fd.Detail, "run": detail})
		}
		countMonitor(r, n)
	}
}
