package byz

import "verif/harness/mon"

func runC11(r *mon.Run, replay string) {}
