package byz

import (
	"errors"
	"fmt"
	"math/rand/v2"
	"net"
	"os"
	"sort"
	"strconv"
	"strings"
	"sync"
	"sync/atomic"
	"time"

	"go.sia.tech/core/consensus"
	"go.sia.tech/core/gateway"
	"go.sia.tech/core/types"
	"verif/harness/lab/chainlab"
	"verif/harness/lab/p2plab"
	"verif/harness/mon"
)

// A fault is one row of the C11 table: the RPC that is attacked, how, and what
// the property lets us demand.
type fault struct {
	Target string // RPC kind
	Name   string
	Pos    bool   // swept over first/middle/last of the batch
	Regime string // "", "below", "above", "v2" (needs v2 blocks at the victim's tip)
	// Ban: the offence is provable and the syncer is expected to report the
	// peer (class of the expected ban reason).
	Ban string
	// NoBan: the behaviour is legal (e.g. announcing a side-chain header with
	// enough work): the peer must NOT be reported
	NoBan bool
	// ByzView: which chain the Byzantine peer pretends to hold: "honest" (the
	// honest heavier chain) or "invalid" (own chain with an invalid block)
	View string
}

var c11Faults = []fault{
	// ---- victim-issued SendHeaders
	{Target: "SendHeaders", Name: "silence"},
	{Target: "SendHeaders", Name: "close"},
	{Target: "SendHeaders", Name: "confused-type"},
	{Target: "SendHeaders", Name: "garbage"},
	{Target: "SendHeaders", Name: "oversized"},
	{Target: "SendHeaders", Name: "insufficient-work", Pos: true},
	{Target: "SendHeaders", Name: "broken-linkage", Pos: true},
	{Target: "SendHeaders", Name: "not-extending-request"},
	{Target: "SendHeaders", Name: "from-genesis"},
	{Target: "SendHeaders", Name: "swapped-order"},
	{Target: "SendHeaders", Name: "empty"},
	{Target: "SendHeaders", Name: "remaining-lie"},
	// ---- victim-issued SendV2Blocks
	{Target: "SendV2Blocks", Name: "silence"},
	// valid headers of a private fork that only the Byzantine peer can serve,
	// then silence on the block request (honest workers fail fast on that fork)
	{Target: "SendV2Blocks", Name: "silence-on-private-fork", View: "private"},
	{Target: "SendCheckpoint", Name: "silence-on-private-fork", Regime: "above", View: "private"},
	{Target: "SendV2Blocks", Name: "close"},
	{Target: "SendV2Blocks", Name: "confused-type"},
	{Target: "SendV2Blocks", Name: "garbage"},
	{Target: "SendV2Blocks", Name: "fewer"},
	{Target: "SendV2Blocks", Name: "more"},
	{Target: "SendV2Blocks", Name: "zero"},
	{Target: "SendV2Blocks", Name: "reordered"},
	{Target: "SendV2Blocks", Name: "sibling-block", Pos: true},
	{Target: "SendV2Blocks", Name: "same-id-other-body", Pos: true, Regime: "below", Ban: "blocks-rejected-by-manager"},
	{Target: "SendV2Blocks", Name: "invalid-block", Pos: true, Regime: "below", Ban: "blocks-rejected-by-manager", View: "invalid"},
	{Target: "SendV2Blocks", Name: "invalid-block", Pos: true, Regime: "above", Ban: "invalid-block-in-validated-batch", View: "invalid"},
	// one chunk request answered in several steps (the syncer keeps asking when a
	// peer legally returns fewer blocks than requested): the first answer is a
	// short prefix, the continuation is corrupted
	{Target: "SendV2Blocks", Name: "multistep-honest-control", Pos: true},
	{Target: "SendV2Blocks", Name: "multistep-overlong-remainder", Pos: true},
	{Target: "SendV2Blocks", Name: "multistep-empty"},
	{Target: "SendV2Blocks", Name: "multistep-longer-than-request"},
	{Target: "SendV2Blocks", Name: "multistep-wrong-blocks"},
	{Target: "SendV2Blocks", Name: "multistep-repeat"},
	// ---- victim-issued SendCheckpoint (instant / parallel sync above the require height)
	{Target: "SendCheckpoint", Name: "silence", Regime: "above"},
	{Target: "SendCheckpoint", Name: "close", Regime: "above"},
	{Target: "SendCheckpoint", Name: "confused-type", Regime: "above"},
	{Target: "SendCheckpoint", Name: "garbage", Regime: "above"},
	{Target: "SendCheckpoint", Name: "wrong-id", Regime: "above"},
	{Target: "SendCheckpoint", Name: "v1-block", Regime: "above"},
	{Target: "SendCheckpoint", Name: "two-payouts", Regime: "above"},
	{Target: "SendCheckpoint", Name: "state-of-other-block", Regime: "above"},
	{Target: "SendCheckpoint", Name: "state-tweaked", Regime: "above"},
	{Target: "SendCheckpoint", Name: "block-other-body", Regime: "above"},
	// the genuine checkpoint block with its id intact (the id covers the header
	// only) but the body changed
	{Target: "SendCheckpoint", Name: "payouts-stripped", Regime: "above"},
	{Target: "SendCheckpoint", Name: "payouts-duplicated", Regime: "above"},
	{Target: "SendCheckpoint", Name: "payout-value-changed", Regime: "above"},
	{Target: "SendCheckpoint", Name: "payout-address-changed", Regime: "above"},
	{Target: "SendCheckpoint", Name: "transactions-stripped", Regime: "above"},
	{Target: "SendCheckpoint", Name: "transactions-duplicated", Regime: "above"},
	{Target: "SendCheckpoint", Name: "transactions-reordered", Regime: "above"},
	{Target: "SendCheckpoint", Name: "v2-height-changed", Regime: "above"},
	// a chain that is valid relative to a made-up parent state of the victim's own tip
	{Target: "SendCheckpoint", Name: "made-up-state-chain", Regime: "above", View: "madeup"},
	// ---- victim-issued SendTransactions (after an outline with missing transactions)
	{Target: "SendTransactions", Name: "wrong-transactions", Regime: "v2", Ban: "wrong-missing-transactions"},
	{Target: "SendTransactions", Name: "empty", Regime: "v2", Ban: "wrong-missing-transactions"},
	{Target: "SendTransactions", Name: "partial", Regime: "v2", Ban: "wrong-missing-transactions"},
	{Target: "SendTransactions", Name: "silence", Regime: "v2"},
	{Target: "SendTransactions", Name: "close", Regime: "v2"},
	{Target: "SendTransactions", Name: "confused-type", Regime: "v2"},
	{Target: "SendTransactions", Name: "honest-control", Regime: "v2"},
	// ---- victim-served relays
	{Target: "RelayV2Header", Name: "insufficient-work", Regime: "v2", Ban: "header-insufficient-work"},
	// a header without sufficient work is provable whatever known parent it names
	{Target: "RelayV2Header", Name: "insufficient-work-on-tip-parent", Regime: "v2", Ban: "header-insufficient-work"},
	{Target: "RelayV2Header", Name: "insufficient-work-on-grandparent", Regime: "v2", Ban: "header-insufficient-work"},
	{Target: "RelayV2Header", Name: "insufficient-work-on-side-branch", Regime: "v2", Ban: "header-insufficient-work"},
	{Target: "RelayV2Header", Name: "insufficient-work-on-genesis", Regime: "v2", Ban: "header-insufficient-work"},
	// the same announcements with sufficient work are legal (resync only)
	{Target: "RelayV2Header", Name: "sufficient-work-on-tip-parent", Regime: "v2", NoBan: true},
	{Target: "RelayV2Header", Name: "sufficient-work-on-side-branch", Regime: "v2", NoBan: true},
	{Target: "RelayV2Header", Name: "unknown-parent", Regime: "v2"},
	{Target: "RelayV2Header", Name: "valid-no-follow-up", Regime: "v2"},
	{Target: "RelayV2Header", Name: "malformed", Regime: "v2"},
	{Target: "RelayV2BlockOutline", Name: "insufficient-work", Regime: "v2", Ban: "outline-insufficient-work"},
	{Target: "RelayV2BlockOutline", Name: "invalid-block", Regime: "v2", Ban: "relayed-block-rejected"},
	{Target: "RelayV2BlockOutline", Name: "unknown-parent", Regime: "v2"},
	{Target: "RelayV2BlockOutline", Name: "malformed", Regime: "v2"},
	{Target: "RelayV2BlockOutline", Name: "oversized", Regime: "v2"},
	{Target: "RelayV2TransactionSet", Name: "empty", Regime: "v2", Ban: "empty-transaction-set"},
	{Target: "RelayV2TransactionSet", Name: "invalid-signature", Regime: "v2"},
	{Target: "RelayV2TransactionSet", Name: "unknown-basis", Regime: "v2"},
	{Target: "RelayV2TransactionSet", Name: "valid-control", Regime: "v2"},
	{Target: "RelayV2TransactionSet", Name: "confirmed-set-old-basis", Regime: "v2"},
	{Target: "RelayV2TransactionSet", Name: "malformed", Regime: "v2"},
	// arithmetic-overflow values in every RPC that carries currencies: summing
	// them panics with a string value inside go.sia.tech/core (types.Currency)
	{Target: "RelayV2BlockOutline", Name: "overflow-miner-fee", Regime: "v2"},
	{Target: "RelayV2BlockOutline", Name: "overflow-v1-miner-fees", Regime: "v2"},
	{Target: "RelayV2TransactionSet", Name: "overflow-miner-fee", Regime: "v2"},
	{Target: "RelayV2TransactionSet", Name: "overflow-outputs", Regime: "v2"},
	{Target: "SendTransactions", Name: "overflow-miner-fee", Regime: "v2"},
	{Target: "SendV2Blocks", Name: "overflow-payouts", Pos: true},
	{Target: "SendV2Blocks", Name: "overflow-miner-fee", Pos: true},
	{Target: "SendV2Blocks", Name: "overflow-outputs"},
	{Target: "SendCheckpoint", Name: "payout-max-currency", Regime: "above"},
	{Target: "ShareNodes", Name: "malformed-addresses"},
	{Target: "ShareNodes", Name: "oversized"},
	{Target: "ShareNodes", Name: "garbage"},
	// ---- self-check of the Byzantine peer implementation
	{Target: "control", Name: "honest"},
}

type c11Case struct {
	Stream        uint64          `json:"rng_stream"`
	Target        string          `json:"target"`
	Fault         string          `json:"fault"`
	Pos           string          `json:"position,omitempty"`
	Regime        string          `json:"regime"` // below / above the require height
	NetRegime     string          `json:"net_regime"`
	Params        chainlab.Params `json:"params"`
	Mix           string          `json:"peer_mix"` // B, B+H, 2B+H
	Phased        bool            `json:"byzantine_first"`
	VictimDials   bool            `json:"victim_dials_byzantine"`
	HonestDials   bool            `json:"honest_dials_victim"`
	Second        string          `json:"second_byzantine_fault,omitempty"`
	VictimTip     int             `json:"victim_tip_node"`
	VictimHeight  uint64          `json:"victim_height"`
	HonestTip     int             `json:"honest_tip_node"`
	HonestHeight  uint64          `json:"honest_height"`
	ByzTip        int             `json:"byzantine_view_tip_node"`
	Special       string          `json:"special,omitempty"`
	InitialTarget byte            `json:"initial_target_first_byte"`
	// Long: the honest / Byzantine chain is more than 200 blocks ahead, so that
	// several 100-block requests are in flight
	Long bool `json:"several_chunks,omitempty"`
	// Pair: the case is run twice, the Byzantine peer staying connected and
	// hanging up right after its corrupted write; HangUp marks the second run
	Pair   bool `json:"hit_and_run_pair,omitempty"`
	HangUp bool `json:"hang_up_after_write,omitempty"`
}

const (
	c11ProgressBound = 60 * time.Second
	c11SilenceBonus  = 35 * time.Second // SendHeaders timeout is fixed at 30 s in the syncer
)

func (f fault) key() string { return f.Target + "/" + f.Name }

func runC11(r *mon.Run, replay string) {
	r.Rule("each case: a chainlab tree (victim chain, a sufficiently heavier valid chain held by the honest peer, and the Byzantine peer's material: corrupted blocks labelled by the pure oracle, header-only extensions, bad-work headers, same-id blocks with another body), one real victim syncer with an audited chain manager and an effective recording peer store, a Byzantine gateway peer on its own 127.x address scripted with ONE fault of the table (RPC x corruption x position first/middle/last) below or above the v2 require height, peer mix B / B+H / 2B+H, Byzantine first or simultaneous, either side dialling. Non-trivial = the scripted fault was actually delivered to the victim (counter faulted:<rpc>); signature = rpc/fault/position/regime/mix.")
	r.Assume("bounded progress: with the honest peer connected the victim must reach the honest tip within 60 s (+35 s per SendHeaders request the Byzantine peer leaves unanswered, because that timeout is fixed at 30 s in the syncer); the honest peer re-announces its tip every 200 ms and the harness re-dials a lost honest connection every second")
	r.Assume("an expired liveness deadline (progress, expected ban, honest multi-step sync) is a violation only if the case is demonstrably stuck: no manager call, no sync RPC at any real node or lab peer and no tip change for 12 s (and 150 polling iterations) with no call in flight, or 20+ activity events without progress for that window; otherwise the wait is extended to 4x the deadline and a case still moving then is counted as cases_inconclusive_slow_machine (run inconclusive above 5% + 2 cases)")
	r.Assume("a ban is only demanded for offences the property calls provable and only when the Byzantine peer acted while the victim's tip was stable (Byzantine-first phase): insufficient-work relayed header/outline on the victim's tip, invalid relayed block, wrong/missing outline transactions, invalid or same-id-other-body block in a batch the victim tries to adopt, empty transaction set")
	r.Assume("a Byzantine peer never advertises an honest peer's dial-back address (known C18 shutdown issue, excluded here); Close of every syncer runs under a 20 s watchdog")
	r.Assume("resource exhaustion by volume and eclipse attacks (cloned unique id, address-space exhaustion) are out of scope")

	if replay != "" {
		var cc c11Case
		if err := loadReplay(r, replay, &cc); err != nil {
			r.Inconclusive("cannot read replay: " + err.Error())
			return
		}
		// the case is regenerated from seed + stream; only the descriptor fields are taken from the file
		parallel(3, 3, func(int) { runByzCase(r, cc) })
		return
	}

	cases := genC11Cases(r)
	if only := os.Getenv("VERIF_C11_ONLY"); only != "" {
		// development filter (never set by ./check users): keeps matching rows only
		var keep []c11Case
		for _, c := range cases {
			tag := c.Target + "/" + c.Fault + "/" + c.Special
			if c.Pair {
				tag += "/hit-and-run"
			}
			if strings.Contains(tag, only) {
				keep = append(keep, c)
			}
		}
		cases = keep
		r.Inconclusive("development filter VERIF_C11_ONLY is set")
	}
	parallel(len(cases), r.Pick(12, 12), func(i int) { runByzCase(r, cases[i]) })
	slowVerdict(r, len(cases))
	r.Floor("faults_delivered", int64(len(cases)/2))
	r.Floor("cases_with_honest_peer_reaching_honest_tip", int64(len(cases)/4))
	r.Floor("bans_observed_total", 8)
	r.Floor("manager_calls_audited:AddBlocks", 10)
	r.Floor("manager_calls_audited:AddValidatedV2Blocks", 5)
	r.Floor("multistep_continuation_faults_delivered", 20)
	r.Floor("cases_with_several_100_block_requests", 8)
	r.Floor("hit_and_run_pairs_judged", 10)
	r.Floor("relays_from_victim_judged", 30)
	r.Floor("overflow_messages_delivered_total", 20)
	r.Floor("forged_known_block_episodes_with_stored_forgery", 4)
	r.Floor("honest_prefix_episodes_with_rolled_back_reorg", 4)
	r.Floor("cases_with_honest_witness_on_victim_tip", 20)
}

func genC11Cases(r *mon.Run) []c11Case {
	rng := r.RNG(11)
	var cases []c11Case
	stream := uint64(5000)
	reps := r.Pick(1, 6)
	for rep := 0; rep < reps; rep++ {
		for _, f := range c11Faults {
			positions := []string{""}
			if f.Pos {
				positions = []string{"first", "middle", "last"}
			}
			regimes := []string{"below", "above"}
			switch f.Regime {
			case "below":
				regimes = []string{"below"}
			case "above":
				regimes = []string{"above"}
			}
			for _, pos := range positions {
				for _, reg := range regimes {
					mixes := []string{"B", "B+H", "2B+H"}
					if !r.Thorough() {
						// quick: B+H plus one PRNG-chosen other mix per row
						mixes = []string{"B+H", []string{"B", "2B+H"}[rng.IntN(2)]}
					}
					for _, mix := range mixes {
						stream++
						cases = append(cases, c11Case{
							Stream: stream, Target: f.Target, Fault: f.Name, Pos: pos, Regime: reg, Mix: mix,
							Phased: rng.IntN(4) != 0, VictimDials: rng.IntN(2) == 0, HonestDials: rng.IntN(2) == 0,
						})
					}
				}
			}
		}
		// multi-step answers with several 100-block requests in flight (the honest
		// peer and the Byzantine peer are workers at the same time)
		for _, f := range c11Faults {
			if !strings.HasPrefix(f.Name, "multistep-") {
				continue
			}
			for _, reg := range []string{"below", "above"} {
				stream++
				cases = append(cases, c11Case{Stream: stream, Target: f.Target, Fault: f.Name, Pos: []string{"first", "middle", "last"}[rng.IntN(3)], Regime: reg,
					Mix: []string{"B+H", "2B+H"}[rng.IntN(2)], Phased: false, Long: true, HonestDials: rng.IntN(2) == 0})
			}
		}
		// hit and run: every provable offence once with the peer staying and once
		// hanging up right after the write
		for _, f := range c11Faults {
			if f.Ban == "" {
				continue
			}
			positions := []string{""}
			if f.Pos {
				positions = []string{"first", "middle", "last"}
			}
			regimes := []string{"below", "above"}
			if f.Regime == "below" || f.Regime == "above" {
				regimes = []string{f.Regime}
			}
			for _, pos := range positions {
				for _, reg := range regimes {
					stream++
					cases = append(cases, c11Case{Stream: stream, Target: f.Target, Fault: f.Name, Pos: pos, Regime: reg, Pair: true})
				}
			}
			if f.View == "invalid" {
				// the invalid block closes a full 100-block request
				stream++
				cases = append(cases, c11Case{Stream: stream, Target: f.Target, Fault: f.Name, Pos: "last", Regime: f.Regime, Pair: true, Long: true})
			}
		}
		// the honest chain extended by one invalid block, then the honest chain alone
		for _, reg := range []string{"below", "across", "above"} {
			for _, kc := range []string{"k=1", "k=several", "k=chunks"} {
				for _, first := range []bool{false, true} {
					stream++
					cases = append(cases, c11Case{Stream: stream, Target: "SendV2Blocks", Fault: "honest-prefix-then-invalid-extension", Pos: kc, Regime: reg, Mix: "B+H", Phased: true, HonestDials: first, Special: "honest-prefix"})
				}
			}
		}
		// multi-chunk scenarios around the 100-block request split
		for i := 0; i < r.Pick(6, 6); i++ {
			stream++
			cases = append(cases, c11Case{Stream: stream, Target: "SendV2Blocks", Fault: "same-id-other-body", Pos: "first-chunk", Regime: "below", Mix: "B+H", Phased: false, Special: "two-chunks"})
		}
		for i := 0; i < r.Pick(2, 3); i++ {
			stream++
			cases = append(cases, c11Case{Stream: stream, Target: "SendCheckpoint", Fault: "state-for-unvalidated-block", Regime: "above", Mix: "B+H", Phased: true, Special: "cross-boundary"})
		}
		// private fork + silence: the Byzantine peer's headers are synced before the honest peer connects
		for _, reg := range []string{"below", "above"} {
			for i := 0; i < r.Pick(2, 3); i++ {
				stream++
				cases = append(cases, c11Case{Stream: stream, Target: "SendV2Blocks", Fault: "silence-on-private-fork", Regime: reg, Mix: "B+H", Phased: true, VictimDials: rng.IntN(2) == 0, HonestDials: rng.IntN(2) == 0})
			}
		}
		stream++
		cases = append(cases, c11Case{Stream: stream, Target: "SendCheckpoint", Fault: "silence-on-private-fork", Regime: "above", Mix: "B+H", Phased: true, HonestDials: rng.IntN(2) == 0})
		// a forged body stored under the id of the next honest block, then the honest peer
		for _, fg := range []string{"changed-miner-address", "extra-transaction", "dropped-transaction"} {
			for _, first := range []bool{false, true} {
				for i := 0; i < r.Pick(1, 2); i++ {
					stream++
					cases = append(cases, c11Case{Stream: stream, Target: "SendV2Blocks", Fault: "forged-body-under-known-id", Pos: fg, Regime: "above", Mix: "B+H", Phased: true, HonestDials: first, Special: "forged-known-block"})
				}
			}
		}
		// a checkpoint block that was never validated by anybody: two attackers
		for _, fn := range []string{"state-of-parents-sibling", "checkpoint-block-with-v1-transactions"} {
			for i := 0; i < r.Pick(2, 3); i++ {
				stream++
				cases = append(cases, c11Case{Stream: stream, Target: "SendCheckpoint", Fault: fn, Regime: "above", Mix: "2B+H", Phased: true, Special: "unvalidated-checkpoint"})
			}
		}
		// a block id poisoned by a same-id block with another body, then mined by the honest peer
		for i := 0; i < r.Pick(3, 4); i++ {
			stream++
			mix := "B+H"
			if i == 1 {
				mix = "H" // control without the Byzantine peer
			}
			cases = append(cases, c11Case{Stream: stream, Target: "SendV2Blocks", Fault: "same-id-other-body", Pos: "next-block", Regime: "below", Mix: mix, Phased: true, Special: "poisoned-next-block"})
		}
		// instant sync: bootstrap from a checkpoint retrieved from Byzantine and honest peers
		for _, f := range c11Faults {
			if f.Target != "SendCheckpoint" || f.View != "" {
				continue
			}
			stream++
			mix := []string{"B", "B+H", "B+H"}[rng.IntN(3)]
			cases = append(cases, c11Case{Stream: stream, Target: "SendCheckpoint", Fault: f.Name, Regime: "above", Mix: mix, Phased: true, Special: "instant-sync"})
		}
	}
	return cases
}

func findFault(target, name, regime string) (fault, bool) {
	for _, f := range c11Faults {
		if f.Target == target && f.Name == name && (f.Regime == "" || f.Regime == "v2" || f.Regime == regime) {
			return f, true
		}
	}
	return fault{}, false
}

func posIndex(pos string, n int) int {
	switch pos {
	case "first":
		return 0
	case "last":
		return n - 1
	default:
		return n / 2
	}
}

// scene is everything built for one case.
type scene struct {
	cc   *c11Case
	f    fault
	rng  *rand.Rand
	t    *chainlab.Tree
	vTip *chainlab.Node
	hTip *chainlab.Node
	bTip *chainlab.Node // view of the Byzantine peer
	// action is run by the Byzantine peer once connected (relay faults)
	action func(b *p2plab.Byz) error
	// delivered reports whether the fault reached the victim
	delivered func(b *p2plab.Byz) bool
	// hits counts corrupted answers handed out by any of the case's Byzantine peers
	hits *atomic.Int64
	// extraBlock: a block outside the tree whose transactions the Byzantine
	// peer hands out on SendTransactions (overflow rows)
	extraBlock *types.Block
	// side: a lighter branch the victim validated and stored before its own
	side *chainlab.Node
	// watch: block ids whose reads the victim's manager proxy records
	watch []types.BlockID
	// processed reports (hit-and-run runs) whether the victim demonstrably
	// received the corrupted message and reached its verdict on it
	processed func(v *p2plab.Node, b *p2plab.Byz, since int64) bool
	// override: states the attacker hands out for specific checkpoint blocks
	override map[types.BlockID]consensus.State
	skip     string
}

func buildScene(r *mon.Run, cc *c11Case) *scene {
	rng := r.RNG(cc.Stream)
	f, ok := findFault(cc.Target, cc.Fault, cc.Regime)
	if !ok && cc.Special == "" {
		return &scene{cc: cc, skip: "unknown fault"}
	}
	if cc.Special != "" {
		f = fault{Target: cc.Target, Name: cc.Fault, Regime: cc.Regime}
	}
	sc := &scene{cc: cc, f: f, rng: rng}
	if cc.Special == "unvalidated-checkpoint" {
		sc.hits = new(atomic.Int64)
	}
	var p chainlab.Params
	prof := chainlab.Profile{MaxTxns: 3}
	trunk := 0
	switch {
	case cc.Special == "two-chunks":
		p = chainlab.RandomParams("mix", rng)
		p.Allow = uint64(3 + rng.IntN(4))
		p.Require = 5000
		p.FinalCut = 5002
		cc.NetRegime = "mix-late-require"
	case cc.Special == "cross-boundary":
		p = chainlab.RandomParams("mix", rng)
		p.Allow = uint64(3 + rng.IntN(4))
		p.Require = uint64(60 + rng.IntN(30))
		p.FinalCut = p.Require + 2
		cc.NetRegime = "mix-require-inside-first-chunk"
	case cc.Regime == "below":
		p = chainlab.RandomParams("mix", rng)
		p.Allow = uint64(3 + rng.IntN(5))
		p.Require = p.Allow + 400
		p.FinalCut = p.Require + 2
		cc.NetRegime = "mix-late-require"
		trunk = int(p.Allow) + 1 + rng.IntN(6)
		if f.Regime != "v2" && f.Name != "same-id-other-body" && rng.IntN(4) == 0 {
			trunk = 1 + rng.IntN(int(p.Allow)-1) // victim still in the v1-only part
		}
	default:
		if rng.IntN(2) == 0 {
			p = chainlab.RandomParams("v2only", rng)
			cc.NetRegime = "v2only"
			trunk = 2 + rng.IntN(10)
		} else {
			p = chainlab.RandomParams("mix", rng)
			cc.NetRegime = "mix"
			trunk = int(p.Require) + 1 + rng.IntN(8)
		}
	}
	cc.Params = p
	env := chainlab.NewEnv(p)
	// chainlab's default target lets every hash pass once difficulty is counted
	// as work (difficulty 1); a harder initial target (set before the genesis
	// state is derived) makes "insufficient work" constructible in every regime
	cc.InitialTarget = []byte{0x08, 0x10, 0x20, 0xFF}[rng.IntN(4)]
	if strings.Contains(f.Name, "insufficient-work") && cc.InitialTarget == 0xFF {
		cc.InitialTarget = 0x10 // with the easiest target every id has enough work
	}
	env.Net.InitialTarget = types.BlockID{cc.InitialTarget}
	t := chainlab.NewTree(env, rng)
	sc.t = t
	if cc.Special != "" {
		buildSpecial(sc, prof)
		return sc
	}
	base := p2plab.GrowMixed(t, t.Root, trunk, 2, prof)
	// the victim may sit on a short fork of its own
	sc.vTip = p2plab.Grow(t, base, rng.IntN(3), prof)
	// honest heavier chain, forking at or slightly below the victim's tip
	hf := sc.vTip
	if d := rng.IntN(4); d > 0 && rng.IntN(2) == 0 {
		hf = sc.vTip.Ancestor(sc.vTip.Height - uint64(min(d, int(sc.vTip.Height))))
	}
	if f.Target == "SendV2Blocks" && f.Name == "same-id-other-body" {
		hf = sc.vTip // the swapped block must lie on the part the victim downloads
	}
	hLen := 4 + rng.IntN(8)
	if cc.Long {
		hLen = 205 + rng.IntN(60)
	}
	sc.hTip = p2plab.Heavier(t, p2plab.GrowMixed(t, hf, hLen, 2, prof), 1, prof, sc.vTip)
	sc.bTip = sc.hTip
	sc.delivered = func(b *p2plab.Byz) bool { return b.Counter("faulted:"+f.Target) > 0 }
	buildFault(sc, prof)
	if sc.skip == "" {
		// whatever valid block the Byzantine peer may hand over, the honest chain
		// must stay sufficiently heavier
		for _, n := range t.Nodes {
			if n.ChainValid && n != sc.hTip && !sc.hTip.State().SufficientlyHeavierThan(n.State()) && chainlab.CommonAncestor(n, sc.hTip) != n {
				sc.hTip = p2plab.Heavier(t, sc.hTip, 1, prof, n)
				if sc.bTip.ChainValid && f.View == "" {
					sc.bTip = sc.hTip
				}
			}
		}
	}
	cc.VictimTip, cc.VictimHeight = sc.vTip.Idx, sc.vTip.Height
	cc.HonestTip, cc.HonestHeight = sc.hTip.Idx, sc.hTip.Height
	cc.ByzTip = sc.bTip.Idx
	return sc
}

// buildSpecial builds the multi-chunk scenarios.
func buildSpecial(sc *scene, prof chainlab.Profile) {
	t, cc := sc.t, sc.cc
	switch cc.Special {
	case "two-chunks":
		// victim: own fork of 140 blocks from genesis; honest chain: 230 blocks.
		// The first request (100 blocks) alone is lighter than the victim's
		// chain, so AddBlocks only stores it; the reorg (and full validation of
		// the first chunk) happens when the second chunk arrives.
		sc.vTip = p2plab.GrowMixed(t, t.Root, 140, 5, prof)
		h := p2plab.GrowMixed(t, t.Root, 225+sc.rng.IntN(10), 3, prof)
		sc.hTip = p2plab.Heavier(t, h, 1, prof, sc.vTip)
		sc.bTip = sc.hTip
	case "cross-boundary":
		// victim: own fork of 150 blocks from genesis. Byzantine chain: 99 valid
		// blocks, then a 100th block (above the require height) whose commitment
		// is over a state the attacker made up, then 120 blocks that are valid
		// relative to that made-up state. The first request (AddBlocks path,
		// lighter than the victim's chain) is only stored; the second request
		// starts with SendCheckpoint for the never-validated 100th block.
		env := t.Env
		sc.vTip = p2plab.GrowMixed(t, t.Root, 150, 5, prof)
		x := p2plab.GrowMixed(t, t.Root, 99, 4, prof)
		ps := x.L.State
		g := ps
		g.Attestations += 1000
		g.SiafundTaxRevenue = g.SiafundTaxRevenue.Add(types.Siacoins(123456))
		miner := env.A(chainlab.Miner).Addr
		blk := types.Block{
			ParentID:     ps.Index.ID,
			Timestamp:    x.Block.Timestamp.Add(env.Net.BlockInterval),
			MinerPayouts: []types.SiacoinOutput{{Address: miner, Value: ps.BlockReward()}},
			V2:           &types.V2BlockData{Height: ps.Index.Height + 1, Commitment: g.Commitment(miner, nil, nil)},
		}
		chainlab.MineNonce(ps, &blk)
		bad := t.Attach(x, blk, "commitment-to-made-up-state", nil)
		if bad.Valid || !bad.OrphanValid {
			sc.skip = "made-up-state block not labelled as expected"
			return
		}
		sc.override = map[types.BlockID]consensus.State{bad.ID: g}
		cur := bad
		st, _ := consensus.ApplyBlock(g, blk, consensus.V1BlockSupplement{}, time.Time{})
		for i := 0; i < 125; i++ {
			nb := env.SealBlock(st, cur.Block.Timestamp.Add(env.Net.BlockInterval), miner, nil, nil, true)
			n := t.Attach(cur, nb, "valid-on-made-up-state", nil)
			if !n.OrphanValid {
				sc.skip = "successor on made-up state fails header validation: " + n.Err
				return
			}
			st, _ = consensus.ApplyBlock(st, nb, consensus.V1BlockSupplement{}, time.Time{})
			cur = n
		}
		if !cur.State().SufficientlyHeavierThan(sc.vTip.State()) {
			sc.skip = "attacker chain not heavier"
			return
		}
		sc.bTip = cur
		sc.hTip = p2plab.Heavier(t, p2plab.GrowMixed(t, sc.vTip, 90, 4, prof), 1, prof, sc.vTip, cur)
	case "unvalidated-checkpoint":
		// everything above the require height. The attackers' fork: 99 valid
		// blocks on the victim's tip, then a 100th block C that only a chunk
		// validation would reject, then a few header-only blocks, so that a second
		// request starts with SendCheckpoint for C. Two Byzantine peers are
		// workers at the same time: while one answers the first request, the other
		// is asked for the checkpoint C, which is applied (not validated) by the
		// worker outside any recover.
		env := t.Env
		base := p2plab.GrowMixed(t, t.Root, max(int(env.Net.HardforkV2.RequireHeight)+2, 3)+sc.rng.IntN(5), 2, prof)
		sc.vTip = base
		par := p2plab.GrowMixed(t, base, 99, 5, prof)
		ps := par.L.State
		miner := env.A(chainlab.Miner).Addr
		blk := types.Block{
			ParentID:     par.ID,
			Timestamp:    par.Block.Timestamp.Add(env.Net.BlockInterval),
			MinerPayouts: []types.SiacoinOutput{{Address: miner, Value: ps.BlockReward()}},
			V2:           &types.V2BlockData{Height: ps.Index.Height + 1},
		}
		sc.override = map[types.BlockID]consensus.State{}
		var st consensus.State
		switch sc.f.Name {
		case "state-of-parents-sibling":
			// C commits to the state of a SIBLING of its parent: same height, other
			// id; every check of SendCheckpoint passes, but the state is not the
			// parent of the block
			sib := t.ExtendEmpty(par.Parent, par.Parent.Block.Timestamp.Add(env.Net.BlockInterval*2))
			if !sib.ChainValid || sib.ID == par.ID {
				sc.skip = "no sibling state"
				return
			}
			st = sib.L.State
			blk.V2.Commitment = st.Commitment(miner, nil, nil)
		default: // "checkpoint-block-with-v1-transactions"
			blk.Transactions = []types.Transaction{{ArbitraryData: [][]byte{[]byte("NonSia v1 transaction in a checkpoint block")}}}
			st = ps
			blk.V2.Commitment = st.Commitment(miner, blk.Transactions, nil)
		}
		chainlab.MineNonce(ps, &blk)
		c := t.Attach(par, blk, sc.f.Name, nil)
		if c.Valid || !c.OrphanValid {
			sc.skip = "crafted checkpoint block not labelled as expected: " + c.Err
			return
		}
		sc.override[c.ID] = st
		y := c
		for i := 0; i < 6+sc.rng.IntN(6); i++ {
			y = t.ExtendHeaderOnly(y)
		}
		sc.bTip = y
		// the attackers' 99 valid blocks may legitimately be adopted; the honest
		// chain must outweigh them
		sc.hTip = p2plab.Heavier(t, p2plab.GrowMixed(t, base, 104+sc.rng.IntN(8), 6, prof), 1, prof, base, par)
	}
	cc.VictimTip, cc.VictimHeight = sc.vTip.Idx, sc.vTip.Height
	cc.HonestTip, cc.HonestHeight = sc.hTip.Idx, sc.hTip.Height
	cc.ByzTip = sc.bTip.Idx
	sc.delivered = func(b *p2plab.Byz) bool { return b.Counter("faulted:"+sc.f.Target) > 0 }
	if sc.hits != nil {
		sc.delivered = func(*p2plab.Byz) bool { return sc.hits.Load() > 0 }
	}
}

// buildFault prepares the Byzantine material that has to exist in the tree
// before the run (the tree is read-only afterwards).
func buildFault(sc *scene, prof chainlab.Profile) {
	t, f, rng := sc.t, sc.f, sc.rng
	v2ok := sc.vTip.Height+1 >= t.Env.Net.HardforkV2.AllowHeight
	if f.Regime == "v2" && !v2ok {
		sc.skip = "victim tip below the allow height"
		return
	}
	if f.View == "private" {
		// a valid fork nobody else holds, sufficiently heavier than the victim's chain
		fp := sc.vTip
		if d := rng.IntN(3); d > 0 && int(sc.vTip.Height) > d {
			fp = sc.vTip.Ancestor(sc.vTip.Height - uint64(d))
		}
		sc.bTip = p2plab.Heavier(t, p2plab.GrowMixed(t, fp, 3+rng.IntN(8), 2, prof), 1, prof, sc.vTip)
		return
	}
	if f.View == "madeup" {
		env := t.Env
		base := sc.vTip
		if base.Block.V2 == nil || base.Parent == nil || base.Height < env.Net.HardforkV2.RequireHeight {
			sc.skip = "victim tip cannot serve as a checkpoint"
			return
		}
		g := base.Parent.L.State
		g.Attestations += 7
		g.SiafundTaxRevenue = g.SiafundTaxRevenue.Add(types.Siacoins(777))
		st, _ := consensus.ApplyBlock(g, base.Block, consensus.V1BlockSupplement{}, time.Time{})
		miner := env.A(chainlab.Miner).Addr
		cur := base
		for i := 0; i < 400; i++ {
			nb := env.SealBlock(st, cur.Block.Timestamp.Add(env.Net.BlockInterval), miner, nil, nil, true)
			n := t.Attach(cur, nb, "valid-on-made-up-state", nil)
			if !n.OrphanValid || n.Valid {
				sc.skip = "made-up-state successor not labelled as expected: " + n.Err
				return
			}
			st, _ = consensus.ApplyBlock(st, nb, consensus.V1BlockSupplement{}, time.Time{})
			cur = n
			if i >= 2 && cur.State().SufficientlyHeavierThan(sc.vTip.State()) && rng.IntN(3) == 0 {
				break
			}
		}
		sc.override = map[types.BlockID]consensus.State{base.ID: g}
		sc.bTip = cur
		return
	}
	if f.View == "invalid" {
		// valid prefix, one block with a fine header and an invalid body, then
		// header-only blocks until the chain outweighs the victim's
		n := 3 + rng.IntN(5)
		k := posIndex(sc.cc.Pos, n)
		if sc.cc.Long {
			// the invalid block closes the first 100-block request; a second request follows
			n, k = 104+rng.IntN(8), 99
		}
		x := p2plab.GrowMixed(t, sc.vTip, k, 3, prof)
		bad := p2plab.InvalidChild(t, x, rng)
		if bad == nil {
			sc.skip = "no body-invalid block found"
			return
		}
		y := bad
		for i := k + 1; i < n; i++ {
			y = t.ExtendHeaderOnly(y)
		}
		if !y.State().SufficientlyHeavierThan(sc.vTip.State()) {
			if sc.cc.Pos == "last" {
				sc.skip = "invalid chain not heavier"
				return
			}
			y = p2plab.Heavier(t, y, 0, prof, sc.vTip)
		}
		sc.bTip = y
		sc.delivered = func(b *p2plab.Byz) bool { return b.Counter("served-invalid-block") > 0 }
		sc.processed = chunkVerdict
		return
	}
	if f.Target == "SendV2Blocks" && f.Name == "same-id-other-body" {
		sc.processed = chunkVerdict
	}
	switch f.Target {
	case "SendTransactions", "RelayV2BlockOutline", "RelayV2Header", "RelayV2TransactionSet":
		buildRelayFault(sc, prof)
	}
}

type relayMaterial struct {
	child   *chainlab.Node // valid v2 child of the victim's tip with transactions
	invalid *chainlab.Node
}

func buildRelayFault(sc *scene, prof chainlab.Profile) {
	t, f, rng := sc.t, sc.f, sc.rng
	vs := sc.vTip.L.State
	child := p2plab.ChildWithTxns(t, sc.vTip)
	if child == nil {
		sc.skip = "no v2 child with transactions"
		return
	}
	call := func(b *p2plab.Byz, o gateway.Object) error {
		var err error
		if sc.cc.HangUp {
			err = b.CallHangUp(o) // hit and run: close the connection once the request is on the wire
		} else {
			err = b.Call(o, 5*time.Second)
		}
		if err == nil || err != p2plab.ErrNotConnected {
			b.Count("faulted:"+f.Target, 1)
		}
		return err
	}
	tipID := sc.vTip.ID
	sc.watch = append(sc.watch, tipID)
	sc.delivered = func(b *p2plab.Byz) bool { return b.Counter("faulted:"+f.Target) > 0 }
	switch f.Target + "/" + f.Name {
	case "RelayV2Header/insufficient-work":
		bh, ok := p2plab.BadWorkHeader(vs, child.Block.Header())
		if !ok {
			sc.skip = "no bad-work nonce"
			return
		}
		sc.action = func(b *p2plab.Byz) error { return call(b, &gateway.RPCRelayV2Header{Header: bh}) }
		badID := bh.ID()
		sc.watch = append(sc.watch, badID)
		// the handler looked the bad header's id up: the whole message was read
		sc.processed = func(v *p2plab.Node, b *p2plab.Byz, since int64) bool {
			return v.ACM.HandlerReads("State", badID, since) > 0
		}
	case "RelayV2Header/insufficient-work-on-tip-parent", "RelayV2Header/insufficient-work-on-grandparent", "RelayV2Header/insufficient-work-on-side-branch", "RelayV2Header/insufficient-work-on-genesis",
		"RelayV2Header/sufficient-work-on-tip-parent", "RelayV2Header/sufficient-work-on-side-branch":
		var parent *chainlab.Node
		switch {
		case strings.HasSuffix(f.Name, "tip-parent"):
			parent = sc.vTip.Parent
		case strings.HasSuffix(f.Name, "grandparent"):
			if sc.vTip.Parent != nil {
				parent = sc.vTip.Parent.Parent
			}
		case strings.HasSuffix(f.Name, "genesis"):
			parent = t.Root
		default:
			// a block of a lighter branch the victim stored before its own chain
			if sc.vTip.Height >= 3 {
				fp := sc.vTip.Ancestor(sc.vTip.Height - 2)
				side := t.ExtendEmpty(fp, fp.Block.Timestamp.Add(t.Env.Net.BlockInterval*2))
				if side.ChainValid && sc.vTip.L.State.SufficientlyHeavierThan(side.L.State) {
					sc.side, parent = side, side
				}
			}
		}
		if parent == nil {
			sc.skip = "victim chain too short for the parent choice"
			return
		}
		ps := parent.State()
		bh := types.BlockHeader{ParentID: parent.ID, Timestamp: parent.Block.Timestamp.Add(t.Env.Net.BlockInterval), Commitment: types.Hash256{0xC1, byte(rng.IntN(256)), byte(rng.IntN(256)), 0x11}}
		if strings.HasPrefix(f.Name, "insufficient") {
			var ok bool
			if bh, ok = p2plab.BadWorkHeader(ps, bh); !ok {
				sc.skip = "no bad-work nonce"
				return
			}
		} else {
			fct := ps.NonceFactor()
			for bh.ID().CmpWork(ps.PoWTarget()) < 0 {
				bh.Nonce += fct
			}
		}
		if consensus.ValidateHeader(ps, bh) == nil != strings.HasPrefix(f.Name, "sufficient") {
			sc.skip = "header not labelled as intended"
			return
		}
		sc.action = func(b *p2plab.Byz) error { return call(b, &gateway.RPCRelayV2Header{Header: bh}) }
		badID := bh.ID()
		sc.watch = append(sc.watch, badID)
		sc.processed = func(v *p2plab.Node, b *p2plab.Byz, since int64) bool {
			return v.ACM.HandlerReads("State", badID, since) > 0
		}
	case "RelayV2Header/unknown-parent":
		bh := sc.hTip.Block.Header()
		sc.action = func(b *p2plab.Byz) error { return call(b, &gateway.RPCRelayV2Header{Header: bh}) }
	case "RelayV2Header/valid-no-follow-up":
		bh := child.Block.Header()
		sc.action = func(b *p2plab.Byz) error { return call(b, &gateway.RPCRelayV2Header{Header: bh}) }
	case "RelayV2Header/malformed":
		sc.action = func(b *p2plab.Byz) error {
			err := b.CallMismatched(&gateway.RPCRelayV2Header{}, &gateway.RPCSendTransactions{Index: sc.vTip.L.State.Index}, 5*time.Second)
			b.Count("faulted:"+f.Target, 1)
			return err
		}
	case "RelayV2BlockOutline/insufficient-work":
		o := gateway.OutlineBlock(child.Block, nil, nil)
		fct := vs.NonceFactor()
		o.Nonce = 0
		found := false
		for i := 0; i < 1<<20; i++ {
			if o.ID(vs).CmpWork(vs.PoWTarget()) < 0 {
				found = true
				break
			}
			o.Nonce += fct
		}
		if !found {
			sc.skip = "no bad-work nonce"
			return
		}
		sc.action = func(b *p2plab.Byz) error { return call(b, &gateway.RPCRelayV2BlockOutline{Block: o}) }
		// only the Byzantine peer relays to the victim in these runs: a handler
		// looking up the tip's state after the write is handling this outline
		sc.processed = func(v *p2plab.Node, b *p2plab.Byz, since int64) bool {
			return v.ACM.HandlerReads("State", tipID, since) > 0
		}
	case "RelayV2BlockOutline/overflow-miner-fee", "RelayV2BlockOutline/overflow-v1-miner-fees", "SendTransactions/overflow-miner-fee":
		// a block on the victim's tip with enough work that carries a
		// transaction whose fees overflow when they are added to the block reward
		blk := child.Block
		v2 := *child.Block.V2
		blk.V2 = &v2
		if f.Name == "overflow-v1-miner-fees" {
			blk.Transactions = append(append([]types.Transaction(nil), child.Block.Transactions...), types.Transaction{MinerFees: []types.Currency{types.MaxCurrency, types.MaxCurrency}})
		} else {
			blk.V2.Transactions = append(append([]types.V2Transaction(nil), child.Block.V2.Transactions...), types.V2Transaction{MinerFee: types.MaxCurrency})
		}
		var o gateway.V2BlockOutline
		if f.Target == "SendTransactions" {
			o = gateway.OutlineBlock(blk, blk.Transactions, blk.V2Transactions()) // everything withheld
			sc.extraBlock = &blk
		} else {
			o = gateway.OutlineBlock(blk, nil, nil)
		}
		fct := vs.NonceFactor()
		for i := 0; o.ID(vs).CmpWork(vs.PoWTarget()) < 0; i++ {
			o.Nonce += fct
			if i > 1<<22 {
				sc.skip = "cannot mine the overflow outline"
				return
			}
		}
		sc.action = func(b *p2plab.Byz) error {
			fmt.Printf("note: C11 stream=%d relaying an outline with overflowing fees (%s/%s)\n", sc.cc.Stream, f.Target, f.Name)
			if f.Target == "SendTransactions" {
				err := b.Call(&gateway.RPCRelayV2BlockOutline{Block: o}, 8*time.Second)
				b.Count("outline-with-missing-relayed", 1)
				return err
			}
			return call(b, &gateway.RPCRelayV2BlockOutline{Block: o})
		}
	case "RelayV2TransactionSet/overflow-miner-fee", "RelayV2TransactionSet/overflow-outputs":
		addr := t.Env.A(chainlab.Bob).Addr
		set := []types.V2Transaction{{MinerFee: types.MaxCurrency}, {MinerFee: types.MaxCurrency}}
		if f.Name == "overflow-outputs" {
			set = []types.V2Transaction{{SiacoinOutputs: []types.SiacoinOutput{{Address: addr, Value: types.MaxCurrency}, {Address: addr, Value: types.MaxCurrency}}, MinerFee: types.MaxCurrency}}
		}
		sc.action = func(b *p2plab.Byz) error {
			fmt.Printf("note: C11 stream=%d relaying a transaction set with overflowing amounts (%s)\n", sc.cc.Stream, f.Name)
			return call(b, &gateway.RPCRelayV2TransactionSet{Index: sc.vTip.L.State.Index, Transactions: set})
		}
	case "RelayV2BlockOutline/invalid-block":
		var bad *chainlab.Node
		for try := 0; try < 10 && bad == nil; try++ {
			c := p2plab.InvalidChild(t, sc.vTip, rng)
			if c != nil && c.Block.V2 != nil && !c.Future {
				bad = c
			}
		}
		if bad == nil {
			sc.skip = "no invalid v2 child"
			return
		}
		o := gateway.OutlineBlock(bad.Block, nil, nil)
		if o.ID(vs) != bad.ID {
			sc.skip = "outline id differs from block id"
			return
		}
		sc.action = func(b *p2plab.Byz) error { return call(b, &gateway.RPCRelayV2BlockOutline{Block: o}) }
		badIdx := bad.Idx
		sc.processed = func(v *p2plab.Node, b *p2plab.Byz, since int64) bool {
			for _, c := range v.Mon.Calls() {
				if c.Kind == "AddBlocks" && c.Err != "" && c.First == badIdx {
					return true // the manager rejected the relayed block
				}
			}
			return false
		}
	case "RelayV2BlockOutline/unknown-parent":
		if sc.hTip.Block.V2 == nil {
			sc.skip = "honest tip is not v2"
			return
		}
		o := gateway.OutlineBlock(sc.hTip.Block, nil, nil)
		sc.action = func(b *p2plab.Byz) error { return call(b, &gateway.RPCRelayV2BlockOutline{Block: o}) }
	case "RelayV2BlockOutline/malformed":
		sc.action = func(b *p2plab.Byz) error {
			err := b.CallMismatched(&gateway.RPCRelayV2BlockOutline{}, &gateway.RPCSendV2Blocks{History: []types.BlockID{sc.vTip.ID, sc.hTip.ID}, Max: 1 << 60}, 5*time.Second)
			b.Count("faulted:"+f.Target, 1)
			return err
		}
	case "RelayV2BlockOutline/oversized":
		// an outline carrying far more (duplicate) transactions than a block may weigh
		o := gateway.OutlineBlock(child.Block, nil, nil)
		for len(o.Transactions) < 4000 && len(o.Transactions) > 0 {
			o.Transactions = append(o.Transactions, o.Transactions...)
		}
		sc.action = func(b *p2plab.Byz) error { return call(b, &gateway.RPCRelayV2BlockOutline{Block: o}) }
	case "RelayV2TransactionSet/empty":
		sc.action = func(b *p2plab.Byz) error {
			return call(b, &gateway.RPCRelayV2TransactionSet{Index: sc.vTip.L.State.Index})
		}
		sc.processed = func(v *p2plab.Node, b *p2plab.Byz, since int64) bool {
			return v.ACM.HandlerReads("Block", tipID, since) > 0
		}
	case "RelayV2TransactionSet/unknown-basis":
		txns := child.Block.V2Transactions()
		sc.action = func(b *p2plab.Byz) error {
			return call(b, &gateway.RPCRelayV2TransactionSet{Index: sc.hTip.L.State.Index, Transactions: txns})
		}
	case "RelayV2TransactionSet/valid-control", "RelayV2TransactionSet/invalid-signature":
		txns := child.Block.V2Transactions()
		if len(txns) == 0 {
			sc.skip = "child has no v2 transactions"
			return
		}
		set := []types.V2Transaction{txns[0].DeepCopy()}
		if f.Name == "invalid-signature" {
			tx := &set[0]
			switch {
			case len(tx.SiacoinInputs) > 0 && len(tx.SiacoinInputs[0].SatisfiedPolicy.Signatures) > 0:
				tx.SiacoinInputs[0].SatisfiedPolicy.Signatures[0][3] ^= 4
			case len(tx.SiafundInputs) > 0 && len(tx.SiafundInputs[0].SatisfiedPolicy.Signatures) > 0:
				tx.SiafundInputs[0].SatisfiedPolicy.Signatures[0][3] ^= 4
			default:
				tx.MinerFee = tx.MinerFee.Add(types.Siacoins(1))
			}
		}
		sc.action = func(b *p2plab.Byz) error {
			return call(b, &gateway.RPCRelayV2TransactionSet{Index: sc.vTip.L.State.Index, Transactions: set})
		}
	case "RelayV2TransactionSet/confirmed-set-old-basis":
		var anc *chainlab.Node
		for x := sc.vTip; x != nil && x.Parent != nil; x = x.Parent {
			if x.Block.V2 != nil && len(x.Block.V2.Transactions) > 0 {
				anc = x
				if rng.IntN(2) == 0 {
					break
				}
			}
		}
		if anc == nil {
			sc.skip = "no confirmed v2 transactions on the victim's chain"
			return
		}
		set := anc.Block.V2Transactions()
		basis := anc.Parent.L.State.Index
		sc.action = func(b *p2plab.Byz) error {
			return call(b, &gateway.RPCRelayV2TransactionSet{Index: basis, Transactions: set})
		}
	case "RelayV2TransactionSet/malformed":
		sc.action = func(b *p2plab.Byz) error {
			err := b.CallMismatched(&gateway.RPCRelayV2TransactionSet{}, &gateway.RPCSendHeaders{Index: sc.vTip.L.State.Index, Max: 1 << 62}, 5*time.Second)
			b.Count("faulted:"+f.Target, 1)
			return err
		}
	default:
		if f.Target != "SendTransactions" {
			sc.skip = "no builder for " + f.key()
			return
		}
		// outline of a valid block with every transaction withheld; the fault is
		// in the answer to the victim's SendTransactions
		o := gateway.OutlineBlock(child.Block, child.Block.Transactions, child.Block.V2Transactions())
		if len(o.Missing()) == 0 {
			sc.skip = "nothing missing"
			return
		}
		sc.action = func(b *p2plab.Byz) error {
			err := b.Call(&gateway.RPCRelayV2BlockOutline{Block: o}, 8*time.Second)
			b.Count("outline-with-missing-relayed", 1)
			return err
		}
		// after the answer to SendTransactions the handler makes no observable
		// call before its verdict, so receipt of a hit-and-run answer cannot be
		// demonstrated: such a pair is judged only if the ban is observed
		sc.processed = func(v *p2plab.Node, b *p2plab.Byz, since int64) bool { return false }
	}
}

// chunkVerdict: the victim judged a downloaded batch (in hit-and-run runs the
// Byzantine peer is the only peer, so every batch is its own): the manager
// rejected it, or the pre-validating worker failed with something that is not
// a transport or framing error.
func chunkVerdict(v *p2plab.Node, b *p2plab.Byz, since int64) bool {
	for _, c := range v.Mon.Calls() {
		if (c.Kind == "AddBlocks" || c.Kind == "AddValidatedV2Blocks") && c.Err != "" && c.N > 0 {
			return true
		}
	}
	for _, l := range v.LogTail() {
		if !strings.Contains(l, "failed to fetch blocks") {
			continue
		}
		transport := false
		for _, w := range []string{"couldn't", "EOF", "closed", "timeout", "canceled", "deadline", "wrong number of blocks", "wrong blocks", "do not match", "reset"} {
			if strings.Contains(l, w) {
				transport = true
			}
		}
		if !transport {
			return true
		}
	}
	return false
}

// installHooks scripts the Byzantine peer for the passive (victim-issued) faults.
func installHooks(sc *scene, b *p2plab.Byz) {
	defer func() {
		if !sc.cc.HangUp {
			return
		}
		// hit and run: hang up right after the corrupted answer is on the wire
		if h := b.OnSendV2Blocks; h != nil {
			b.OnSendV2Blocks = func(b *p2plab.Byz, r *gateway.RPCSendV2Blocks) p2plab.Reply {
				rep := h(b, r)
				rep.HangUp = rep.Faulted
				return rep
			}
		}
		if h := b.OnSendTransactions; h != nil {
			b.OnSendTransactions = func(b *p2plab.Byz, r *gateway.RPCSendTransactions) p2plab.Reply {
				rep := h(b, r)
				rep.HangUp = rep.Faulted
				return rep
			}
		}
	}()
	f, t := sc.f, sc.t
	pos := sc.cc.Pos
	garbage := func() gateway.Object {
		buf := make([]byte, 3000)
		for i := range buf {
			buf[i] = byte(i*131 + 7)
		}
		return &gateway.RPCDiscoverIP{IP: string(buf)}
	}
	switch f.Target {
	case "SendHeaders":
		b.OnSendHeaders = func(b *p2plab.Byz, r *gateway.RPCSendHeaders) p2plab.Reply {
			reqIdx := r.Index
			if !b.HonestHeaders(r) {
				return p2plab.Reply{}
			}
			if len(r.Headers) == 0 {
				return p2plab.Reply{Obj: r}
			}
			n := len(r.Headers)
			i := posIndex(pos, n)
			parentState := func(i int) *chainlab.Node { return t.ByID[r.Headers[i].ParentID] }
			switch f.Name {
			case "silence":
				return p2plab.Reply{Silence: true, Faulted: true}
			case "close":
				return p2plab.Reply{Faulted: true}
			case "confused-type":
				blk := &gateway.RPCSendV2Blocks{Remaining: 7}
				for _, nd := range b.View[1:min(len(b.View), 4)] {
					blk.Blocks = append(blk.Blocks, nd.Block)
				}
				return p2plab.Reply{Obj: blk, Faulted: true}
			case "garbage":
				return p2plab.Reply{Obj: garbage(), Faulted: true}
			case "oversized":
				for uint64(len(r.Headers)) <= r.Max {
					r.Headers = append(r.Headers, r.Headers...)
				}
				if uint64(len(r.Headers)) > r.Max+50 {
					r.Headers = r.Headers[:r.Max+50]
				}
				return p2plab.Reply{Obj: r, Faulted: true}
			case "insufficient-work":
				ps := parentState(i)
				if ps == nil {
					return p2plab.Reply{Obj: r}
				}
				bh, ok := p2plab.BadWorkHeader(ps.State(), r.Headers[i])
				if !ok {
					return p2plab.Reply{Obj: r}
				}
				r.Headers[i] = bh
				return p2plab.Reply{Obj: r, Faulted: true}
			case "broken-linkage":
				r.Headers[i].ParentID[5] ^= 0x10
				return p2plab.Reply{Obj: r, Faulted: true}
			case "not-extending-request":
				if n < 2 {
					return p2plab.Reply{Obj: r}
				}
				r.Headers = r.Headers[1:]
				return p2plab.Reply{Obj: r, Faulted: true}
			case "from-genesis":
				if reqIdx.Height == 0 {
					return p2plab.Reply{Obj: r}
				}
				g := &gateway.RPCSendHeaders{Index: t.Root.L.State.Index, Max: r.Max}
				b.HonestHeaders(g)
				return p2plab.Reply{Obj: g, Faulted: true}
			case "swapped-order":
				if n < 2 {
					return p2plab.Reply{Obj: r}
				}
				j := min(i, n-2)
				r.Headers[j], r.Headers[j+1] = r.Headers[j+1], r.Headers[j]
				return p2plab.Reply{Obj: r, Faulted: true}
			case "empty":
				r.Headers, r.Remaining = nil, 0
				return p2plab.Reply{Obj: r, Faulted: true}
			case "remaining-lie":
				r.Headers = r.Headers[:(n+1)/2]
				r.Remaining = []uint64{0, 1 << 40}[n%2]
				return p2plab.Reply{Obj: r, Faulted: true}
			}
			return p2plab.Reply{Obj: r}
		}
	case "SendV2Blocks":
		ms := &multiStep{cont: map[types.BlockID]*msChunk{}}
		b.OnSendV2Blocks = func(b *p2plab.Byz, r *gateway.RPCSendV2Blocks) p2plab.Reply {
			b.HonestBlocks(r)
			if f.View == "invalid" {
				served := false
				for _, blk := range r.Blocks {
					if nd := t.ByID[blk.ID()]; nd != nil && nd.OrphanValid && !nd.Valid && nd.Corruption != "" {
						b.Count("served-invalid-block", 1)
						served = true
					}
				}
				return p2plab.Reply{Obj: r, Faulted: served}
			}
			if strings.HasPrefix(f.Name, "multistep-") {
				rep := ms.answer(b, r, f.Name, pos)
				if rep.Faulted {
					// logged before the write so that a crash of the victim's worker
					// goroutine (no recover there) can be attributed to this row
					fmt.Printf("note: C11 stream=%d delivering %s continuation (%d blocks for %d outstanding) regime=%s long=%v\n", sc.cc.Stream, f.Name, len(r.Blocks), r.Max, sc.cc.Regime, sc.cc.Long)
				}
				return rep
			}
			n := len(r.Blocks)
			if n == 0 {
				return p2plab.Reply{Obj: r}
			}
			i := posIndex(pos, n)
			switch f.Name {
			case "silence", "silence-on-private-fork":
				return p2plab.Reply{Silence: true, Faulted: true}
			case "close":
				return p2plab.Reply{Faulted: true}
			case "confused-type":
				h := &gateway.RPCSendHeaders{Remaining: 3}
				for _, blk := range r.Blocks {
					h.Headers = append(h.Headers, blk.Header())
				}
				return p2plab.Reply{Obj: h, Faulted: true}
			case "garbage":
				return p2plab.Reply{Obj: garbage(), Faulted: true}
			case "fewer":
				r.Blocks = r.Blocks[:n-1]
				r.Remaining++
				return p2plab.Reply{Obj: r, Faulted: true}
			case "more":
				r.Blocks = append(r.Blocks, r.Blocks[n-1])
				return p2plab.Reply{Obj: r, Faulted: true}
			case "zero":
				r.Blocks = nil
				return p2plab.Reply{Obj: r, Faulted: true}
			case "reordered":
				if n < 2 {
					return p2plab.Reply{Obj: r}
				}
				j := min(i, n-2)
				r.Blocks[j], r.Blocks[j+1] = r.Blocks[j+1], r.Blocks[j]
				return p2plab.Reply{Obj: r, Faulted: true}
			case "sibling-block":
				nd := t.ByID[r.Blocks[i].ID()]
				if nd == nil || nd.Parent == nil {
					return p2plab.Reply{Obj: r}
				}
				for _, sib := range nd.Parent.Children {
					if sib != nd && sib.ChainValid {
						r.Blocks[i] = sib.Block
						return p2plab.Reply{Obj: r, Faulted: true}
					}
				}
				// no sibling in the tree: repeat the previous block instead
				if i > 0 {
					r.Blocks[i] = r.Blocks[i-1]
					return p2plab.Reply{Obj: r, Faulted: true}
				}
				return p2plab.Reply{Obj: r}
			case "overflow-payouts", "overflow-miner-fee", "overflow-outputs":
				// a v2 block of the batch (its id covers the header only) carrying
				// amounts that overflow when summed
				cand := -1
				for j := i; j < n && cand < 0; j++ {
					if r.Blocks[j].V2 != nil {
						cand = j
					}
				}
				for j := i - 1; j >= 0 && cand < 0; j-- {
					if r.Blocks[j].V2 != nil {
						cand = j
					}
				}
				if cand < 0 {
					return p2plab.Reply{Obj: r}
				}
				blk := r.Blocks[cand]
				id := blk.ID()
				v2 := *blk.V2
				blk.V2 = &v2
				addr := t.Env.A(chainlab.Bob).Addr
				switch f.Name {
				case "overflow-payouts":
					blk.MinerPayouts = []types.SiacoinOutput{{Address: blk.MinerPayouts[0].Address, Value: types.MaxCurrency}, {Address: addr, Value: types.MaxCurrency}}
				case "overflow-miner-fee":
					blk.V2.Transactions = append(append([]types.V2Transaction(nil), blk.V2.Transactions...), types.V2Transaction{MinerFee: types.MaxCurrency}, types.V2Transaction{MinerFee: types.MaxCurrency})
				default:
					blk.V2.Transactions = append(append([]types.V2Transaction(nil), blk.V2.Transactions...), types.V2Transaction{SiacoinOutputs: []types.SiacoinOutput{{Address: addr, Value: types.MaxCurrency}, {Address: addr, Value: types.MaxCurrency}}})
				}
				if blk.ID() != id {
					return p2plab.Reply{Obj: r}
				}
				fmt.Printf("note: C11 stream=%d answering SendV2Blocks with overflowing amounts (%s, block %d of %d) regime=%s\n", sc.cc.Stream, f.Name, cand+1, n, sc.cc.Regime)
				r.Blocks[cand] = blk
				return p2plab.Reply{Obj: r, Faulted: true}
			case "same-id-other-body":
				if sc.cc.Special == "two-chunks" {
					// only the request that starts at genesis (the chunk that is
					// stored without a reorg) is corrupted
					if len(r.History) != 1 || r.History[0] != t.Root.ID {
						return p2plab.Reply{Obj: r}
					}
					i = n / 2
				}
				// nearest v2 block at or after i, else before
				cand := -1
				for j := i; j < n; j++ {
					if r.Blocks[j].V2 != nil {
						cand = j
						break
					}
				}
				for j := i - 1; j >= 0 && cand < 0; j-- {
					if r.Blocks[j].V2 != nil {
						cand = j
					}
				}
				if cand < 0 {
					return p2plab.Reply{Obj: r}
				}
				nd := t.ByID[r.Blocks[cand].ID()]
				sb, ok := p2plab.SwapBody(t, nd)
				if !ok {
					return p2plab.Reply{Obj: r}
				}
				r.Blocks[cand] = sb
				return p2plab.Reply{Obj: r, Faulted: true}
			}
			return p2plab.Reply{Obj: r}
		}
	case "SendCheckpoint":
		b.OnSendCheckpoint = func(b *p2plab.Byz, r *gateway.RPCSendCheckpoint) p2plab.Reply {
			if !b.HonestCheckpoint(r) {
				return p2plab.Reply{}
			}
			nd := t.ByID[r.Index.ID]
			switch f.Name {
			case "silence", "silence-on-private-fork":
				return p2plab.Reply{Silence: true, Faulted: true}
			case "close":
				return p2plab.Reply{Faulted: true}
			case "confused-type":
				return p2plab.Reply{Obj: &gateway.RPCSendV2Blocks{Blocks: []types.Block{r.Block}, Remaining: 1}, Faulted: true}
			case "garbage":
				return p2plab.Reply{Obj: garbage(), Faulted: true}
			case "wrong-id":
				if nd.Parent == nil || nd.Parent.Parent == nil || nd.Parent.Block.V2 == nil {
					return p2plab.Reply{Obj: r}
				}
				r.Block, r.State = nd.Parent.Block, nd.Parent.Parent.State()
				return p2plab.Reply{Obj: r, Faulted: true}
			case "v1-block":
				// the genesis block (always v1) with the genesis state
				r.Block, r.State = t.Env.Genesis, t.Env.Net.GenesisState()
				return p2plab.Reply{Obj: r, Faulted: true}
			case "two-payouts":
				blk := r.Block
				blk.MinerPayouts = append(append([]types.SiacoinOutput(nil), blk.MinerPayouts...), types.SiacoinOutput{Address: t.Env.A(chainlab.Bob).Addr, Value: types.Siacoins(1)})
				r.Block = blk
				return p2plab.Reply{Obj: r, Faulted: true}
			case "payout-max-currency":
				blk := r.Block
				blk.MinerPayouts = append([]types.SiacoinOutput(nil), blk.MinerPayouts...)
				if len(blk.MinerPayouts) == 0 {
					return p2plab.Reply{Obj: r}
				}
				blk.MinerPayouts[0].Value = types.MaxCurrency
				fmt.Printf("note: C11 stream=%d answering SendCheckpoint with a MaxCurrency miner payout\n", sc.cc.Stream)
				r.Block = blk
				return p2plab.Reply{Obj: r, Faulted: true}
			case "payouts-stripped", "payouts-duplicated", "payout-value-changed", "payout-address-changed", "transactions-stripped", "transactions-duplicated", "transactions-reordered", "v2-height-changed":
				// the genuine block, id untouched, body changed
				blk := r.Block
				id := blk.ID()
				blk.MinerPayouts = append([]types.SiacoinOutput(nil), blk.MinerPayouts...)
				if blk.V2 != nil {
					v2 := *blk.V2
					v2.Transactions = append([]types.V2Transaction(nil), blk.V2.Transactions...)
					blk.V2 = &v2
				}
				changed := false
				switch f.Name {
				case "payouts-stripped":
					blk.MinerPayouts, changed = nil, true
				case "payouts-duplicated":
					blk.MinerPayouts, changed = append(blk.MinerPayouts, blk.MinerPayouts...), true
				case "payout-value-changed":
					blk.MinerPayouts[0].Value, changed = blk.MinerPayouts[0].Value.Add(types.Siacoins(1000)), true
				case "payout-address-changed":
					blk.MinerPayouts[0].Address[3] ^= 0x40
					changed = true
				case "transactions-stripped":
					if blk.V2 != nil && len(blk.V2.Transactions) > 0 {
						blk.V2.Transactions, changed = nil, true
					}
				case "transactions-duplicated":
					if blk.V2 != nil && len(blk.V2.Transactions) > 0 {
						blk.V2.Transactions, changed = append(blk.V2.Transactions, blk.V2.Transactions[0]), true
					}
				case "transactions-reordered":
					if blk.V2 != nil && len(blk.V2.Transactions) > 1 {
						k := len(blk.V2.Transactions) - 1
						blk.V2.Transactions[0], blk.V2.Transactions[k] = blk.V2.Transactions[k], blk.V2.Transactions[0]
						changed = true
					}
				case "v2-height-changed":
					if blk.V2 != nil {
						blk.V2.Height += 7
						changed = true
					}
				}
				if !changed || blk.ID() != id {
					return p2plab.Reply{Obj: r}
				}
				// logged before the write: a crash in a worker or RetrieveCheckpoint
				// goroutine (no recover there) can then be attributed to this row
				fmt.Printf("note: C11 stream=%d answering SendCheckpoint with the genuine block, %s (id unchanged)\n", sc.cc.Stream, f.Name)
				r.Block = blk
				return p2plab.Reply{Obj: r, Faulted: true}
			case "state-of-other-block":
				r.State = nd.State()
				return p2plab.Reply{Obj: r, Faulted: true}
			case "state-tweaked":
				st := r.State
				st.SiafundTaxRevenue = st.SiafundTaxRevenue.Add(types.Siacoins(1000))
				st.Attestations += 3
				r.State = st
				return p2plab.Reply{Obj: r, Faulted: true}
			case "block-other-body":
				sb, ok := p2plab.SwapBody(t, nd)
				if !ok {
					return p2plab.Reply{Obj: r}
				}
				r.Block = sb
				return p2plab.Reply{Obj: r, Faulted: true}
			case "state-of-parents-sibling", "checkpoint-block-with-v1-transactions":
				if st, ok := sc.override[r.Index.ID]; ok {
					r.State = st
					sc.hits.Add(1)
					// logged before the write: the worker applies this block outside any recover
					fmt.Printf("note: C11 stream=%d answering SendCheckpoint for the attacker-mined block (%s): id, commitment, height and payout all check out\n", sc.cc.Stream, f.Name)
					return p2plab.Reply{Obj: r, Faulted: true}
				}
			case "state-for-unvalidated-block", "made-up-state-chain":
				// honest from the attacker's point of view: the block commits to
				// the made-up (header-derived) state
				if st, ok := sc.override[r.Index.ID]; ok {
					r.State = st
					return p2plab.Reply{Obj: r, Faulted: true}
				}
			}
			return p2plab.Reply{Obj: r}
		}
	case "SendTransactions":
		b.OnSendTransactions = func(b *p2plab.Byz, r *gateway.RPCSendTransactions) p2plab.Reply {
			b.HonestTransactions(r)
			switch f.Name {
			case "wrong-transactions":
				// transactions of another block
				r.Transactions, r.V2Transactions = nil, nil
				for _, nd := range t.Nodes {
					if nd.ID != r.Index.ID && nd.Block.V2 != nil && len(nd.Block.V2.Transactions) > 0 {
						r.V2Transactions = nd.Block.V2.Transactions
						break
					}
				}
				if len(r.V2Transactions) == 0 {
					r.Transactions = []types.Transaction{{ArbitraryData: [][]byte{[]byte("NonSia not what you asked for")}}}
				}
				return p2plab.Reply{Obj: r, Faulted: true}
			case "empty":
				r.Transactions, r.V2Transactions = nil, nil
				return p2plab.Reply{Obj: r, Faulted: true}
			case "partial":
				if len(r.Transactions)+len(r.V2Transactions) < 2 {
					r.Transactions, r.V2Transactions = nil, nil
				} else if len(r.V2Transactions) > 0 {
					r.V2Transactions = r.V2Transactions[1:]
				} else {
					r.Transactions = r.Transactions[1:]
				}
				return p2plab.Reply{Obj: r, Faulted: true}
			case "silence":
				return p2plab.Reply{Silence: true, Faulted: true}
			case "close":
				return p2plab.Reply{Faulted: true}
			case "confused-type":
				return p2plab.Reply{Obj: &gateway.RPCShareNodes{Peers: []string{"1.2.3.4:5", "x"}}, Faulted: true}
			case "overflow-miner-fee":
				if sc.extraBlock == nil {
					return p2plab.Reply{Obj: r}
				}
				want := map[types.Hash256]bool{}
				for _, h := range r.Hashes {
					want[h] = true
				}
				r.Transactions, r.V2Transactions = nil, nil
				for _, txn := range sc.extraBlock.Transactions {
					if want[txn.MerkleLeafHash()] {
						r.Transactions = append(r.Transactions, txn)
					}
				}
				for _, txn := range sc.extraBlock.V2Transactions() {
					if want[txn.MerkleLeafHash()] {
						r.V2Transactions = append(r.V2Transactions, txn)
					}
				}
				fmt.Printf("note: C11 stream=%d answering SendTransactions with a transaction whose fee overflows\n", sc.cc.Stream)
				return p2plab.Reply{Obj: r, Faulted: true}
			case "honest-control":
				return p2plab.Reply{Obj: r, Faulted: true}
			}
			return p2plab.Reply{Obj: r}
		}
	case "ShareNodes":
		b.OnShareNodes = func(b *p2plab.Byz, r *gateway.RPCShareNodes) p2plab.Reply {
			switch f.Name {
			case "malformed-addresses":
				r.Peers = []string{":1234", "host:99999", "host:0", "noport", "", "[::1]:", strings.Repeat("a", 300) + ":9981", "127.0.0.1:-5", "256.256.256.256:9981", "\x00\xff:1"}
			case "oversized":
				r.Peers = nil
				for i := 0; i < 400; i++ {
					r.Peers = append(r.Peers, fmt.Sprintf("%s.example.invalid:%d", strings.Repeat("b", 100), 1000+i))
				}
			case "garbage":
				return p2plab.Reply{Obj: garbage(), Faulted: true}
			}
			return p2plab.Reply{Obj: r, Faulted: true}
		}
	}
}

// secondFaults are the passive faults a second Byzantine peer picks from.
var secondFaults = []string{"SendHeaders/close", "SendHeaders/garbage", "SendHeaders/empty", "SendHeaders/broken-linkage", "SendV2Blocks/silence", "SendV2Blocks/fewer", "SendV2Blocks/zero", "SendV2Blocks/reordered", "SendV2Blocks/sibling-block", "SendCheckpoint/close", "SendCheckpoint/state-tweaked", "SendCheckpoint/wrong-id"}

func runByzCase(r *mon.Run, cc c11Case) {
	if cc.Pair {
		runHangUpPair(r, cc)
		return
	}
	runByzCaseResult(r, cc)
}

func runByzCaseResult(r *mon.Run, cc c11Case) (res byzResult) {
	switch cc.Special {
	case "poisoned-next-block":
		runPoisonNext(r, cc)
		return
	case "instant-sync":
		runInstantSync(r, cc)
		return
	case "honest-prefix":
		runHonestPrefix(r, cc)
		return
	case "forged-known-block":
		runForgedKnownBlock(r, cc)
		return
	}
	sc := buildScene(r, &cc)
	if sc.skip != "" {
		r.Count("cases_skipped:"+sc.skip, 1)
		return
	}
	f, t := sc.f, sc.t
	rng := rand.New(rand.NewPCG(uint64(r.Seed)+911, cc.Stream))
	slot := p2plab.NextSlot()
	withH := cc.Mix != "B"
	act := p2plab.NewActivity()
	mk := func(name string, i int, tip *chainlab.Node) (*p2plab.Node, error) {
		o := p2plab.NodeOpts{
			Activity: act,
			Name:     name, IP: p2plab.HonestIP(slot, i), Tree: t, Tip: tip,
			SyncInterval: time.Duration(50+rng.IntN(50)) * time.Millisecond, DiscoveryInterval: time.Duration(50+rng.IntN(50)) * time.Millisecond,
			RPCTimeout: 2 * time.Second,
		}
		if name == "victim" && (strings.HasPrefix(f.Name, "overflow-") || f.Name == "payout-max-currency") {
			o.KeepLog = true // to count the handler panics the syncer recovers
		}
		if name == "victim" && sc.side != nil {
			o.PreTips = []*chainlab.Node{sc.side}
		}
		if cc.Pair && name == "victim" {
			// both twins: reads of the watched ids are recorded, the log tail is kept,
			// and handler-side manager calls are slowed down a little so that a
			// hang-up lands between "message read" and "verdict"
			o.KeepLog, o.WatchIDs, o.HandlerDelay = true, append([]types.BlockID{sc.vTip.ID}, sc.watch...), 40*time.Millisecond
		}
		return p2plab.NewNode(o)
	}
	v, err := mk("victim", 0, sc.vTip)
	if err != nil {
		r.Inconclusive(fmt.Sprintf("C11 case %d: cannot build victim: %v", cc.Stream, err))
		return
	}
	all := []*p2plab.Node{v}
	var h *p2plab.Node
	if withH {
		if h, err = mk("honest", 1, sc.hTip); err != nil {
			r.Inconclusive(fmt.Sprintf("C11 case %d: cannot build honest peer: %v", cc.Stream, err))
			v.Close(5 * time.Second)
			return
		}
		all = append(all, h)
	}
	b1, err := p2plab.NewByz("byz1", p2plab.ByzIP(slot, 0), t, sc.bTip)
	if err != nil {
		r.Inconclusive(fmt.Sprintf("C11 case %d: cannot build byzantine peer: %v", cc.Stream, err))
		closeAll(r, all)
		return
	}
	installHooks(sc, b1)
	b1.Activity = act
	byz := []*p2plab.Byz{b1}
	// with an honest peer in the case, the victim's own conduct towards honest
	// peers is observed too: a lab observer (honest, at the victim's tip) records
	// every relay RPC the victim sends it, and in the relay rows a second real
	// node sits on the victim's tip, where a forwarded block attaches
	var obs *p2plab.Byz
	var wit *p2plab.Node
	if withH {
		if o, err := p2plab.NewByz("observer", p2plab.HonestIP(slot, 3), t, sc.vTip); err == nil {
			obs = o
			defer obs.Close()
		}
		if strings.HasPrefix(f.Target, "Relay") || f.Target == "SendTransactions" {
			if w, err := mk("witness", 2, sc.vTip); err == nil {
				wit = w
				all = append(all, w)
			}
		}
	}
	if cc.Mix == "2B+H" {
		b2, err := p2plab.NewByz("byz2", p2plab.ByzIP(slot, 1), t, sc.hTip)
		if err == nil && cc.Special == "unvalidated-checkpoint" {
			// both attackers hold the same fork and play the same script
			b2.SetView(sc.bTip)
			installHooks(sc, b2)
			b2.Activity = act
			byz = append(byz, b2)
		} else if err == nil {
			pick := secondFaults[rng.IntN(len(secondFaults))]
			parts := strings.SplitN(pick, "/", 2)
			if f2, ok := findFault(parts[0], parts[1], cc.Regime); ok {
				cc.Second = pick
				sc2 := *sc
				sc2.f = f2
				cc2 := cc
				cc2.Pos = []string{"first", "middle", "last"}[rng.IntN(3)]
				sc2.cc = &cc2
				installHooks(&sc2, b2)
			}
			b2.Activity = act
			byz = append(byz, b2)
		}
	}
	if cc.VictimDials {
		v.PS.AddPeer(b1.Addr)
	}
	for _, n := range all {
		n.Start()
	}
	defer func() {
		for _, b := range byz {
			b.Close()
		}
	}()
	if obs != nil {
		if err := obs.Dial(v.Addr); err != nil {
			r.Count("observer_dial_errors", 1)
		}
	}
	if wit != nil {
		if err := wit.Connect(v.Addr); err != nil {
			r.Count("witness_connect_errors", 1)
		}
	}

	connectByz := func(b *p2plab.Byz, victimDials bool) {
		if victimDials {
			// the victim's peer loop dials the stored address on its own
			for i := 0; i < 100 && !b.Connected(); i++ {
				time.Sleep(20 * time.Millisecond)
			}
			if b.Connected() {
				return
			}
		}
		if err := b.Dial(v.Addr); err != nil {
			r.Count("byzantine_dial_errors", 1)
		}
	}
	connectHonest := func() {
		var err error
		if cc.HonestDials {
			err = h.Connect(v.Addr)
		} else {
			err = v.Connect(h.Addr)
		}
		if err != nil {
			r.Count("honest_connect_errors", 1)
		}
	}
	doAction := func(b *p2plab.Byz) {
		if sc.action == nil {
			return
		}
		for i := 0; i < 50; i++ {
			if err := sc.action(b); err != p2plab.ErrNotConnected {
				return
			}
			time.Sleep(20 * time.Millisecond)
		}
	}

	var monitorStop atomic.Bool
	var wg sync.WaitGroup
	// 50 ms sampler for the whole case
	wg.Add(1)
	go func() {
		defer wg.Done()
		for !monitorStop.Load() {
			v.Mon.Sample()
			time.Sleep(50 * time.Millisecond)
		}
	}()

	expectBan := f.Ban != "" && cc.Phased
	banSeen := func() bool { return len(v.PS.BansFor(b1.IP)) > 0 }
	delivered := false
	var p1, hp *waiter
	phase1 := func() {
		connectByz(b1, cc.VictimDials)
		if cc.Special == "unvalidated-checkpoint" && len(byz) > 1 {
			connectByz(byz[1], false) // both must be block workers of the same sync round
		}
		doAction(b1)
		limit := 12 * time.Second
		honestRow := f.Target == "control" || f.Name == "multistep-honest-control"
		if honestRow {
			limit = 30 * time.Second
		}
		w1 := newWaiter(act, limit)
		p1 = w1
		for w1.step() == "" {
			if sc.delivered(b1) {
				delivered = true
				if honestRow {
					if v.CM.Tip().ID == sc.bTip.ID {
						break
					}
				} else if !expectBan || banSeen() {
					break
				}
			}
			if honestRow && v.CM.Tip().ID == sc.bTip.ID {
				delivered = true
				break
			}
			time.Sleep(25 * time.Millisecond)
		}
		// let the consequences of the fault play out a little
		time.Sleep(time.Duration(100+rng.IntN(200)) * time.Millisecond)
	}

	reached := false
	var progressMS int64
	honestPhase := func() {
		if !withH {
			return
		}
		connectHonest()
		if len(byz) > 1 {
			go connectByz(byz[1], false)
		}
		t0 := time.Now()
		var announcing atomic.Bool
		hp = newWaiter(act, c11ProgressBound)
		for iter := 1; ; iter++ {
			if v.CM.Tip().ID == sc.hTip.ID {
				reached = true
				progressMS = time.Since(t0).Milliseconds()
				return
			}
			bound := c11ProgressBound
			for _, b := range byz {
				bound += time.Duration(b.Counter("silence:SendHeaders")) * c11SilenceBonus
			}
			hp.deadline = bound
			if hp.step() != "" {
				return
			}
			if iter%4 == 0 && announcing.CompareAndSwap(false, true) {
				go func() { defer announcing.Store(false); h.Announce() }()
			}
			if iter%20 == 0 && !v.HasPeer(h.Addr) && !h.HasPeer(v.Addr) {
				// like the syncer's own peer loop, never dial a banned address
				if banned, _ := v.PS.Banned(h.IP); banned {
					r.Count("honest_redials_blocked_by_ban", 1)
				} else {
					r.Count("honest_redials", 1)
					connectHonest()
				}
			}
			time.Sleep(50 * time.Millisecond)
		}
	}

	actionStart := time.Now().UnixNano()
	if cc.Phased {
		phase1()
		honestPhase()
	} else {
		// everything at once
		var cw sync.WaitGroup
		cw.Add(1)
		go func() { defer cw.Done(); phase1() }()
		honestPhase()
		cw.Wait()
	}
	if !delivered && sc.delivered(b1) {
		delivered = true
	}
	// the victim must stay where it is for a moment (no late adoption of Byzantine material)
	time.Sleep(150 * time.Millisecond)
	monitorStop.Store(true)
	wg.Wait()
	processed := false
	if cc.HangUp && sc.processed != nil {
		processed = sc.processed(v, b1, actionStart)
		if !processed && len(v.PS.BansFor(b1.IP)) == 0 && delivered {
			// generous watchdog for the verdict to become observable
			for i := 0; i < 60 && !processed && len(v.PS.BansFor(b1.IP)) == 0; i++ {
				time.Sleep(100 * time.Millisecond)
				processed = sc.processed(v, b1, actionStart)
			}
		}
	}

	honestBanned := false
	var honestBans []p2plab.BanRecord
	if withH {
		honestBans = v.PS.BansFor(h.IP)
		honestBanned = len(honestBans) > 0
	}
	byzBans := v.PS.BansFor(b1.IP)
	if honestBanned {
		r.Count("cases_where_victim_banned_the_honest_peer", 1)
		fmt.Printf("note: C11 stream=%d %s/%s victim banned the honest peer: %v (reached=%v)\n", cc.Stream, f.Target, f.Name, honestBans, reached)
	}
	var peersNow []string
	for _, p := range v.S.Peers() {
		peersNow = append(peersNow, fmt.Sprintf("%s synced=%v err=%v", p.Addr(), p.Synced(), p.Err()))
	}
	v1Unpropagated := false
	if withH && !reached {
		v1Unpropagated = stuckOnUnpropagatedV1Tip(v.Mon.Tip(), sc.hTip, peerViews(v, map[string]*p2plab.Node{h.Addr: h}))
	}
	for _, b := range byz {
		b.Close()
	}
	closeAll(r, all)

	// ---- verdicts and evidence
	r.Eval()
	key := f.key()
	if cc.Pos != "" {
		key += "@" + cc.Pos
	}
	detail := func() map[string]any {
		d := map[string]any{"victim": reportOf(v), "byzantine_counters": b1.Counters(), "victim_peers_at_end": peersNow, "tree": summarize(t), "byzantine_bans": byzBans}
		if len(byz) > 1 {
			d["second_byzantine_counters"] = byz[1].Counters()
		}
		if h != nil {
			d["honest"] = reportOf(h)
			d["bans_of_honest_peer"] = honestBans
		}
		return d
	}
	if delivered {
		r.Count("faults_delivered", 1)
		r.Distinct(fmt.Sprintf("%s/%s/%s/long=%v/hangup=%v", key, cc.Regime, cc.Mix, cc.Long, cc.HangUp))
		r.SetAdd("fault_rows_delivered", key+"/"+cc.Regime)
	} else {
		r.Count("faults_not_delivered:"+key, 1)
	}
	r.SetAdd("peer_mixes", cc.Mix)
	for _, b := range byz {
		for k, n := range b.Counters() {
			if strings.HasPrefix(k, "answered:") || strings.HasPrefix(k, "faulted:") || strings.HasPrefix(k, "silence:") || strings.HasPrefix(k, "recv:") || strings.HasPrefix(k, "multistep:") {
				r.Count("byzantine_"+k, n)
			}
		}
	}
	for _, br := range v.PS.Bans() {
		r.Count("bans_observed:"+banReasonClass(br.Reason), 1)
		r.Count("bans_observed_total", 1)
	}
	for _, a := range v.PS.AddedPeers() {
		if validAddr(a) != nil {
			r.Count("invalid_addresses_added_to_peer_store", 1)
		}
	}
	if f.Name == "multistep-honest-control" && !withH && cc.Phased {
		if v.Mon.Tip() == sc.bTip {
			r.Count("victims_synced_from_a_peer_answering_in_several_steps", 1)
		} else {
			if p1.verdict == "slow" {
				slowCase(r, fmt.Sprintf("C11 stream=%d multistep-honest-answers %v", cc.Stream, p1.info()))
			} else {
				d := detail()
				d["liveness"] = p1.info()
				r.Violation("stall:multistep-honest-answers:"+cc.Regime, "the only peer holds the heaviest valid chain and answers every block request honestly in several short steps, but the victim did not reach its tip within 30 s, and the case is "+p1.verdict, cc, d)
			}
		}
	}
	if f.Target == "control" {
		if v.Mon.Tip() != sc.bTip && !withH {
			r.Inconclusive(fmt.Sprintf("self-check: the victim did not sync from an honestly behaving harness peer (case %d)", cc.Stream))
		} else {
			r.Count("selfcheck_victim_synced_from_harness_peer", 1)
		}
	}
	if withH {
		if reached {
			r.Count("cases_with_honest_peer_reaching_honest_tip", 1)
			switch {
			case progressMS < 2000:
				r.Count("progress_time:<2s", 1)
			case progressMS < 10000:
				r.Count("progress_time:2-10s", 1)
			case progressMS < 40000:
				r.Count("progress_time:10-40s", 1)
			default:
				r.Count("progress_time:>40s", 1)
			}
		} else {
			sig := "stall:" + key + ":" + cc.Regime
			if v1Unpropagated && !honestBanned {
				// structural: v1-only gap, every peer of the victim marked synced
				// without error, the honest peer exactly one v1 block ahead
				sig = "stall:v1-tip-not-propagated-to-synced-peer"
			}
			if honestBanned {
				cls := map[string]bool{}
				for _, hb := range honestBans {
					cls[banReasonClass(hb.Reason)] = true
				}
				var cs []string
				for c := range cls {
					if c != "subnet-strikes" || len(cls) == 1 {
						cs = append(cs, c)
					}
				}
				sortStrings(cs)
				sig = "stall:honest-peer-banned:" + strings.Join(cs, "+")
			}
			fmt.Printf("note: C11 stream=%d %s (%s) mix=%s phased=%v want=%d peers=%v\n", cc.Stream, sig, hp.verdict, cc.Mix, cc.Phased, sc.hTip.Height, peersNow)
			if hp.verdict == "slow" {
				slowCase(r, fmt.Sprintf("C11 stream=%d %s %v", cc.Stream, sig, hp.info()))
			} else {
				r.Count("stalls_decided:"+hp.verdict, 1)
				d := detail()
				d["liveness"] = hp.info()
				r.Violation(sig, "with an honest peer holding the heaviest valid chain connected, the victim did not reach that chain within the bound, and the case is "+hp.verdict, cc, d)
			}
		}
	}
	if obs != nil {
		fs, judged := auditRelays(t, obs, rng)
		r.Count("relays_from_victim_received_by_observer", int(obs.Relayed.Load()))
		r.Count("relays_from_victim_judged", judged)
		for _, fd := range fs {
			r.Violation(fd.Sig+":"+f.Target+"/"+f.Name, fd.What, cc, map[string]any{"finding": fd.Detail, "run": detail()})
		}
	}
	if wit != nil {
		r.Count("cases_with_honest_witness_on_victim_tip", 1)
	}
	for _, hn := range []*p2plab.Node{h, wit} {
		if hn == nil {
			continue
		}
		if bans := hn.PS.BansFor(v.IP); len(bans) > 0 {
			fmt.Printf("note: C11 stream=%d %s banned the victim: %v\n", cc.Stream, hn.Name, bans)
			d := detail()
			d["bans_of_victim"] = bans
			d["banning_node"] = reportOf(hn)
			r.Violation("honest-peer-banned-victim:"+f.Target+"/"+f.Name, "an honest node called PeerStore.Ban for the victim's address ("+banReasonClass(bans[0].Reason)+")", cc, d)
		}
	}
	if strings.HasPrefix(f.Name, "multistep-") && delivered {
		r.Count("multistep_continuation_faults_delivered", 1)
		r.SetAdd("multistep_rows_delivered", key+"/"+cc.Regime+fmt.Sprint("/long=", cc.Long))
	}
	if cc.Long {
		r.Count("cases_with_several_100_block_requests", 1)
	}
	if cc.HangUp {
		r.Count("hit_and_run_hang_ups_performed", b1.Counter("hangups"))
	}
	if delivered && (strings.HasPrefix(f.Name, "overflow-") || f.Name == "payout-max-currency") {
		r.Count("overflow_messages_delivered:"+f.Target, 1)
		r.Count("overflow_messages_delivered_total", 1)
		for _, l := range v.LogTail() {
			if strings.Contains(l, "panic in RPC handler") {
				what := "other"
				if strings.Contains(l, "overflow") || strings.Contains(l, "underflow") {
					what = "overflow"
				}
				r.Count("handler_panics_recovered_by_the_victim:"+f.Target+":"+what, 1)
			}
		}
	}
	if f.NoBan && delivered {
		if len(byzBans) == 0 {
			r.Count("legal_announcements_not_banned:"+key, 1)
		} else {
			fmt.Printf("note: C11 stream=%d unjustified-ban %s %s bans=%v\n", cc.Stream, key, cc.Regime, byzBans)
			r.Violation("unjustified-ban:"+key+":"+cc.Regime, "a peer that only announced a header with sufficient work on a known parent that is not the tip (legal: resync) was reported to the peer store", cc, detail())
		}
	}
	if expectBan && delivered && !cc.HangUp {
		if len(byzBans) > 0 {
			r.Count("expected_bans_observed:"+key, 1)
		} else {
			fmt.Printf("note: C11 stream=%d no-ban %s %s (%s) bans=%v\n", cc.Stream, key, cc.Regime, p1.verdict, v.PS.Bans())
			if p1.verdict == "slow" {
				slowCase(r, fmt.Sprintf("C11 stream=%d no-ban %s %v", cc.Stream, key, p1.info()))
			} else {
				d := detail()
				d["liveness"] = p1.info()
				r.Violation("no-ban:"+key+":"+cc.Regime, "a provable offence ("+f.Ban+") did not lead to PeerStore.Ban for the Byzantine peer's address", cc, d)
			}
		}
	}
	for _, fd := range v.Mon.Final() {
		r.Violation(fd.Sig+":"+f.Target+"/"+f.Name, fd.What, cc, map[string]any{"finding": fd.Detail, "run": detail()})
	}
	if h != nil {
		for _, fd := range h.Mon.Final() {
			r.Violation(fd.Sig+":honest-peer", fd.What, cc, map[string]any{"finding": fd.Detail, "run": detail()})
		}
		countMonitor(r, h)
	}
	if wit != nil {
		for _, fd := range wit.Mon.Final() {
			r.Violation(fd.Sig+":honest-witness", fd.What, cc, map[string]any{"finding": fd.Detail, "run": detail()})
		}
		countMonitor(r, wit)
	}
	countMonitor(r, v)
	if cc.Stream%29 == 0 {
		r.Sample(map[string]any{"case": cc, "delivered": delivered, "reached_honest_tip": reached, "progress_ms": progressMS, "byzantine_counters": b1.Counters(), "bans": v.PS.Bans()})
	}
	res = byzResult{ran: true, delivered: delivered, banned: len(byzBans) > 0, processed: processed, slow: p1 != nil && p1.verdict == "slow"}
	if cc.HangUp {
		res.detail = detail()
		res.detail["victim_log_tail"] = v.LogTail()
	}
	return res
}

func sortStrings(s []string) { sort.Strings(s) }

// validAddr mirrors what a dialable peer address must look like (host:port
// with a non-empty host of at most 253 bytes and a port in 1..65535).
func validAddr(addr string) error {
	host, portStr, err := net.SplitHostPort(addr)
	if err != nil {
		return err
	} else if len(host) == 0 || len(host) > 253 {
		return errors.New("bad host")
	}
	port, err := strconv.Atoi(portStr)
	if err != nil || port <= 0 || port > 65535 {
		return errors.New("bad port")
	}
	return nil
}

// ---- one chunk request answered in several SendV2Blocks answers ------------

type msChunk struct {
	list      []types.Block // the honest answer to the original request
	got       int           // blocks handed out so far
	prevStart int           // start of the previous batch
}

type multiStep struct {
	mu   sync.Mutex
	cont map[types.BlockID]*msChunk // keyed by the id the continuation request will name
}

func (m *multiStep) extra(b *p2plab.Byz, after types.Block, n int) []types.Block {
	q := &gateway.RPCSendV2Blocks{History: []types.BlockID{after.ID()}, Max: uint64(n)}
	b.HonestBlocks(q)
	out := q.Blocks
	if len(out) > 0 && out[0].ParentID != after.ID() {
		out = nil // the view ends here
	}
	for len(out) < n {
		out = append(out, after) // pad with copies
	}
	return out[:n]
}

func (m *multiStep) answer(b *p2plab.Byz, r *gateway.RPCSendV2Blocks, variant, pos string) p2plab.Reply {
	m.mu.Lock()
	defer m.mu.Unlock()
	var hid types.BlockID
	if len(r.History) > 0 {
		hid = r.History[0]
	}
	st := m.cont[hid]
	if st == nil {
		// first request for a chunk: a legally short prefix
		b.HonestBlocks(r)
		l := r.Blocks
		if len(l) < 3 {
			return p2plab.Reply{Obj: r}
		}
		k := map[string]int{"first": 1, "last": len(l) - 1}[pos]
		if k == 0 {
			k = len(l) / 2
		}
		m.cont[l[k-1].ID()] = &msChunk{list: l, got: k}
		r.Blocks = l[:k]
		r.Remaining += uint64(len(l) - k)
		b.Count("multistep:short-first-answers", 1)
		return p2plab.Reply{Obj: r}
	}
	rem := st.list[st.got:]
	last := st.list[len(st.list)-1]
	b.Count("multistep:continuations:"+variant, 1)
	switch variant {
	case "multistep-honest-control":
		step := max(1, len(rem)/2)
		r.Blocks = rem[:step]
		r.Remaining = uint64(len(rem) - step)
		if step < len(rem) {
			m.cont[rem[step-1].ID()] = &msChunk{list: st.list, got: st.got + step, prevStart: st.got}
		}
	case "multistep-overlong-remainder":
		// the genuine remainder plus extra blocks: more than outstanding, not more
		// than the original request
		r.Blocks = append(append([]types.Block(nil), rem...), m.extra(b, last, st.got)...)
	case "multistep-empty":
		r.Blocks = nil
	case "multistep-longer-than-request":
		r.Blocks = append(append([]types.Block(nil), rem...), m.extra(b, last, st.got+2)...)
	case "multistep-wrong-blocks":
		// right length, but the chunk's first blocks again: does not link to the previous batch
		r.Blocks = append([]types.Block(nil), st.list[:len(rem)]...)
	case "multistep-repeat":
		prev := st.list[st.prevStart:st.got]
		r.Blocks = append([]types.Block(nil), prev[:min(len(prev), len(rem))]...)
	}
	return p2plab.Reply{Obj: r, Faulted: true}
}

// ---- hit and run --------------------------------------------------------------

type byzResult struct {
	slow      bool
	ran       bool
	delivered bool
	banned    bool
	processed bool
	detail    map[string]any
}

// runHangUpPair runs one provable offence twice on identical material: the
// Byzantine peer stays connected, then hangs up as soon as its corrupted write
// is on the wire. Only if the staying twin was reported to the peer store, and
// the victim demonstrably read and judged the message of the hang-up run, a ban
// is demanded for the hang-up run too.
func runHangUpPair(r *mon.Run, cc c11Case) {
	cc.Mix, cc.Phased, cc.Pair, cc.HangUp = "B", true, true, false
	key := cc.Target + "/" + cc.Fault
	if cc.Pos != "" {
		key += "@" + cc.Pos
	}
	if cc.Long {
		key += "@100-block-request"
	}
	stay := runByzCaseResult(r, cc)
	if !stay.ran {
		return
	}
	if !stay.delivered || !stay.banned {
		r.Count("hit_and_run_pairs_skipped:staying_twin_not_banned", 1)
		return
	}
	cc.HangUp = true
	hu := runByzCaseResult(r, cc)
	switch {
	case !hu.ran:
	case !hu.delivered:
		r.Count("hit_and_run_unjudged:not-delivered:"+key, 1)
	case hu.banned:
		r.Count("hit_and_run_pairs_judged", 1)
		r.Count("hit_and_run_bans_observed:"+key, 1)
		r.SetAdd("hit_and_run_rows_judged", key+"/"+cc.Regime)
	case hu.slow:
		slowCase(r, fmt.Sprintf("C11 stream=%d hit-and-run %s", cc.Stream, key))
	case !hu.processed:
		// the victim may never have read the message: no verdict
		r.Count("hit_and_run_unjudged:receipt-not-demonstrated:"+key, 1)
	default:
		r.Count("hit_and_run_pairs_judged", 1)
		r.SetAdd("hit_and_run_rows_judged", key+"/"+cc.Regime)
		fmt.Printf("note: C11 stream=%d no-ban-after-hang-up %s %s\n", cc.Stream, key, cc.Regime)
		r.Violation("no-ban-after-hang-up:"+key+":"+cc.Regime, "a peer that delivered provably bad data ("+cc.Fault+") and closed its connection right after the write was not reported to the peer store, although the same data from a peer that stayed connected was, and the victim demonstrably read and judged the message", cc, hu.detail)
	}
}
