package byz

import (
	"fmt"
	"math/rand/v2"
	"os"
	"sort"
	"strconv"
	"strings"
	"sync"
	"sync/atomic"
	"time"

	"go.sia.tech/core/gateway"
	"go.sia.tech/core/types"
	"verif/harness/lab/chainlab"
	"verif/harness/lab/p2plab"
	"verif/harness/mon"
)

type branchDesc struct {
	Node       int    `json:"node"`
	ForkHeight uint64 `json:"fork_height"`
	Len        int    `json:"len"`
	TipHeight  uint64 `json:"tip_height"`
	TipNode    int    `json:"tip_node"`
	Checkpoint int64  `json:"checkpoint_height"` // -1 = synced from genesis
	MaxSend    uint64 `json:"max_send_blocks"`
}

type clusterCase struct {
	Stream        uint64          `json:"rng_stream"`
	Regime        string          `json:"regime"`
	Params        chainlab.Params `json:"params"`
	TrunkLen      int             `json:"trunk_len"`
	N             int             `json:"n"`
	Topology      string          `json:"topology"`
	Edges         [][2]int        `json:"edges"` // dialer -> listener, in connection order
	Branches      []branchDesc    `json:"branches"`
	Winner        int             `json:"winner"`
	Cap           int             `json:"peer_cap"`
	Discovery     bool            `json:"discovery"`
	JitterUS      int             `json:"jitter_us"`
	Special       string          `json:"special,omitempty"`
	InitialTarget byte            `json:"initial_target_first_byte"`
	FreshGap      int             `json:"fresh_checkpoint_gap,omitempty"`
	// GapsMS, if set, are the pauses before each edge is dialled
	GapsMS []int `json:"gaps_ms,omitempty"`
	// mined: blocks node Winner "mines" one after the other from its own pool
	// during the run (the cluster must converge to the last one)
	mined []*chainlab.Node
	// pre: branches a node validated and stored before its own (heavier) branch
	pre map[int][]*chainlab.Node
	// MaxOut overrides the outbound cap (0 = same as peer_cap)
	MaxOut int `json:"max_outbound,omitempty"`
	// HeaderBatch > 0: the winner is held by an honest lab peer (index N) that
	// answers SendHeaders with at most HeaderBatch headers and the correct
	// remaining count; it announces its tip once and never re-announces
	HeaderBatch int `json:"lab_peer_header_batch,omitempty"`
	LabGap      int `json:"lab_peer_gap,omitempty"`
}

var c12Lens = []int{0, 1, 2, 9, 10, 11, 12, 16, 24, 40}
var c12LongLens = []int{99, 100, 101}

const c12Bound = 90 * time.Second

func runC12(r *mon.Run, replay string) {
	r.Rule("each case: a chainlab fork tree (regime mix/v1only/v2only, PRNG initial target, trunk ending before/at/after the allow and require heights), 2..6 real syncer nodes each preloaded with one branch (fork depth 0..10 below the trunk tip, branch length from {0,1,2,9,10,11,12,16,24,40}), exactly one branch made sufficiently heavier than all others, connected as line/star/ring/complete in PRNG order and direction with peer caps 1/2/8, optional discovery and schedule jitter. Every tenth case each: the winner's branch sweeps the 100-block request split (99/100/101, +100/+200 in thorough); a long trunk above the require height with nodes bootstrapped from a v2 checkpoint; nodes serving at most 7 or 1 blocks per request (WithMaxSendBlocks); a freshly checkpoint-initialised node 3..40 blocks behind full nodes. Non-trivial = at least one node had to reorg or extend to reach the winner; signature = regime/topology/n/cap/trunk/branch shapes.")
	r.Assume("an expired 90 s deadline is a violation only if the cluster is demonstrably stuck: no manager call, no served headers/blocks request and no tip change for 12 s (and 150 polling iterations) with no call in flight, or 20+ activity events without any progress (tip change / new block) for that window; otherwise the wait is extended to 360 s and a case still moving then is counted as cases_inconclusive_slow_machine")
	r.Assume("tips are re-announced every 200 ms (outline of the tip for v2 blocks, header otherwise) like the repository's own `synced` test helper does, and missing topology edges are re-dialled every second (not in the fresh-checkpoint clusters, where an honest node dropping an honest peer is what is observed); convergence bound 90 s wall clock (unchanged tree: 1-5 s)")
	r.Assume("checkpoint-bootstrapped nodes are only used when every fork point lies at least 2*maxBranchLen+10 blocks above the checkpoint (below it a checkpoint node legitimately cannot serve or reorg)")
	r.Assume("loopback TCP; core/consensus is the trusted oracle labelling every generated block")

	if stream, special, ok := parseStreamReplay(replay); ok {
		// re-run one generated cluster at the current VERIF_SEED
		if special == "" && stream >= 1000 {
			special = c12SpecialFor(int(stream - 1000))
		}
		if cc, _, _, _ := genCluster(r, stream, special); true {
			fmt.Printf("note: C12 replaying stream=%d seed=%d: %+v\n", stream, r.Seed, cc)
		}
		reps := 3
		if v, err := strconv.Atoi(os.Getenv("VERIF_REPLAY_REPS")); err == nil && v > 0 {
			reps = v
		}
		parallel(reps, 12, func(int) { runCluster(r, stream, special) })
		return
	}
	if replay != "" {
		var cc clusterCase
		if err := loadReplay(r, replay, &cc); err != nil {
			r.Inconclusive("cannot read replay: " + err.Error())
			return
		}
		parallel(3, 3, func(int) { runCluster(r, cc.Stream, cc.Special) })
		return
	}

	base := r.Pick(40, 600)
	n := base + r.Pick(12, 180) // appended: "capsync", "cpahead" and "poolrelay" clusters in turn
	c12Base.Store(int64(base))
	workers := r.Pick(12, 12)
	parallel(n+1, workers, func(i int) {
		if i == 0 {
			// the directed cluster of the recorded finding KF-C12-1 (v1 tip one
			// above a node whose peers are all marked synced): it runs in every
			// check so that the finding is observed, not merely listed; it starts
			// first because it waits out the whole convergence window
			if os.Getenv("VERIF_C12_ONLY") == "" {
				runCluster(r, 999, "v1gap:1")
			}
			return
		}
		i--
		special := c12SpecialFor(i)
		if only := os.Getenv("VERIF_C12_ONLY"); only != "" && only != special {
			return // development filter (never set by ./check users)
		}
		runCluster(r, uint64(1000+i), special)
	})
	slowVerdict(r, n)
	if os.Getenv("VERIF_C12_ONLY") != "" {
		r.Inconclusive("development filter VERIF_C12_ONLY is set")
	}
	r.Floor("clusters_converged", int64(n*8/10))
	r.Floor("clusters_with_capped_servers_and_more_than_100_blocks", int64(r.Pick(4, 50)))
	r.Floor("outline_blocks_relayed_with_missing_v1_transactions", int64(r.Pick(6, 100)))
	r.Floor("clusters_with_checkpoint_node_ahead_of_a_forked_genesis_node", int64(r.Pick(4, 50)))
	r.Floor("manager_calls_audited:AddBlocks", 20)
	r.Floor("manager_calls_audited:AddValidatedV2Blocks", 5)
	r.Floor("reorgs_observed", 10)
	r.Floor("short_header_batches_served", int64(r.Pick(12, 200)))
	r.Floor("clusters_with_peer_on_another_fork_as_block_worker", int64(r.Pick(4, 50)))
	r.Floor("clusters_where_heaviest_chain_is_shorter", int64(r.Pick(3, 40)))
	r.Floor("accepted_connections_within_caps_checked", int64(r.Pick(40, 600)))
	r.Floor("clusters_with_tight_inbound_cap_and_outbound_connection", int64(r.Pick(4, 50)))
}

var c12FreshGaps = []int{3, 9, 10, 11, 12, 13, 14, 15, 16, 20, 23, 24, 40}

// genFreshCheckpoint: one or two full nodes at the tip and one node that was
// just initialised at a checkpoint `gap` blocks below (TestInstantSync's
// situation with other gaps).
func genFreshCheckpoint(r *mon.Run, stream uint64) (clusterCase, *chainlab.Tree, []*chainlab.Node, []*chainlab.Node) {
	rng := r.RNG(stream)
	regime := []string{"mix", "v2only"}[rng.IntN(2)]
	p := chainlab.RandomParams(regime, rng)
	env := chainlab.NewEnv(p)
	itarget := []byte{0x08, 0x10, 0x40, 0xFF}[rng.IntN(4)]
	env.Net.InitialTarget = types.BlockID{itarget}
	t := chainlab.NewTree(env, rng)
	prof := chainlab.Profile{MaxTxns: 3}
	gap := c12FreshGaps[rng.IntN(len(c12FreshGaps))]
	cc := clusterCase{Stream: stream, Regime: regime, Params: p, Special: "freshcp", InitialTarget: itarget, FreshGap: gap}
	cc.TrunkLen = int(p.Require) + 2 + rng.IntN(10) + gap
	w := p2plab.GrowMixed(t, t.Root, cc.TrunkLen, 2, prof)
	cp := w.Ancestor(w.Height - uint64(gap))
	cc.N = 2 + rng.IntN(2)
	tips := []*chainlab.Node{w, cp}
	cps := []*chainlab.Node{nil, cp}
	if cc.N == 3 {
		tips = append(tips, w.Ancestor(w.Height-uint64(rng.IntN(3))))
		cps = append(cps, nil)
	}
	cc.Winner, cc.Cap, cc.Topology = 0, 8, "line"
	perm := rng.Perm(cc.N)
	for i := 0; i+1 < cc.N; i++ {
		a, b := perm[i], perm[i+1]
		if rng.IntN(2) == 0 {
			a, b = b, a
		}
		cc.Edges = append(cc.Edges, [2]int{a, b})
	}
	// the fresh node must be adjacent to a full node
	for i := 0; i < cc.N; i++ {
		bd := branchDesc{Node: i, ForkHeight: tips[i].Height, TipHeight: tips[i].Height, TipNode: tips[i].Idx, Checkpoint: -1, MaxSend: 100}
		if cps[i] != nil {
			bd.Checkpoint = int64(cps[i].Height)
		}
		cc.Branches = append(cc.Branches, bd)
	}
	return cc, t, tips, cps
}

// c12SpecialFor maps a case index to its sub-family.
// c12Base is the number of cases of the original mapping; cases beyond it
// alternate between the two appended families.
var c12Base atomic.Int64

func c12SpecialFor(i int) string {
	if b := int(c12Base.Load()); b > 0 && i >= b {
		switch (i - b) % 3 {
		case 0:
			return "capsync" // servers with MaxSendBlocks caps that do not divide 100, more than 100 blocks to sync
		case 1:
			return "cpahead" // a checkpoint-bootstrapped node ahead of a genesis node on a lighter fork branching just above the checkpoint
		}
		return "poolrelay" // blocks mined from one node's pool (v1 and v2 transactions) inside the transition window, relayed as outlines that omit them
	}
	switch i % 10 {
	case 1: // sync distance larger than one header batch (honest lab peer serving short SendHeaders batches)
		return "shortheaders"
	case 4: // a peer on another fork answers a chunk request with blocks of its own best chain
		return "otherfork"
	case 6: // real difficulty: the unique sufficiently heavier branch is shorter than another one
		return "heavyshort"
	case 2: // tight inbound cap on nodes that also hold outbound connections; every edge is a bridge
		return "tightcap"
	case 3: // the winner's branch length sweeps the 100-block request split
		return "long"
	case 5: // long trunk above the require height, some nodes bootstrapped from a checkpoint
		return "checkpoint"
	case 7: // some nodes serve at most 7 or 1 blocks per request
		return "smallbatch"
	case 9: // a freshly checkpoint-bootstrapped node (no blocks above the checkpoint) joins full nodes
		return "freshcp"
	}
	return ""
}

// genTipGap builds the directed scenario "v1gap:<gap>" / "v2gap:<gap>": three
// nodes in a line 1 - 2 - 0; nodes 0 and 2 share tip T, node 1 holds gap more
// blocks (v1 blocks in a v1only network, v2 blocks in a v2only network). Only
// reachable through --replay stream:<n>:v1gap:<gap>; used to study how a block
// obtained by sync propagates to a peer that is already marked synced.
func genTipGap(r *mon.Run, stream uint64, special string) (clusterCase, *chainlab.Tree, []*chainlab.Node, []*chainlab.Node) {
	rng := r.RNG(stream)
	regime := "v1only"
	if strings.HasPrefix(special, "v2gap") {
		regime = "v2only"
	}
	gap := 1
	if i := strings.LastIndex(special, ":"); i >= 0 {
		if v, err := strconv.Atoi(special[i+1:]); err == nil && v > 0 {
			gap = v
		}
	}
	p := chainlab.RandomParams(regime, rng)
	env := chainlab.NewEnv(p)
	itarget := []byte{0x08, 0x10, 0x40, 0xFF}[rng.IntN(4)]
	env.Net.InitialTarget = types.BlockID{itarget}
	t := chainlab.NewTree(env, rng)
	prof := chainlab.Profile{MaxTxns: 3}
	cc := clusterCase{Stream: stream, Regime: regime, Params: p, Special: special, InitialTarget: itarget, N: 3, Topology: "line", Cap: 1, Winner: 1}
	cc.TrunkLen = 5 + rng.IntN(25)
	T := p2plab.GrowMixed(t, t.Root, cc.TrunkLen, 2, prof)
	w := p2plab.Grow(t, T, gap, prof)
	tips := []*chainlab.Node{T, w, T}
	cc.Edges = [][2]int{{2, 0}, {1, 2}}
	for i, x := range tips {
		cc.Branches = append(cc.Branches, branchDesc{Node: i, ForkHeight: T.Height, Len: int(x.Height - T.Height), TipHeight: x.Height, TipNode: x.Idx, Checkpoint: -1, MaxSend: 100})
	}
	return cc, t, tips, make([]*chainlab.Node, 3)
}

// genShortHeaders: one or two real nodes lag 30..60 blocks behind an honest lab
// peer that holds the heaviest chain and serves it in short header batches.
func genShortHeaders(r *mon.Run, stream uint64) (clusterCase, *chainlab.Tree, []*chainlab.Node, []*chainlab.Node) {
	rng := r.RNG(stream)
	regime := []string{"mix", "mix", "v2only", "v1only"}[rng.IntN(4)]
	p := chainlab.RandomParams(regime, rng)
	env := chainlab.NewEnv(p)
	itarget := []byte{0x08, 0x10, 0x40, 0xFF}[rng.IntN(4)]
	env.Net.InitialTarget = types.BlockID{itarget}
	t := chainlab.NewTree(env, rng)
	prof := chainlab.Profile{MaxTxns: 3}
	cc := clusterCase{Stream: stream, Regime: regime, Params: p, Special: "shortheaders", InitialTarget: itarget, Topology: "line", Cap: 8}
	A, R := int(p.Allow), int(p.Require)
	switch regime {
	case "mix":
		// the common ancestor sits before / at / after the hardfork heights, the gap crosses them
		cc.TrunkLen = max(1, []int{A - 3, A, R - 2, R, R + 2, R + 15}[rng.IntN(6)])
	case "v1only":
		cc.TrunkLen = 2 + rng.IntN(20)
	default:
		cc.TrunkLen = 1 + rng.IntN(20)
	}
	trunk := p2plab.GrowMixed(t, t.Root, cc.TrunkLen, 2, prof)
	cc.N = 1 + rng.IntN(2)
	cc.HeaderBatch = []int{7, 10}[rng.IntN(2)]
	cc.LabGap = 30 + rng.IntN(31)
	var tips []*chainlab.Node
	for i := 0; i < cc.N; i++ {
		depth := min(cc.TrunkLen, []int{0, 0, 1, 3}[rng.IntN(4)])
		fork := trunk.Ancestor(trunk.Height - uint64(depth))
		tips = append(tips, p2plab.GrowMixed(t, fork, []int{0, 1, 2, 9, 12}[rng.IntN(5)], 3, prof))
	}
	lab := p2plab.Heavier(t, p2plab.GrowMixed(t, trunk, cc.LabGap, 3, prof), 1, prof, tips...)
	// a node always asks for headers from the common ancestor on its OWN best
	// chain, so one header batch must already outweigh its fork; otherwise no
	// round makes progress, which is inherent in the protocol (with real peers
	// the batch is 10000 headers) and not what is examined here: such a node
	// becomes a plain lagging node
	for i, x := range tips {
		anc := chainlab.CommonAncestor(x, lab)
		probe := lab.Ancestor(min(lab.Height, anc.Height+uint64(cc.HeaderBatch)))
		if !probe.State().SufficientlyHeavierThan(x.State()) {
			tips[i] = anc
		}
	}
	tips = append(tips, lab)
	cc.Winner = cc.N
	maxSend := []uint64{100, 100, 7, 1}[rng.IntN(4)]
	// line: lab - n0 [- n1]; either side dials
	order := [][2]int{{0, cc.N}}
	if cc.N == 2 {
		order = append(order, [2]int{1, 0})
	}
	for _, e := range order {
		if rng.IntN(2) == 0 {
			e[0], e[1] = e[1], e[0]
		}
		cc.Edges = append(cc.Edges, e)
	}
	rng.Shuffle(len(cc.Edges), func(i, j int) { cc.Edges[i], cc.Edges[j] = cc.Edges[j], cc.Edges[i] })
	for i, x := range tips {
		fh := chainlab.CommonAncestor(x, trunk).Height
		bd := branchDesc{Node: i, ForkHeight: fh, Len: int(x.Height - fh), TipHeight: x.Height, TipNode: x.Idx, Checkpoint: -1, MaxSend: 100}
		if i < cc.N {
			bd.MaxSend = maxSend
		}
		cc.Branches = append(cc.Branches, bd)
	}
	return cc, t, tips, make([]*chainlab.Node, len(tips))
}

// genTightCap: a tree of nodes in which every non-root node dials its parent
// and nobody else dials anybody (no discovery, the harness only re-dials in the
// designed direction), so every edge is a bridge. The inbound cap equals the
// number of children (1: a chain s1 <- s2 <- s3 ..., 2: a binary in-tree), i.e.
// every inner node is exactly at its inbound limit while it also holds an
// outbound connection to its parent. The heaviest chain sits at the root or at
// the deepest leaf.
func genTightCap(r *mon.Run, stream uint64) (clusterCase, *chainlab.Tree, []*chainlab.Node, []*chainlab.Node) {
	rng := r.RNG(stream)
	regime := []string{"mix", "mix", "v2only", "v1only"}[rng.IntN(4)]
	p := chainlab.RandomParams(regime, rng)
	env := chainlab.NewEnv(p)
	itarget := []byte{0x08, 0x10, 0x40, 0xFF}[rng.IntN(4)]
	env.Net.InitialTarget = types.BlockID{itarget}
	t := chainlab.NewTree(env, rng)
	prof := chainlab.Profile{MaxTxns: 3}
	cc := clusterCase{Stream: stream, Regime: regime, Params: p, Special: "tightcap", InitialTarget: itarget, MaxOut: 8}
	cc.Cap = 1 + rng.IntN(2)
	cc.Topology = []string{"", "in-chain", "in-tree"}[cc.Cap]
	if cc.Cap == 1 {
		cc.N = 3 + rng.IntN(3)
	} else {
		cc.N = 4 + rng.IntN(3)
	}
	switch regime {
	case "mix":
		cc.TrunkLen = max(1, []int{int(p.Allow) - 1, int(p.Allow) + 1, int(p.Require), int(p.Require) + 8}[rng.IntN(4)])
	default:
		cc.TrunkLen = 2 + rng.IntN(20)
	}
	trunk := p2plab.GrowMixed(t, t.Root, cc.TrunkLen, 2, prof)
	// node i dials its parent (i-1)/cap; parent edges are created first, so an
	// inner node already holds its outbound connection when its children arrive
	// (PRNG: in half of the cases the order is shuffled instead)
	for i := 1; i < cc.N; i++ {
		cc.Edges = append(cc.Edges, [2]int{i, (i - 1) / cc.Cap})
	}
	if rng.IntN(2) == 0 {
		rng.Shuffle(len(cc.Edges), func(i, j int) { cc.Edges[i], cc.Edges[j] = cc.Edges[j], cc.Edges[i] })
	}
	tips := make([]*chainlab.Node, cc.N)
	for i := range tips {
		depth := min(cc.TrunkLen, []int{0, 0, 1, 2}[rng.IntN(4)])
		fork := trunk.Ancestor(trunk.Height - uint64(depth))
		tips[i] = p2plab.GrowMixed(t, fork, []int{0, 1, 2, 9, 11}[rng.IntN(5)], 3, prof)
	}
	cc.Winner = []int{0, cc.N - 1}[rng.IntN(2)]
	var others []*chainlab.Node
	for i, x := range tips {
		if i != cc.Winner {
			others = append(others, x)
		}
	}
	tips[cc.Winner] = p2plab.Heavier(t, tips[cc.Winner], 1+rng.IntN(3), prof, others...)
	for i, x := range tips {
		fh := chainlab.CommonAncestor(x, trunk).Height
		cc.Branches = append(cc.Branches, branchDesc{Node: i, ForkHeight: fh, Len: int(x.Height - fh), TipHeight: x.Height, TipNode: x.Idx, Checkpoint: -1, MaxSend: 100})
	}
	return cc, t, tips, make([]*chainlab.Node, cc.N)
}

// genOtherFork: S (node 0) sits on a prefix of branch X beyond the X/Y fork
// point; A (node 1) holds all of X; B (node 2) validated X earlier but is on the
// heavier branch Y. S is connected to A first and to B a moment later, so that
// both are unsynced workers when S fetches the rest of X: B can serve the
// checkpoint for the chunk base (it knows X), but the base is not on its best
// chain, so its block answer continues along its own chain. That is legal and
// must not get B banned; in the end everybody must be on Y, which S and A can
// only get through the edge S-B.
func genOtherFork(r *mon.Run, stream uint64) (clusterCase, *chainlab.Tree, []*chainlab.Node, []*chainlab.Node) {
	rng := r.RNG(stream)
	above := rng.IntN(3) != 0
	var p chainlab.Params
	trunkLen := 0
	regime := "mix"
	if above {
		// every chunk base at or above the require height: checkpoint path
		if rng.IntN(2) == 0 {
			regime = "v2only"
			p = chainlab.RandomParams(regime, rng)
			trunkLen = 2 + rng.IntN(10)
		} else {
			p = chainlab.RandomParams(regime, rng)
			trunkLen = int(p.Require) + 1 + rng.IntN(8)
		}
	} else {
		// mirrored shape below the require height: header-comparison path
		p = chainlab.RandomParams(regime, rng)
		p.Allow = uint64(3 + rng.IntN(5))
		p.Require = p.Allow + 400
		p.FinalCut = p.Require + 2
		trunkLen = int(p.Allow) - 1 + rng.IntN(6)
	}
	env := chainlab.NewEnv(p)
	itarget := []byte{0x08, 0x10, 0x40, 0xFF}[rng.IntN(4)]
	env.Net.InitialTarget = types.BlockID{itarget}
	t := chainlab.NewTree(env, rng)
	prof := chainlab.Profile{MaxTxns: 3}
	cc := clusterCase{Stream: stream, Regime: regime, Params: p, Special: "otherfork", InitialTarget: itarget, N: 3, Topology: "line", Cap: 8, TrunkLen: trunkLen, Winner: 2}
	fork := p2plab.GrowMixed(t, t.Root, trunkLen, 2, prof)
	sTip := p2plab.GrowMixed(t, fork, 1+rng.IntN(4), 2, prof) // S is past the fork point, on X
	x := p2plab.GrowMixed(t, sTip, 3+rng.IntN(30), 3, prof)
	y := p2plab.Heavier(t, p2plab.GrowMixed(t, fork, int(x.Height-fork.Height), 3, prof), 1+rng.IntN(3), prof, x)
	tips := []*chainlab.Node{sTip, x, y}
	cc.pre = map[int][]*chainlab.Node{2: {x}}
	// S-A first, S-B within the second before the block workers are started
	ea, eb := [2]int{0, 1}, [2]int{0, 2}
	if rng.IntN(2) == 0 {
		ea = [2]int{1, 0}
	}
	if rng.IntN(2) == 0 {
		eb = [2]int{2, 0}
	}
	cc.Edges = [][2]int{ea, eb}
	cc.GapsMS = []int{0, 120 + rng.IntN(250)}
	for i, n := range tips {
		fh := chainlab.CommonAncestor(n, fork).Height
		cc.Branches = append(cc.Branches, branchDesc{Node: i, ForkHeight: fh, Len: int(n.Height - fh), TipHeight: n.Height, TipNode: n.Idx, Checkpoint: -1, MaxSend: 100})
	}
	return cc, t, tips, make([]*chainlab.Node, 3)
}

// genHeavyShort: a network with a real difficulty (chainlab Params.HiDiff, v2
// from the start): branch a is mined fast (difficulty climbs), branch b slowly
// and is one to three blocks LONGER, but a is sufficiently heavier. Some nodes
// hold b, one holds a, the rest the common trunk; everybody must end on a.
func genHeavyShort(r *mon.Run, stream uint64) (clusterCase, *chainlab.Tree, []*chainlab.Node, []*chainlab.Node) {
	rng := r.RNG(stream)
	p := chainlab.RandomParams("v2only", rng)
	p.HiDiff = true
	env := chainlab.NewEnv(p)
	t := chainlab.NewTree(env, rng)
	cc := clusterCase{Stream: stream, Regime: "v2only-hidiff", Params: p, Special: "heavyshort", Cap: 8}
	trunk := p2plab.Grow(t, t.Root, 4+rng.IntN(5), chainlab.Profile{MaxTxns: 2})
	cc.TrunkLen = int(trunk.Height)
	iv := env.Net.BlockInterval
	var a, b *chainlab.Node
	for try := 0; try < 4; try++ {
		la := 30 + rng.IntN(12) + 4*try
		lb := la + 1 + rng.IntN(3)
		a, b = trunk, trunk
		for i := 0; i < la; i++ {
			a = t.ExtendEmpty(a, a.Block.Timestamp.Add(iv/3))
		}
		for i := 0; i < lb; i++ {
			b = t.ExtendEmpty(b, b.Block.Timestamp.Add(iv*3))
		}
		if a.ChainValid && b.ChainValid && a.Height < b.Height && a.L.State.SufficientlyHeavierThan(b.L.State) {
			break
		}
		a = nil
	}
	if a == nil {
		cc.N = 0 // shape not reached
		return cc, t, nil, nil
	}
	cc.N = 2 + rng.IntN(3)
	tips := make([]*chainlab.Node, cc.N)
	perm := rng.Perm(cc.N)
	tips[perm[0]], tips[perm[1]] = a, b
	cc.Winner = perm[0]
	for _, i := range perm[2:] {
		switch rng.IntN(3) {
		case 0:
			tips[i] = b // a second node on the longer, lighter branch
		case 1:
			tips[i] = trunk
		default:
			tips[i] = b.Ancestor(b.Height - uint64(1+rng.IntN(5)))
		}
	}
	cc.Topology = []string{"line", "complete", "star"}[rng.IntN(3)]
	order := rng.Perm(cc.N)
	switch cc.Topology {
	case "line":
		for i := 0; i+1 < cc.N; i++ {
			cc.Edges = append(cc.Edges, [2]int{order[i], order[i+1]})
		}
	case "star":
		for i := 1; i < cc.N; i++ {
			cc.Edges = append(cc.Edges, [2]int{order[0], order[i]})
		}
	default:
		for i := 0; i < cc.N; i++ {
			for j := i + 1; j < cc.N; j++ {
				cc.Edges = append(cc.Edges, [2]int{order[i], order[j]})
			}
		}
	}
	for i := range cc.Edges {
		if rng.IntN(2) == 0 {
			cc.Edges[i] = [2]int{cc.Edges[i][1], cc.Edges[i][0]}
		}
	}
	rng.Shuffle(len(cc.Edges), func(i, j int) { cc.Edges[i], cc.Edges[j] = cc.Edges[j], cc.Edges[i] })
	for i, n := range tips {
		fh := chainlab.CommonAncestor(n, trunk).Height
		cc.Branches = append(cc.Branches, branchDesc{Node: i, ForkHeight: fh, Len: int(n.Height - fh), TipHeight: n.Height, TipNode: n.Idx, Checkpoint: -1, MaxSend: 100})
	}
	return cc, t, tips, make([]*chainlab.Node, cc.N)
}

var c12Caps = []uint64{1, 7, 30, 33, 49, 51, 99}

// genCapSync: a fresh node (node 0) and one to three servers that all hold the
// same chain, 130..260 blocks ahead, each serving at most `cap` blocks per
// request with caps that do not divide the 100-block request; the node has to
// ask for the outstanding remainder of a request over and over.
func genCapSync(r *mon.Run, stream uint64) (clusterCase, *chainlab.Tree, []*chainlab.Node, []*chainlab.Node) {
	rng := r.RNG(stream)
	below := rng.IntN(2) == 0
	var p chainlab.Params
	regime := "mix"
	trunkLen := 0
	switch {
	case below && rng.IntN(3) == 0:
		regime = "v1only"
		p = chainlab.RandomParams(regime, rng)
		trunkLen = 1 + rng.IntN(10)
	case below:
		p = chainlab.RandomParams(regime, rng)
		p.Allow = uint64(3 + rng.IntN(5))
		p.Require = p.Allow + 400
		p.FinalCut = p.Require + 2
		trunkLen = 1 + rng.IntN(int(p.Allow)+4)
	case rng.IntN(2) == 0:
		regime = "v2only"
		p = chainlab.RandomParams(regime, rng)
		trunkLen = 1 + rng.IntN(10)
	default:
		p = chainlab.RandomParams(regime, rng)
		// before, at or after the require height: some requests cross it
		trunkLen = max(1, int(p.Require)-3+rng.IntN(8))
	}
	env := chainlab.NewEnv(p)
	itarget := []byte{0x08, 0x10, 0x40, 0xFF}[rng.IntN(4)]
	env.Net.InitialTarget = types.BlockID{itarget}
	t := chainlab.NewTree(env, rng)
	prof := chainlab.Profile{MaxTxns: 3}
	cc := clusterCase{Stream: stream, Regime: regime, Params: p, Special: "capsync", InitialTarget: itarget, Topology: "star", Cap: 8, TrunkLen: trunkLen}
	trunk := p2plab.GrowMixed(t, t.Root, trunkLen, 2, prof)
	w := p2plab.GrowMixed(t, trunk, 130+rng.IntN(131), 6, prof)
	cc.N = 2 + rng.IntN(3)
	tips := []*chainlab.Node{trunk}
	if rng.IntN(3) == 0 {
		// the fresh node sits on a short fork of its own
		tips[0] = p2plab.GrowMixed(t, trunk.Ancestor(trunk.Height-uint64(min(trunkLen, rng.IntN(2)))), 1+rng.IntN(3), 2, prof)
	}
	cc.Winner = 1
	for i := 1; i < cc.N; i++ {
		tips = append(tips, w)
		e := [2]int{0, i}
		if rng.IntN(2) == 0 {
			e = [2]int{i, 0}
		}
		cc.Edges = append(cc.Edges, e)
	}
	rng.Shuffle(len(cc.Edges), func(i, j int) { cc.Edges[i], cc.Edges[j] = cc.Edges[j], cc.Edges[i] })
	for i, x := range tips {
		fh := chainlab.CommonAncestor(x, trunk).Height
		bd := branchDesc{Node: i, ForkHeight: fh, Len: int(x.Height - fh), TipHeight: x.Height, TipNode: x.Idx, Checkpoint: -1, MaxSend: 100}
		if i > 0 {
			bd.MaxSend = c12Caps[rng.IntN(len(c12Caps))]
		}
		cc.Branches = append(cc.Branches, bd)
	}
	return cc, t, tips, make([]*chainlab.Node, cc.N)
}

// genCheckpointAhead: node 1 (B) was bootstrapped from a checkpoint at height H
// above the require height and has advanced 30..37 blocks, so that none of its
// history entries lies at or below H+5 and the entries further down are empty.
// Node 0 (A) is synced from genesis and sits on a LIGHTER fork that branches at
// H+1, H+2 or H+5; optionally node 2 (C) hangs behind A. None of B's history
// entries is on A's chain, so B finds no common history with A, which must not
// cost the connection: A fetches the heavier chain from B.
func genCheckpointAhead(r *mon.Run, stream uint64) (clusterCase, *chainlab.Tree, []*chainlab.Node, []*chainlab.Node) {
	rng := r.RNG(stream)
	regime := []string{"mix", "v2only"}[rng.IntN(2)]
	p := chainlab.RandomParams(regime, rng)
	env := chainlab.NewEnv(p)
	itarget := []byte{0x08, 0x10, 0x40, 0xFF}[rng.IntN(4)]
	env.Net.InitialTarget = types.BlockID{itarget}
	t := chainlab.NewTree(env, rng)
	prof := chainlab.Profile{MaxTxns: 3}
	cc := clusterCase{Stream: stream, Regime: regime, Params: p, Special: "cpahead", InitialTarget: itarget, Topology: "line", Cap: 8}
	h := int(p.Require) + 1 + rng.IntN(12)
	cc.TrunkLen = h
	cp := p2plab.GrowMixed(t, t.Root, h, 2, prof)
	if cp.Block.V2 == nil {
		cc.N = 0
		return cc, t, nil, nil
	}
	d := []int{1, 2, 5}[rng.IntN(3)]
	cc.FreshGap = d // reused: distance of the fork point above the checkpoint
	fp := p2plab.GrowMixed(t, cp, d, 2, prof)
	bTip := p2plab.GrowMixed(t, fp, 30+rng.IntN(8)-d, 3, prof)
	aTip := p2plab.GrowMixed(t, fp, 1+rng.IntN(6), 2, prof)
	if !bTip.L.State.SufficientlyHeavierThan(aTip.L.State) {
		cc.N = 0
		return cc, t, nil, nil
	}
	tips := []*chainlab.Node{aTip, bTip}
	cps := []*chainlab.Node{nil, cp}
	e := [2]int{0, 1}
	if rng.IntN(2) == 0 {
		e = [2]int{1, 0}
	}
	cc.Edges = [][2]int{e}
	cc.N = 2
	if rng.IntN(2) == 0 {
		// a third node that can only be reached through A
		cc.N = 3
		tips = append(tips, aTip.Ancestor(aTip.Height-uint64(rng.IntN(3))))
		cps = append(cps, nil)
		e2 := [2]int{2, 0}
		if rng.IntN(2) == 0 {
			e2 = [2]int{0, 2}
		}
		cc.Edges = append(cc.Edges, e2)
		rng.Shuffle(len(cc.Edges), func(i, j int) { cc.Edges[i], cc.Edges[j] = cc.Edges[j], cc.Edges[i] })
	}
	cc.Winner = 1
	for i, x := range tips {
		bd := branchDesc{Node: i, ForkHeight: fp.Height, Len: int(x.Height) - int(fp.Height), TipHeight: x.Height, TipNode: x.Idx, Checkpoint: -1, MaxSend: 100}
		if cps[i] != nil {
			bd.Checkpoint = int64(cps[i].Height)
		}
		cc.Branches = append(cc.Branches, bd)
	}
	return cc, t, tips, cps
}

// genPoolRelay: all nodes share a tip inside the v2 transition window (allow <=
// height < require). One node gets v1 and v2 transactions into ITS pool only,
// "mines" v2-format blocks that confirm them and announces each block with an
// outline that omits the pooled transactions, so every receiver has to fetch
// them (v1 ones included) with SendTransactions.
func genPoolRelay(r *mon.Run, stream uint64) (clusterCase, *chainlab.Tree, []*chainlab.Node, []*chainlab.Node) {
	rng := r.RNG(stream)
	p := chainlab.RandomParams("mix", rng)
	p.Allow = uint64(3 + rng.IntN(4))
	p.Require = p.Allow + uint64(14+rng.IntN(8))
	p.FinalCut = p.Require + 2
	env := chainlab.NewEnv(p)
	itarget := []byte{0x08, 0x10, 0x40, 0xFF}[rng.IntN(4)]
	env.Net.InitialTarget = types.BlockID{itarget}
	t := chainlab.NewTree(env, rng)
	prof := chainlab.Profile{MaxTxns: 3}
	cc := clusterCase{Stream: stream, Regime: "mix-transition-window", Params: p, Special: "poolrelay", InitialTarget: itarget, Cap: 8}
	cc.TrunkLen = int(p.Allow) + rng.IntN(4)
	tip := p2plab.GrowMixed(t, t.Root, cc.TrunkLen, 2, prof)
	x := tip
	for k := 3 + rng.IntN(3); k > 0; k-- {
		var next *chainlab.Node
		for try := 0; try < 60 && next == nil; try++ {
			c := t.Extend(x, chainlab.Profile{MaxTxns: 6})
			if c.ChainValid && c.Block.V2 != nil && len(c.Block.Transactions) > 0 {
				next = c
			}
		}
		if next == nil {
			break
		}
		cc.mined = append(cc.mined, next)
		x = next
	}
	if len(cc.mined) < 2 || x.Height >= p.Require {
		cc.N = 0
		return cc, t, nil, nil
	}
	cc.N = 2 + rng.IntN(3)
	cc.Winner = rng.IntN(cc.N)
	tips := make([]*chainlab.Node, cc.N)
	for i := range tips {
		tips[i] = tip
	}
	cc.Topology = []string{"line", "star", "complete"}[rng.IntN(3)]
	order := rng.Perm(cc.N)
	switch cc.Topology {
	case "line":
		for i := 0; i+1 < cc.N; i++ {
			cc.Edges = append(cc.Edges, [2]int{order[i], order[i+1]})
		}
	case "star":
		for i := 1; i < cc.N; i++ {
			cc.Edges = append(cc.Edges, [2]int{order[0], order[i]})
		}
	default:
		for i := 0; i < cc.N; i++ {
			for j := i + 1; j < cc.N; j++ {
				cc.Edges = append(cc.Edges, [2]int{order[i], order[j]})
			}
		}
	}
	for i := range cc.Edges {
		if rng.IntN(2) == 0 {
			cc.Edges[i] = [2]int{cc.Edges[i][1], cc.Edges[i][0]}
		}
	}
	for i, n := range tips {
		cc.Branches = append(cc.Branches, branchDesc{Node: i, ForkHeight: n.Height, TipHeight: n.Height, TipNode: n.Idx, Checkpoint: -1, MaxSend: 100})
	}
	return cc, t, tips, make([]*chainlab.Node, cc.N)
}

// minePoolBlock puts the block's transactions into the miner's pool (v1 and
// v2, as sets, falling back to one by one), adds the block to the miner's
// chain and announces it with an outline that omits whatever was pooled.
// It returns how many v1 / v2 transactions the outline omitted.
func minePoolBlock(m *p2plab.Node, nd *chainlab.Node) (v1Missing, v2Missing int, err error) {
	blk := nd.Block
	if _, e := m.CM.AddPoolTransactions(blk.Transactions); e != nil {
		for _, txn := range blk.Transactions {
			m.CM.AddPoolTransactions([]types.Transaction{txn})
		}
	}
	basis := nd.Parent.L.State.Index
	if v2 := blk.V2Transactions(); len(v2) > 0 {
		if _, e := m.CM.AddV2PoolTransactions(basis, v2); e != nil {
			for _, txn := range v2 {
				m.CM.AddV2PoolTransactions(basis, []types.V2Transaction{txn})
			}
		}
	}
	pool, pool2 := m.CM.PoolTransactions(), m.CM.V2PoolTransactions()
	if err := m.ACM.AddBlocks([]types.Block{blk}); err != nil {
		return 0, 0, err
	}
	o := gateway.OutlineBlock(blk, pool, pool2)
	for _, ot := range o.Transactions {
		if ot.Transaction != nil || ot.V2Transaction != nil {
			continue
		}
		isV1 := false
		for i := range blk.Transactions {
			if blk.Transactions[i].MerkleLeafHash() == ot.Hash {
				isV1 = true
			}
		}
		if isV1 {
			v1Missing++
		} else {
			v2Missing++
		}
	}
	m.S.BroadcastV2BlockOutline(o)
	return v1Missing, v2Missing, nil
}

func genCluster(r *mon.Run, stream uint64, special string) (clusterCase, *chainlab.Tree, []*chainlab.Node, []*chainlab.Node) {
	if special == "poolrelay" {
		return genPoolRelay(r, stream)
	}
	if special == "capsync" {
		return genCapSync(r, stream)
	}
	if special == "cpahead" {
		return genCheckpointAhead(r, stream)
	}
	if special == "otherfork" {
		return genOtherFork(r, stream)
	}
	if special == "heavyshort" {
		return genHeavyShort(r, stream)
	}
	if special == "tightcap" {
		return genTightCap(r, stream)
	}
	if special == "shortheaders" {
		return genShortHeaders(r, stream)
	}
	if special == "freshcp" {
		return genFreshCheckpoint(r, stream)
	}
	if strings.HasPrefix(special, "v1gap") || strings.HasPrefix(special, "v2gap") {
		return genTipGap(r, stream, special)
	}
	rng := r.RNG(stream)
	regime := []string{"mix", "mix", "v2only", "v1only"}[rng.IntN(4)]
	p := chainlab.RandomParams(regime, rng)
	env := chainlab.NewEnv(p)
	// a harder initial target than chainlab's default (with which every hash
	// meets the target once difficulty is counted as work), set before the
	// genesis state is derived
	itarget := []byte{0x08, 0x10, 0x40, 0xFF}[rng.IntN(4)]
	env.Net.InitialTarget = types.BlockID{itarget}
	t := chainlab.NewTree(env, rng)
	prof := chainlab.Profile{MaxTxns: 3}
	cc := clusterCase{Stream: stream, Regime: regime, Params: p, Special: special, InitialTarget: itarget}
	A, R := int(p.Allow), int(p.Require)
	switch regime {
	case "mix":
		cc.TrunkLen = []int{A - 1, A, A + 1, R - 1, R, R + 1, R + 3, R + 12, R + 40, R + 120}[rng.IntN(10)]
	case "v1only":
		cc.TrunkLen = 2 + rng.IntN(30)
	default:
		cc.TrunkLen = []int{1, 2, 5, 12, 30, 60, 130}[rng.IntN(7)]
	}
	lens := c12Lens
	if special == "checkpoint" {
		if regime == "v1only" {
			regime = "mix"
			p = chainlab.RandomParams(regime, rng)
			cc.Regime, cc.Params = regime, p
			env = chainlab.NewEnv(p)
			env.Net.InitialTarget = types.BlockID{itarget}
			t = chainlab.NewTree(env, rng)
			R = int(p.Require)
		}
		cc.TrunkLen = R + 60 + rng.IntN(40)
		lens = []int{0, 1, 2, 9, 10, 11, 12}
	}
	if cc.TrunkLen < 1 {
		cc.TrunkLen = 1
	}
	trunk := p2plab.GrowMixed(t, t.Root, cc.TrunkLen, 2, prof)
	cc.N = 2 + rng.IntN(5)
	tips := make([]*chainlab.Node, cc.N)
	forks := make([]*chainlab.Node, cc.N)
	maxLen := 0
	for i := 0; i < cc.N; i++ {
		if i > 0 && rng.IntN(7) == 0 {
			j := rng.IntN(i)
			tips[i], forks[i] = tips[j], forks[j]
			continue
		}
		depth := []int{0, 0, 0, 1, 2, 3, 5, 10}[rng.IntN(8)]
		if depth > cc.TrunkLen {
			depth = cc.TrunkLen
		}
		forks[i] = trunk.Ancestor(trunk.Height - uint64(depth))
		l := lens[rng.IntN(len(lens))]
		tips[i] = p2plab.GrowMixed(t, forks[i], l, 3, prof)
	}
	cc.Winner = rng.IntN(cc.N)
	// the winner gets its own branch (never a shared one) and is extended until
	// it is sufficiently heavier than every other tip
	extra := rng.IntN(3)
	if special == "long" {
		extra = c12LongLens[rng.IntN(len(c12LongLens))] - int(tips[cc.Winner].Height-forks[cc.Winner].Height)
		if r.Thorough() && rng.IntN(3) == 0 {
			extra += 100 * (1 + rng.IntN(2))
		}
		if extra < 0 {
			extra = 0
		}
	}
	w := tips[cc.Winner]
	for i := 0; i < extra; i++ {
		if i%4 == 0 {
			w = t.Extend(w, prof)
		} else {
			w = t.ExtendEmpty(w, time.Time{})
		}
	}
	var others []*chainlab.Node
	for i, x := range tips {
		if i != cc.Winner {
			others = append(others, x)
		}
	}
	w = p2plab.Heavier(t, w, 1, prof, others...)
	tips[cc.Winner] = w
	for i := range tips {
		// nodes that shared the winner's old tip keep the old tip (a prefix)
		if l := int(tips[i].Height - forks[i].Height); l > maxLen && i != cc.Winner {
			maxLen = l
		}
	}
	// checkpoint bootstrap where it is legitimate
	cps := make([]*chainlab.Node, cc.N)
	minFork := forks[0].Height
	for _, f := range forks {
		if f.Height < minFork {
			minFork = f.Height
		}
	}
	wl := int(w.Height - forks[cc.Winner].Height)
	margin := uint64(2*max(maxLen, 0) + 10)
	_ = wl
	if minFork > uint64(R)+margin+1 {
		cpH := uint64(R) + 1 + rng.Uint64N(minFork-margin-uint64(R)-1)
		cp := trunk.Ancestor(cpH)
		if cp.Block.V2 != nil && cp.Height > uint64(R) {
			for i := 0; i < cc.N; i++ {
				if i != cc.Winner && (rng.IntN(3) == 0 || (special == "checkpoint" && rng.IntN(2) == 0)) {
					cps[i] = cp
				}
			}
		}
	}
	// per-node options
	cc.Cap = []int{1, 2, 8, 8}[rng.IntN(4)]
	cc.Topology = []string{"line", "star", "ring", "complete"}[rng.IntN(4)]
	if cc.Topology == "complete" && cc.Cap < cc.N {
		cc.Cap = 8
	}
	cc.Discovery = cc.Cap == 8 && rng.IntN(3) == 0
	if rng.IntN(3) == 0 {
		cc.JitterUS = 500 + rng.IntN(1500)
	}
	maxSend := uint64(100)
	if special == "smallbatch" {
		maxSend = []uint64{7, 1}[rng.IntN(2)]
	}
	perm := rng.Perm(cc.N)
	var und [][2]int
	switch cc.Topology {
	case "line":
		for i := 0; i+1 < cc.N; i++ {
			und = append(und, [2]int{perm[i], perm[i+1]})
		}
	case "ring":
		for i := 0; i+1 < cc.N; i++ {
			und = append(und, [2]int{perm[i], perm[i+1]})
		}
		if cc.N > 2 {
			und = append(und, [2]int{perm[cc.N-1], perm[0]})
		}
	case "star":
		for i := 1; i < cc.N; i++ {
			und = append(und, [2]int{perm[0], perm[i]})
		}
	default:
		for i := 0; i < cc.N; i++ {
			for j := i + 1; j < cc.N; j++ {
				und = append(und, [2]int{perm[i], perm[j]})
			}
		}
	}
	// orient: dialer -> listener, in-degree bounded by the cap; the default
	// orientation (as listed) always satisfies cap >= 1 for line/ring/star
	indeg := make([]int, cc.N)
	for _, e := range und {
		a, b := e[0], e[1]
		if rng.IntN(2) == 0 && indeg[a] < cc.Cap && cc.Topology != "star" && cc.Topology != "ring" && cc.Topology != "line" {
			a, b = b, a
		}
		indeg[b]++
		cc.Edges = append(cc.Edges, [2]int{a, b})
	}
	if cc.Cap == 8 && cc.Topology != "complete" && rng.IntN(2) == 0 {
		// flip all directions (in-degrees stay <= 8)
		for i := range cc.Edges {
			cc.Edges[i] = [2]int{cc.Edges[i][1], cc.Edges[i][0]}
		}
	}
	rng.Shuffle(len(cc.Edges), func(i, j int) { cc.Edges[i], cc.Edges[j] = cc.Edges[j], cc.Edges[i] })
	for i := 0; i < cc.N; i++ {
		bd := branchDesc{Node: i, ForkHeight: forks[i].Height, Len: int(tips[i].Height - forks[i].Height), TipHeight: tips[i].Height, TipNode: tips[i].Idx, Checkpoint: -1, MaxSend: 100}
		if cps[i] != nil {
			bd.Checkpoint = int64(cps[i].Height)
		}
		if maxSend != 100 && (rng.IntN(2) == 0 || i == cc.Winner) {
			bd.MaxSend = maxSend
		}
		cc.Branches = append(cc.Branches, bd)
	}
	return cc, t, tips, cps
}

func runCluster(r *mon.Run, stream uint64, special string) {
	cc, t, tips, cps := genCluster(r, stream, special)
	if cc.N == 0 {
		r.Count("clusters_skipped:generator shape not reached", 1)
		return
	}
	rng := rand.New(rand.NewPCG(uint64(r.Seed)+77, stream))
	slot := p2plab.NextSlot()
	act := p2plab.NewActivity()
	maxOut := cc.Cap
	if cc.MaxOut > 0 {
		maxOut = cc.MaxOut
	}
	nodes := make([]*p2plab.Node, cc.N)
	for i := 0; i < cc.N; i++ {
		o := p2plab.NodeOpts{
			Activity: act,
			Name:     fmt.Sprintf("n%d", i), IP: p2plab.HonestIP(slot, i), Tree: t, Tip: tips[i], PreTips: cc.pre[i], Checkpoint: cps[i],
			SyncInterval: time.Duration(50+rng.IntN(50)) * time.Millisecond, DiscoveryInterval: time.Hour,
			RPCTimeout: 3 * time.Second, MaxInbound: cc.Cap, MaxOutbound: maxOut, MaxSendBlocks: cc.Branches[i].MaxSend,
			Jitter: time.Duration(cc.JitterUS) * time.Microsecond, JitterSeed: rng.Uint64(),
		}
		if cc.Discovery {
			o.DiscoveryInterval = time.Duration(50+rng.IntN(50)) * time.Millisecond
		}
		n, err := p2plab.NewNode(o)
		if err != nil {
			r.Inconclusive(fmt.Sprintf("C12 case %d: cannot build node %d: %v", stream, i, err))
			closeAll(r, nodes[:i])
			return
		}
		nodes[i] = n
	}
	for _, n := range nodes {
		n.Start()
	}
	var lab *p2plab.Byz
	if cc.HeaderBatch > 0 {
		l, err := p2plab.NewByz("lab", p2plab.HonestIP(slot, 7), t, tips[cc.Winner])
		if err != nil {
			r.Inconclusive(fmt.Sprintf("C12 case %d: cannot build lab peer: %v", stream, err))
			closeAll(r, nodes)
			return
		}
		lab = l
		lab.Activity = act
		defer lab.Close()
		batch := cc.HeaderBatch
		lab.OnSendHeaders = func(b *p2plab.Byz, rq *gateway.RPCSendHeaders) p2plab.Reply {
			if !b.HonestHeaders(rq) {
				return p2plab.Reply{}
			}
			if len(rq.Headers) > batch {
				// legal: fewer headers than asked for, with the correct remaining count
				rq.Remaining += uint64(len(rq.Headers) - batch)
				rq.Headers = rq.Headers[:batch]
				b.Count("short-header-batches", 1)
			}
			return p2plab.Reply{Obj: rq}
		}
	}
	winner := tips[cc.Winner]
	if len(cc.mined) > 0 {
		winner = cc.mined[len(cc.mined)-1]
	}
	nontrivial := len(cc.mined) > 0
	for i, x := range tips {
		if i != cc.Winner && x != winner {
			nontrivial = true
		}
	}
	// connect in the PRNG order with small gaps
	connectLab := func(e [2]int) error {
		if e[0] == cc.N {
			return lab.Dial(nodes[e[1]].Addr)
		}
		return nodes[e[0]].Connect(lab.Addr)
	}
	var accepted [][2]int
	for ei, e := range cc.Edges {
		if len(cc.GapsMS) == len(cc.Edges) {
			time.Sleep(time.Duration(cc.GapsMS[ei]) * time.Millisecond)
		} else {
			time.Sleep(time.Duration(rng.IntN(30)) * time.Millisecond)
		}
		if lab != nil && (e[0] == cc.N || e[1] == cc.N) {
			if err := connectLab(e); err != nil {
				r.Count("initial_connect_errors", 1)
			}
			// the one and only announcement of the lab peer's tip
			lab.Call(&gateway.RPCRelayV2Header{Header: winner.Block.Header()}, 2*time.Second)
			continue
		}
		if err := nodes[e[0]].Connect(nodes[e[1]].Addr); err == nil {
			accepted = append(accepted, e)
		} else {
			r.Count("initial_connect_errors", 1)
			msg := err.Error()
			if i := strings.LastIndex(msg, ": "); i >= 0 {
				msg = msg[i+2:]
			}
			r.Count("initial_connect_error:"+msg, 1)
		}
	}
	// a connection that was accepted and is within both endpoints' configured
	// caps (inbound and outbound counted separately, as the option names say)
	// must be kept: after a settle period it has to be in both Peers() lists
	var dropped []string
	if !cc.Discovery {
		indeg, outdeg := make([]int, cc.N+1), make([]int, cc.N+1)
		for _, e := range cc.Edges {
			outdeg[e[0]]++
			indeg[e[1]]++
		}
		var check [][2]int
		for _, e := range accepted {
			if indeg[e[1]] <= cc.Cap && outdeg[e[0]] <= maxOut {
				check = append(check, e)
			}
		}
		present := func(e [2]int) bool {
			return nodes[e[0]].HasPeer(nodes[e[1]].Addr) && nodes[e[1]].HasPeer(nodes[e[0]].Addr)
		}
		// settle: at least 1 s and 20 polling iterations; an edge still missing
		// is polled for up to 4 s (60 iterations) more before it counts as dropped
		for i := 0; i < 20; i++ {
			time.Sleep(50 * time.Millisecond)
		}
		for _, e := range check {
			ok := present(e)
			for i := 0; i < 60 && !ok; i++ {
				time.Sleep(70 * time.Millisecond)
				ok = present(e)
			}
			r.Count("accepted_connections_within_caps_checked", 1)
			if !ok {
				var pa, pb []string
				for _, p := range nodes[e[0]].S.Peers() {
					pa = append(pa, p.String())
				}
				for _, p := range nodes[e[1]].S.Peers() {
					pb = append(pb, p.String())
				}
				dropped = append(dropped, fmt.Sprintf("n%d -> n%d (dialer's peers %v, listener's peers %v, listener inbound cap %d, designed inbound %d)", e[0], e[1], pa, pb, cc.Cap, indeg[e[1]]))
			}
		}
		if len(dropped) > 0 && honestBanClass(nodes) == "" {
			fmt.Printf("note: C12 stream=%d accepted-connection-dropped-within-caps %v\n", stream, dropped)
			r.Violation("accepted-connection-dropped-within-caps", "a connection whose Connect() succeeded and that is within both endpoints' configured inbound/outbound caps was no longer present in both peer lists after the settle period", cc, map[string]any{"dropped_edges": dropped, "edges": cc.Edges})
		}
	}
	if len(cc.mined) > 0 {
		// the miner works through its blocks; receivers get a moment per block
		m := nodes[cc.Winner]
		for _, nd := range cc.mined {
			v1m, v2m, err := minePoolBlock(m, nd)
			if err != nil {
				r.Inconclusive(fmt.Sprintf("C12 case %d: the miner rejected its own valid block: %v", stream, err))
				break
			}
			r.Count("outline_blocks_relayed", 1)
			if v1m > 0 {
				r.Count("outline_blocks_relayed_with_missing_v1_transactions", 1)
			}
			if v2m > 0 {
				r.Count("outline_blocks_relayed_with_missing_v2_transactions", 1)
			}
			for i := 0; i < 12; i++ {
				time.Sleep(25 * time.Millisecond)
				all := true
				for _, n := range nodes {
					if n.CM.Tip().ID != nd.ID {
						all = false
					}
				}
				if all {
					r.Count("outline_blocks_adopted_by_all_within_300ms", 1)
					break
				}
			}
		}
	}
	start := time.Now()
	var announcing [8]atomic.Bool
	converged := false
	var convAt time.Duration
	iter := 0
	wt := newWaiter(act, c12Bound)
	edgeUp, edgeLost := map[string]bool{}, map[string]bool{}
	var lostEdges []string
	for {
		iter++
		all := true
		for _, n := range nodes {
			if x := n.Mon.Sample(); x != winner {
				all = false
			}
		}
		if all {
			converged = true
			convAt = time.Since(start)
			break
		}
		if wt.step() != "" {
			break
		}
		if iter%4 == 0 {
			for i, n := range nodes {
				if announcing[i].CompareAndSwap(false, true) {
					go func(i int, n *p2plab.Node) {
						defer announcing[i].Store(false)
						n.Announce()
					}(i, n)
				}
			}
		}
		// (clusters with a freshly bootstrapped checkpoint node get no help: an
		// honest node dropping an honest peer is exactly what is under test there)
		if cc.Special == "cpahead" || cc.Special == "freshcp" {
			// all-honest cluster without re-dialling: an established edge must stay
			for _, e := range cc.Edges {
				k := fmt.Sprint(e)
				up := nodes[e[0]].HasPeer(nodes[e[1]].Addr) && nodes[e[1]].HasPeer(nodes[e[0]].Addr)
				if up {
					edgeUp[k] = true
				} else if edgeUp[k] && !edgeLost[k] && !(nodes[e[0]].HasPeer(nodes[e[1]].Addr) || nodes[e[1]].HasPeer(nodes[e[0]].Addr)) {
					edgeLost[k] = true
					lostEdges = append(lostEdges, fmt.Sprintf("n%d - n%d after %d ms", e[0], e[1], time.Since(start).Milliseconds()))
				}
			}
		}
		if iter%20 == 0 && cc.Special != "freshcp" && cc.Special != "cpahead" {
			for _, e := range cc.Edges {
				if lab != nil && (e[0] == cc.N || e[1] == cc.N) {
					real := nodes[e[0]+e[1]-cc.N]
					if !real.HasPeer(lab.Addr) {
						if connectLab(e) == nil {
							r.Count("edges_redialled", 1)
						}
					}
					continue
				}
				a, b := nodes[e[0]], nodes[e[1]]
				if !a.HasPeer(b.Addr) && !b.HasPeer(a.Addr) {
					if err := a.Connect(b.Addr); err == nil {
						a.Reconnects.Add(1)
						r.Count("edges_redialled", 1)
					}
				}
			}
		}
		time.Sleep(50 * time.Millisecond)
	}
	if converged {
		// the agreed tip must be stable
		for k := 0; k < 6; k++ {
			time.Sleep(50 * time.Millisecond)
			for _, n := range nodes {
				if x := n.Mon.Sample(); x != winner {
					n.Mon.Report(p2plab.Finding{Sig: "tip-left-heaviest-chain", What: fmt.Sprintf("%s left the heaviest tip after convergence", n.Name)})
				}
			}
		}
	}
	var stuck []string
	v1Unpropagated := !converged
	if !converged {
		byAddr := map[string]*p2plab.Node{}
		for _, n := range nodes {
			byAddr[n.Addr] = n
		}
		for i, n := range nodes {
			x := n.Mon.Tip()
			if x != winner {
				if !stuckOnUnpropagatedV1Tip(x, winner, peerViews(n, byAddr)) {
					v1Unpropagated = false
				}
				h := int64(-1)
				if x != nil {
					h = int64(x.Height)
				}
				var ps []string
				for _, p := range n.S.Peers() {
					ps = append(ps, fmt.Sprintf("%s synced=%v err=%v", p.Addr(), p.Synced(), p.Err()))
				}
				stuck = append(stuck, fmt.Sprintf("node %d (%s) at height %d (want %d), peers: %v", i, n.Addr, h, winner.Height, ps))
			}
		}
	}
	closeAll(r, nodes)
	// verdicts
	r.Eval()
	sig := fmt.Sprintf("%s/%s/n%d/cap%d/trunk%d", cc.Regime, cc.Topology, cc.N, cc.Cap, cc.TrunkLen)
	for _, b := range cc.Branches {
		sig += fmt.Sprintf("/%d+%d", b.ForkHeight, b.Len)
		if b.Checkpoint >= 0 {
			sig += "c"
		}
	}
	if nontrivial {
		r.Distinct(sig)
	}
	r.SetAdd("topologies", fmt.Sprintf("%s/n%d/cap%d", cc.Topology, cc.N, cc.Cap))
	r.SetAdd("regimes", cc.Regime)
	r.Count("nodes_run", cc.N)
	for _, b := range cc.Branches {
		r.SetAdd("branch_lengths", fmt.Sprint(b.Len))
		if b.Checkpoint >= 0 {
			r.Count("checkpoint_bootstrapped_nodes", 1)
		}
		if b.MaxSend != 100 {
			r.Count("nodes_with_small_max_send_blocks", 1)
		}
	}
	wl := cc.Branches[cc.Winner].Len
	if wl >= 99 {
		r.Count("clusters_with_winner_branch_ge_99", 1)
	}
	if cc.Discovery {
		r.Count("clusters_with_discovery", 1)
	}
	if cc.Special == "tightcap" {
		r.Count("clusters_with_tight_inbound_cap_and_outbound_connection", 1)
		if converged {
			r.Count("clusters_with_tight_inbound_cap_converged", 1)
		}
	}
	if lab != nil {
		r.Count("clusters_with_short_header_batches", 1)
		r.Count("short_header_batches_served", lab.Counter("short-header-batches"))
		if converged {
			r.Count("clusters_with_short_header_batches_converged", 1)
		}
	}
	if cc.Special == "freshcp" {
		r.Count("clusters_with_fresh_checkpoint_node", 1)
		r.SetAdd("fresh_checkpoint_gaps", fmt.Sprint(cc.FreshGap))
		if converged {
			r.SetAdd("fresh_checkpoint_gaps_converged", fmt.Sprint(cc.FreshGap))
		}
		var rd int64
		for _, n := range nodes {
			rd += n.Reconnects.Load()
		}
		fmt.Printf("note: C12 freshcp stream=%d gap=%d n=%d converged=%v after %dms redials=%d edges=%v\n", stream, cc.FreshGap, cc.N, converged, convAt.Milliseconds(), rd, cc.Edges)
	}
	if cc.JitterUS > 0 {
		r.Count("clusters_with_jitter", 1)
	}
	reports := func() []nodeReport {
		var out []nodeReport
		for _, n := range nodes {
			out = append(out, reportOf(n))
		}
		return out
	}
	var once sync.Once
	var reps []nodeReport
	getReps := func() []nodeReport { once.Do(func() { reps = reports() }); return reps }
	if converged {
		r.Count("clusters_converged", 1)
		ms := convAt.Milliseconds()
		switch {
		case ms < 500:
			r.Count("convergence_time:<0.5s", 1)
		case ms < 2000:
			r.Count("convergence_time:0.5-2s", 1)
		case ms < 10000:
			r.Count("convergence_time:2-10s", 1)
		default:
			r.Count("convergence_time:>10s", 1)
		}
		r.Extra("last_convergence_ms", ms)
	} else {
		small := false
		for _, b := range cc.Branches {
			if b.MaxSend != 100 {
				small = true
			}
		}
		vsig := "no-convergence-within-90s"
		if cls := honestBanClass(nodes); cls != "" {
			vsig += ":honest-peer-banned:" + cls
		} else if len(dropped) > 0 {
			vsig += ":accepted-connection-dropped-within-caps"
		} else if v1Unpropagated {
			// every stuck node: v1-only gap to the winner, all peers synced without
			// error, a peer exactly one v1 block ahead (see stuckOnUnpropagatedV1Tip)
			vsig += ":v1-tip-not-propagated-to-synced-peer"
		} else if cc.Special == "freshcp" {
			vsig += ":fresh-checkpoint-node"
		} else if cc.Special == "shortheaders" {
			vsig += ":short-header-batches"
		} else if cc.Special == "heavyshort" {
			vsig += ":heaviest-chain-is-shorter"
		} else if len(lostEdges) > 0 {
			vsig += ":honest-peer-disconnected"
		} else if cc.Special == "poolrelay" {
			vsig += ":pool-mined-blocks-in-transition-window"
		} else if cc.Special == "capsync" {
			vsig += ":capped-servers"
		} else if cc.Special == "cpahead" {
			vsig += ":checkpoint-node-ahead"
		} else if small {
			vsig += ":max-send-blocks-below-100"
		}
		fmt.Printf("note: C12 stream=%d %s (%s) stuck=%v\n", stream, vsig, wt.verdict, stuck)
		if wt.verdict == "slow" {
			slowCase(r, fmt.Sprintf("C12 stream=%d %s %v", stream, vsig, wt.info()))
		} else {
			r.Count("stalls_decided:"+wt.verdict, 1)
			r.Violation(vsig, "honest connected nodes did not converge to the heaviest valid chain within the bound, and the cluster is "+wt.verdict, cc, map[string]any{"stuck": stuck, "liveness": wt.info(), "nodes": getReps(), "tree": summarize(t)})
		}
	}
	if cls := honestBanClass(nodes); cls != "" {
		// every node of a C12 cluster is honest: no ban is ever justified
		var bans []string
		for _, n := range nodes {
			for _, b := range n.PS.Bans() {
				bans = append(bans, fmt.Sprintf("%s banned %s: %s", n.Name, b.Addr, b.Reason))
			}
		}
		r.Violation("honest-peer-banned:"+cls, "an honest node called PeerStore.Ban for an honest peer", cc, map[string]any{"bans": bans, "nodes": getReps(), "tree": summarize(t)})
	}
	if len(lostEdges) > 0 && honestBanClass(nodes) == "" {
		fmt.Printf("note: C12 stream=%d honest-peer-disconnected %v\n", stream, lostEdges)
		r.Violation("honest-peer-disconnected", "in an all-honest cluster an established connection was dropped by one of the nodes (nobody re-dials in this cluster shape)", cc, map[string]any{"lost_edges": lostEdges, "nodes": getReps(), "tree": summarize(t)})
	}
	if cc.Special == "poolrelay" {
		r.Count("clusters_with_blocks_mined_from_one_pool_in_the_transition_window", 1)
		if converged {
			r.Count("clusters_with_pool_mined_blocks_converged", 1)
		}
	}
	if cc.Special == "capsync" {
		r.Count("clusters_with_capped_servers_and_more_than_100_blocks", 1)
		for _, b := range cc.Branches[1:] {
			r.Count(fmt.Sprintf("capped_servers_with_max_send_blocks:%d", b.MaxSend), 1)
		}
		if converged {
			r.Count("clusters_with_capped_servers_converged", 1)
		}
	}
	if cc.Special == "cpahead" {
		r.Count("clusters_with_checkpoint_node_ahead_of_a_forked_genesis_node", 1)
		r.Count(fmt.Sprintf("checkpoint_ahead_fork_point:H+%d", cc.FreshGap), 1)
		if converged {
			r.Count("clusters_with_checkpoint_node_ahead_converged", 1)
		}
	}
	if cc.Special == "otherfork" {
		r.Count("clusters_with_peer_on_another_fork_as_block_worker", 1)
		for _, c := range nodes[0].Mon.Calls() {
			if c.Kind == "AddValidatedV2Blocks" {
				r.Count("otherfork_chunks_through_checkpoint_path", 1)
				break
			}
		}
	}
	if cc.Special == "heavyshort" {
		r.Count("clusters_where_heaviest_chain_is_shorter", 1)
		if converged {
			r.Count("clusters_where_heaviest_chain_is_shorter_converged", 1)
		}
	}
	for _, n := range nodes {
		for _, f := range n.Mon.Final() {
			r.Violation(f.Sig, f.What, cc, map[string]any{"detail": f.Detail, "nodes": getReps(), "tree": summarize(t)})
		}
		countMonitor(r, n)
	}
	if stream%37 == 0 {
		r.Sample(map[string]any{"case": cc, "converged_ms": convAt.Milliseconds(), "tree_nodes": len(t.Nodes)})
	}
}

// honestBanClass summarises the bans honest nodes issued against each other
// (every peer of a C12 cluster is honest, so every ban is one).
func honestBanClass(nodes []*p2plab.Node) string {
	cls := map[string]bool{}
	for _, n := range nodes {
		for _, b := range n.PS.Bans() {
			cls[banReasonClass(b.Reason)] = true
		}
	}
	var out []string
	for c := range cls {
		if c != "subnet-strikes" || len(cls) == 1 {
			out = append(out, c) // strikes are a consequence of the other bans
		}
	}
	sort.Strings(out)
	return strings.Join(out, "+")
}
