// Package byz holds the monitors for C11 (a Byzantine peer cannot corrupt,
// crash or stall an honest syncer) and C12 (honest connected nodes converge to
// the heaviest chain). Both run real syncer.Syncer instances on loopback
// addresses (lab/p2plab) over chainlab fork trees.
package byz

import (
	"bytes"
	"encoding/hex"
	"encoding/json"
	"fmt"
	"math/rand/v2"
	"os"
	"strconv"
	"strings"
	"sync"
	"time"

	"go.sia.tech/core/consensus"
	"go.sia.tech/core/types"
	"verif/harness/lab/chainlab"
	"verif/harness/lab/p2plab"
	"verif/harness/mon"
	"verif/harness/vcli"
)

func init() {
	vcli.Register("C11", "fault_enumeration", runC11)
	vcli.Register("C12", "exploration", runC12)
}

// parallel runs fn(0..n-1) on up to w goroutines.
func parallel(n, w int, fn func(i int)) {
	var wg sync.WaitGroup
	sem := make(chan struct{}, w)
	for i := 0; i < n; i++ {
		wg.Add(1)
		sem <- struct{}{}
		go func(i int) {
			defer wg.Done()
			defer func() { <-sem }()
			fn(i)
		}(i)
	}
	wg.Wait()
}

type nodeReport struct {
	Node       string             `json:"node"`
	Calls      []p2plab.CallRec   `json:"last_calls,omitempty"`
	Trajectory []p2plab.TipSample `json:"tip_changes,omitempty"`
	Bans       []p2plab.BanRecord `json:"bans,omitempty"`
	Tip        int                `json:"tip_node"`
	TipHeight  uint64             `json:"tip_height"`
}

func reportOf(n *p2plab.Node) nodeReport {
	rep := nodeReport{Node: n.Name, Calls: n.Mon.Calls(), Trajectory: n.Mon.Trajectory(), Bans: n.PS.Bans(), Tip: -1}
	if t := n.Mon.Tip(); t != nil {
		rep.Tip, rep.TipHeight = t.Idx, t.Height
	}
	return rep
}

func countMonitor(r *mon.Run, n *p2plab.Node) {
	calls, audits, samples, moves, reorgs, depth := n.Mon.Stats()
	for k, v := range calls {
		r.Count("manager_calls_audited:"+k, v)
	}
	if rp := n.Mon.Recovered(); len(rp) > 0 {
		r.Count("manager_panics_recovered_by_rpc_handler", len(rp))
		fmt.Printf("note: %s: manager panic inside an RPC handler (recovered by the syncer): %v\n", n.Name, rp)
	}
	r.Count("audits_run", audits)
	r.Count("tip_samples", samples)
	r.Count("tip_moves_observed", moves)
	r.Count("reorgs_observed", reorgs)
	if depth > 0 {
		r.SetAdd("reorg_depths", fmt.Sprint(depth))
	}
}

// closeAll closes nodes concurrently with a watchdog each.
func closeAll(r *mon.Run, nodes []*p2plab.Node) {
	var wg sync.WaitGroup
	for _, n := range nodes {
		wg.Add(1)
		go func(n *p2plab.Node) {
			defer wg.Done()
			if !n.Close(20 * time.Second) {
				r.Count("close_did_not_return_in_20s", 1)
			}
		}(n)
	}
	wg.Wait()
}

type treeSummary struct {
	Nodes   int `json:"nodes"`
	Invalid int `json:"invalid_nodes"`
}

func summarize(t *chainlab.Tree) treeSummary {
	s := treeSummary{Nodes: len(t.Nodes)}
	for _, n := range t.Nodes {
		if !n.ChainValid {
			s.Invalid++
		}
	}
	return s
}

// loadReplay extracts the "case" object of a replay file into v and switches
// the run to the seed the case was generated with (cases are regenerated from
// seed + stream).
func loadReplay(r *mon.Run, path string, v any) error {
	buf, err := os.ReadFile(path)
	if err != nil {
		return err
	}
	var w struct {
		Seed int64           `json:"seed"`
		Case json.RawMessage `json:"case"`
	}
	if err := json.Unmarshal(buf, &w); err != nil {
		return err
	}
	if w.Seed != 0 {
		r.Seed = w.Seed
	}
	return json.Unmarshal(w.Case, v)
}

// banReasonClass maps a ban reason to a stable class.
func banReasonClass(reason string) string {
	for _, c := range [][2]string{
		{"header with insufficient work", "header-insufficient-work"},
		{"outline with insufficient work", "outline-insufficient-work"},
		{"wrong missing transactions", "wrong-missing-transactions"},
		{"empty transaction set", "empty-transaction-set"},
		{"too many strikes", "subnet-strikes"},
		{"peer sent invalid blocks", "blocks-rejected-by-manager"},
		{"sent invalid block", "invalid-block-in-validated-batch"},
		{"too far in the future", "future-block"},
		{"is invalid", "relayed-block-rejected"},
		{"reorg failed", "relayed-block-rejected"},
		{"missing parent", "relayed-block-rejected"},
	} {
		if strings.Contains(reason, c[0]) {
			return c[1]
		}
	}
	return "other"
}

func chainlabEncode(v types.EncoderTo) string {
	var buf bytes.Buffer
	e := types.NewEncoder(&buf)
	v.EncodeTo(e)
	e.Flush()
	return hex.EncodeToString(buf.Bytes())
}

// ---- structural classification of one stall mechanism ---------------------
//
// A v1 block has no relay that carries it: RelayV2Header is re-relayed when the
// header attaches to the receiver's tip (no fetch, no resync) and outlines
// exist for v2 blocks only. A node that already marked its peers as synced is
// not polled again by the sync loop, so it never obtains a v1 block that is
// exactly one above its tip and that a peer acquired later. (A peer two or
// more blocks ahead announces a header that does NOT attach, which flips it to
// unsynced and triggers a fetch.)

// peerView is what a stuck node knows about one connected peer.
type peerView struct {
	Addr   string
	Synced bool
	Err    string
	Tip    *chainlab.Node // nil if the peer is not an audited honest node
}

// stuckOnUnpropagatedV1Tip reports whether a node stuck at tip (winner being
// the tip it should have reached) matches the mechanism above: (a) tip is an
// ancestor of winner and every block between them is a v1 block; (b) every
// connected peer is marked synced and has no error; (c) at least one peer is
// ahead of the node on the winner's chain, and every peer that is ahead is
// exactly one (v1) block ahead, so that its announcements attach to the node's
// tip.
func stuckOnUnpropagatedV1Tip(tip, winner *chainlab.Node, peers []peerView) bool {
	if tip == nil || winner == nil || tip == winner || len(peers) == 0 {
		return false
	}
	if tip.Height >= winner.Height || winner.Ancestor(tip.Height) != tip {
		return false
	}
	for x := winner; x != tip; x = x.Parent {
		if x.Block.V2 != nil {
			return false
		}
	}
	ahead := 0
	for _, p := range peers {
		if !p.Synced || p.Err != "" {
			return false
		}
		if p.Tip == nil || p.Tip == tip || p.Tip.Height <= tip.Height || p.Tip.Ancestor(tip.Height) != tip {
			continue // not ahead of us on our own chain
		}
		if p.Tip.Parent != tip {
			return false // two or more ahead: its header would not attach and force a resync
		}
		ahead++
	}
	return ahead > 0
}

func peerViews(n *p2plab.Node, byAddr map[string]*p2plab.Node) []peerView {
	var out []peerView
	for _, p := range n.S.Peers() {
		pv := peerView{Addr: p.Addr(), Synced: p.Synced()}
		if err := p.Err(); err != nil {
			pv.Err = err.Error()
		}
		if o := byAddr[p.Addr()]; o != nil {
			pv.Tip = o.Mon.Tip()
		}
		out = append(out, pv)
	}
	return out
}

// parseStreamReplay understands "--replay stream:<n>[:<special>]".
func parseStreamReplay(replay string) (stream uint64, special string, ok bool) {
	if !strings.HasPrefix(replay, "stream:") {
		return 0, "", false
	}
	parts := strings.SplitN(strings.TrimPrefix(replay, "stream:"), ":", 2)
	n, err := strconv.ParseUint(parts[0], 10, 64)
	if err != nil {
		return 0, "", false
	}
	if len(parts) == 2 {
		special = parts[1]
	}
	return n, special, true
}

// ---- what the victim passes on to honest peers ---------------------------------

// auditRelays labels everything an honest lab observer received from the
// victim through relay RPCs with the pure oracle: a relayed outline must not be
// a block the oracle labels invalid (or lack work), a relayed header must be a
// valid header, a relayed transaction set must be valid on its basis.
func auditRelays(t *chainlab.Tree, o *p2plab.Byz, rng *rand.Rand) (fs []p2plab.Finding, judged int) {
	hs, os, sets := o.RelayLog()
	for _, ol := range os {
		parent := t.ByID[ol.ParentID]
		if parent == nil {
			continue
		}
		cs := parent.State()
		id := ol.ID(cs)
		if n := t.ByID[id]; n != nil {
			judged++
			if !n.ChainValid {
				fs = append(fs, p2plab.Finding{Sig: "victim-relayed-invalid-block", What: fmt.Sprintf("the victim relayed the outline of node %d (height %d) to an honest peer although the block is invalid: %s", n.Idx, n.Height, n.Err), Detail: map[string]any{"corruption": n.Corruption}})
			}
		} else if parent.ChainValid && id.CmpWork(cs.PoWTarget()) < 0 {
			judged++
			fs = append(fs, p2plab.Finding{Sig: "victim-relayed-invalid-block", What: fmt.Sprintf("the victim relayed an outline on node %d whose id does not meet the target", parent.Idx)})
		}
	}
	for _, h := range hs {
		if n := t.ByID[h.ID()]; n != nil {
			judged++
			if !n.OrphanValid {
				fs = append(fs, p2plab.Finding{Sig: "victim-relayed-invalid-header", What: fmt.Sprintf("the victim relayed the header of node %d to an honest peer although it is invalid: %s", n.Idx, n.Err)})
			}
		} else if parent := t.ByID[h.ParentID]; parent != nil {
			judged++
			if consensus.ValidateHeader(parent.State(), h) != nil {
				fs = append(fs, p2plab.Finding{Sig: "victim-relayed-invalid-header", What: fmt.Sprintf("the victim relayed a header on node %d that fails header validation", parent.Idx)})
			}
		}
	}
	for _, set := range sets {
		n := t.ByID[set.Index.ID]
		if n == nil || !n.ChainValid {
			continue
		}
		judged++
		bld := n.L.NewBuilder(rng)
		for _, txn := range set.Transactions {
			if !bld.TryV2("relayed", txn.DeepCopy()) {
				fs = append(fs, p2plab.Finding{Sig: "victim-relayed-invalid-transaction-set", What: fmt.Sprintf("the victim relayed a transaction set with basis node %d that is invalid on that basis", n.Idx)})
				break
			}
		}
	}
	return
}

// ---- three-valued liveness verdicts --------------------------------------------

// A waiter decides what an expired liveness deadline means. "quiescent": for a
// whole idle window (wall clock AND loop iterations of the waiting goroutine,
// which is starved along with everything else on a saturated machine) nothing
// sync-related happened and no manager call is in flight: nothing could still
// finish the job. "repeating": things keep happening, but for a whole window
// there was no progress (no tip change, no block a node had not been handed
// before) across at least 20 activity events: the same rounds are repeated.
// Otherwise the wait is extended up to four times the deadline; "slow" at that
// cap is an inconclusive case, never a violation.
type waiter struct {
	act      *p2plab.Activity
	start    time.Time
	deadline time.Duration
	window   time.Duration
	iter     int
	actIter  int
	progIter int
	lastAct  int64
	lastProg int64
	verdict  string
}

const waiterMinIdleIters = 150

func newWaiter(act *p2plab.Activity, deadline time.Duration) *waiter {
	act.Act()
	return &waiter{act: act, start: time.Now(), deadline: deadline, window: 12 * time.Second}
}

// step is called once per polling iteration while the goal is not reached; it
// returns "" (keep waiting), "quiescent", "repeating" or "slow".
func (w *waiter) step() string {
	w.iter++
	if a := w.act.LastActivity(); a != w.lastAct {
		w.lastAct, w.actIter = a, w.iter
	}
	if p := w.act.LastProgress(); p != w.lastProg {
		w.lastProg, w.progIter = p, w.iter
	}
	el := time.Since(w.start)
	if el < w.deadline {
		return ""
	}
	now := time.Now().UnixNano()
	switch {
	case w.act.InFlight() == 0 && now-w.lastAct >= int64(w.window) && w.iter-w.actIter >= waiterMinIdleIters:
		w.verdict = "quiescent"
	case now-w.lastProg >= int64(w.window) && w.iter-w.progIter >= waiterMinIdleIters && w.act.EventsSinceProgress() >= 20:
		w.verdict = "repeating"
	case el >= 4*w.deadline:
		w.verdict = "slow"
	}
	return w.verdict
}

func (w *waiter) info() map[string]any {
	now := time.Now()
	return map[string]any{
		"verdict":                 w.verdict,
		"deadline_ms":             w.deadline.Milliseconds(),
		"waited_ms":               now.Sub(w.start).Milliseconds(),
		"idle_window_required_ms": w.window.Milliseconds(),
		"idle_ms":                 (now.UnixNano() - w.act.LastActivity()) / 1e6,
		"since_progress_ms":       (now.UnixNano() - w.act.LastProgress()) / 1e6,
		"idle_poll_iterations":    w.iter - w.actIter,
		"no_progress_iterations":  w.iter - w.progIter,
		"events_since_progress":   w.act.EventsSinceProgress(),
		"manager_calls_in_flight": w.act.InFlight(),
		"last_activity":           time.Unix(0, w.act.LastActivity()).Format(time.RFC3339Nano),
		"last_progress":           time.Unix(0, w.act.LastProgress()).Format(time.RFC3339Nano),
	}
}

// slowCase records a case whose deadline (and the 4x cap) expired while things
// were still moving.
func slowCase(r *mon.Run, what string) {
	r.Count("cases_inconclusive_slow_machine", 1)
	fmt.Printf("note: inconclusive (activity still ongoing at 4x the deadline): %s\n", what)
}

// slowVerdict makes the whole run inconclusive if more than a small fraction of
// the cases ended without a verdict because the machine was too slow.
func slowVerdict(r *mon.Run, cases int) {
	if n := r.Counter("cases_inconclusive_slow_machine"); n > int64(2+cases/20) {
		r.Inconclusive(fmt.Sprintf("%d of %d cases were still making progress at 4x their liveness deadline (machine too slow)", n, cases))
	}
}
